#!/bin/bash
# development helper: try_harmless.sh <Cxx> <dir with patch.diff> [tier]
# applies a behaviour-preserving patch to /repo, runs the check (which should stay silent), reverts
pid=$1; d=$2; tier=${3:-quick}
cd /repo || exit 2
if [ -n "$(git status --porcelain -uno)" ]; then echo "repo dirty"; exit 2; fi
git apply --check "$d/patch.diff" || { echo "PATCH DOES NOT APPLY"; exit 3; }
git apply "$d/patch.diff"
(cd /verif && timeout 3000 bin/check $pid $tier > /tmp/check_out.txt 2>&1; echo "check exit $?")
grep -E "VIOLATION|KNOWN-FINDING|translator error|Untranslatable|proofs:|correspondence:|->" /tmp/check_out.txt | cut -c1-300 | head -12
git checkout -- .
git status --porcelain -uno
