#!/usr/bin/env python3
"""development helper: run a seeding demo against /repo with the harness shims (compiled extensions, logging stubs)."""
import os, runpy, sys
sys.path.insert(0, "/verif")
from vlib import shims
shims.install()
# child interpreters started by the demo get the shims through vlib/site/sitecustomize.py
os.environ["DV_DEMO_SHIMS"] = "1"
os.environ["PYTHONPATH"] = "/verif/vlib/site:/verif:/repo"
sys.argv = sys.argv[1:]
runpy.run_path(sys.argv[0], run_name="__main__")
