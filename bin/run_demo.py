#!/usr/bin/env python3
"""development helper: run a seeding demo against /repo with the harness shims (compiled extensions, logging stubs)."""
import runpy, sys
sys.path.insert(0, "/verif")
from vlib import shims
shims.install()
sys.argv = [sys.argv[1]]
runpy.run_path(sys.argv[0], run_name="__main__")
