#!/bin/bash
# development helper: run every registered check (tier, seed) with bounded parallelism and summarise
tier=${1:-quick}; seed=${2:-1}; par=${3:-4}
cd /verif || exit 2
mkdir -p /root/scratch/all_$tier
ids=$(/venv/bin/python -c "import json; print(' '.join(c['property_id'] for c in json.load(open('MANIFEST.json'))['checks']))")
echo $ids | tr ' ' '\n' | xargs -P $par -I{} bash -c "VERIF_SEED=$seed timeout 7200 bin/check {} $tier > /root/scratch/all_$tier/{}.log 2>&1; echo {} exit \$? \$(grep -c VIOLATION /root/scratch/all_$tier/{}.log) violations \$(tail -1 /root/scratch/all_$tier/{}.log | grep -o '[0-9.]*s\]' | head -1)"
