#!/bin/bash
# development helper: run the pinned suite on /repo and list baseline-stable tests that no longer pass
out=${1:-/root/scratch/junit.xml}
cd /repo && /venv/bin/python -m pytest -ra -q -p no:cacheprovider --timeout=900 --continue-on-collection-errors --junitxml=$out >/root/scratch/pytest.log 2>&1
python3 - "$out" <<'PY'
import json,sys,xml.etree.ElementTree as ET
b=json.load(open('/root/.vp/BASELINE.json'))
stable=set(b['stable_pass'])
t=ET.parse(sys.argv[1]).getroot()
passed=set()
for tc in t.iter('testcase'):
    ok=not any(ch.tag in('failure','error','skipped') for ch in tc)
    name=tc.get('classname','')+'::'+tc.get('name','')
    if ok: passed.add(name)
missing=sorted(stable-passed)
print('passed',len(passed),'stable',len(stable),'stable-not-passing',len(missing))
for m in missing[:40]: print('  ',m)
PY
