#!/usr/bin/env python3
"""development helper: regenerate the seeded-mutation table of DESIGN.md (between the SEEDS markers) from seeded/*/meta.json."""
import glob, json, os, re
rows = []
for d in sorted(x for x in glob.glob("/verif/seeded/*") if os.path.isfile(os.path.join(x, "meta.json"))):
    m = json.load(open(os.path.join(d, "meta.json")))
    files = sorted(set(re.findall(r"^\+\+\+ b/(\S+)", open(os.path.join(d, "patch.diff")).read(), re.M)))
    br = (m.get("breaks") or "").replace("|", "/").replace("\n", " ")
    br = re.sub(r"^(Change|Changed|CHANGE)\s*:?\s*", "", br)[:230]
    rows.append("| %s | %s | %s | %s | %s |" % (m["property"], os.path.basename(d), ", ".join(f.replace("direct/", "") for f in files), br, (m.get("detected_by") or "").replace("|", "/")))
table = "| property | seed | file(s) | change | caught by |\n|---|---|---|---|---|\n" + "\n".join(rows) + "\n"
p = "/verif/DESIGN.md"
s = open(p).read()
a, b = "<!-- SEEDS-BEGIN -->", "<!-- SEEDS-END -->"
if a in s:
    s = s[: s.index(a) + len(a)] + "\n" + table + s[s.index(b):]
    open(p, "w").write(s)
print(len(rows), "seeds")
