#!/bin/bash
# development helper: applies every kept behaviour-preserving patch (harmless/Cxx_*) to /repo, runs the property's quick
# check (which should exit 0), reverts; one line per patch
cd /verif
for d in harmless/C*_*; do
  [ -f $d/patch.diff ] || continue
  id=$(basename $d); p=${id%%_*}
  r=$(bin/try_harmless.sh $p /verif/$d 2>&1 | grep -E "check exit|PATCH DOES NOT APPLY" | head -1)
  echo "$id: $r"
done
