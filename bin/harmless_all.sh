#!/bin/bash
cd /verif
for p in 01 02 03 04 05 06 07 08 09 10 11 12 13 14 15 16 17 18 19 20; do
  for h in h1 h2 h3; do
    d=/verif/harmless/C${p}_$h
    [ -f $d/patch.diff ] || { echo "C$p $h: missing"; continue; }
    r=$(bin/try_harmless.sh C$p $d 2>&1 | grep -E "check exit" | head -1)
    echo "C$p $h: $r"
  done
done
