#!/bin/bash
# Build everything that does not depend on /repo's sources: the static Coq library.
# (The Cython extensions are compiled from the working tree's shipped C by every check, hash-keyed.)
set -e
HERE="$(cd "$(dirname "$0")/.." && pwd)"
mkdir -p "$HERE/build/ext" "$HERE/build/gen" "$HERE/build/run" "$HERE/evidence" "$HERE/replays"
cd "$HERE/coq"
( echo "-R . DV"; find Base Model Proofs -name '*.v' | sort ) > _CoqProject
coq_makefile -f _CoqProject -o Makefile.coq >/dev/null
timeout 3000 make -f Makefile.coq -j16
touch .built
PYTHONPATH="$HERE" PYTHONDONTWRITEBYTECODE=1 /venv/bin/python -W ignore "$HERE/vlib/shims.py" >/dev/null
echo "setup ok"
