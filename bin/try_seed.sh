#!/bin/bash
# development helper: try_seed.sh <Cxx> <dir with patch.diff demo.py> [tier]
# applies the patch to /repo, confirms the demo fails, runs the check, reverts, confirms the demo passes
pid=$1; d=$2; tier=${3:-quick}
cd /repo || exit 2
if [ -n "$(git status --porcelain -uno)" ]; then echo "repo dirty"; exit 2; fi
git apply --check "$d/patch.diff" || { echo "PATCH DOES NOT APPLY"; exit 3; }
git apply "$d/patch.diff"
PYTHONPATH=/verif:/repo PYTHONDONTWRITEBYTECODE=1 timeout 300 /venv/bin/python -W ignore /verif/bin/run_demo.py "$d/demo.py" >/tmp/demo_out.txt 2>&1; echo "demo with patch: exit $?"
(cd /verif && timeout 3000 bin/check $pid $tier > /tmp/check_out.txt 2>&1; echo "check exit $?")
grep -E "VIOLATION|KNOWN-FINDING|proofs:|correspondence:|->" /tmp/check_out.txt | cut -c1-300 | head -12
git checkout -- . 
PYTHONPATH=/verif:/repo PYTHONDONTWRITEBYTECODE=1 timeout 300 /venv/bin/python -W ignore /verif/bin/run_demo.py "$d/demo.py" >/tmp/demo_out2.txt 2>&1; echo "demo pristine: exit $?"
git status --porcelain -uno
