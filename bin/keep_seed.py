#!/usr/bin/env python3
"""development helper: keep_seed.py <Cxx> <src dir> <seed id> <caught_by> <needs...>"""
import json, os, shutil, sys
pid, src, sid, caught, needs = sys.argv[1], sys.argv[2], sys.argv[3], sys.argv[4], " ".join(sys.argv[5:])
dst = os.path.join("/verif/seeded", sid)
os.makedirs(dst, exist_ok=True)
for f in ("patch.diff", "demo.py", "notes.txt"):
    if os.path.exists(os.path.join(src, f)):
        shutil.copy(os.path.join(src, f), os.path.join(dst, f))
meta = {"property": pid, "breaks": open(os.path.join(src, "notes.txt")).read().strip().split("\n")[0][:300] if os.path.exists(os.path.join(src, "notes.txt")) else "",
        "needs_to_manifest": needs, "detected_by": caught,
        "ran": ["git -C /repo apply patch.diff", "PYTHONPATH=/repo /venv/bin/python demo.py  (exit 1 with the patch, exit 0 without)", "bin/check %s quick  (exit 1, VIOLATION with a concrete replay)" % pid, "git -C /repo checkout -- .", "relevant pinned tests pass with the patch (run by the seeding agent and spot-checked)"]}
json.dump(meta, open(os.path.join(dst, "meta.json"), "w"), indent=1)
print("kept", dst)
