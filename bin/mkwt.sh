#!/bin/bash
# development helper: scratch worktree of /repo HEAD with the shipped generated C copied in
# usage: mkwt.sh <name>   -> /tmp/wt_<name>
set -e
d=/tmp/wt_$1
git -C /repo worktree add --detach -f "$d" HEAD >/dev/null 2>&1
for f in direct/common/_gaussian.c direct/common/_poisson.c direct/ssl/_gaussian_fill.c; do cp /repo/$f $d/$f; done
echo $d
