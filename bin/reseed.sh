#!/bin/bash
# development helper: reseed.sh <Cxx> [tier]  — re-applies every kept seed of a property to /repo, runs the check, reverts.
# prints one line per seed: id, check exit, number of VIOLATION lines with a concrete input, and whether only no-failing-input-found
pid=$1; tier=${2:-quick}
cd /repo || exit 2
if [ -n "$(git status --porcelain -uno)" ]; then echo "repo dirty"; exit 2; fi
for d in /verif/seeded/*; do
  [ -f "$d/meta.json" ] || continue
  grep -q "\"property\": \"$pid\"" "$d/meta.json" || continue
  if ! git apply --check "$d/patch.diff" 2>/dev/null; then echo "$(basename $d): patch does not apply (source moved on)"; continue; fi
  git apply "$d/patch.diff"
  (cd /verif && timeout 3000 bin/check $pid $tier > /tmp/reseed_out.txt 2>&1); ex=$?
  conc=$(grep "^VIOLATION" /tmp/reseed_out.txt | grep -vc "no-failing-input-found")
  nof=$(grep "^VIOLATION" /tmp/reseed_out.txt | grep -c "no-failing-input-found")
  echo "$(basename $d): exit $ex concrete=$conc nofail=$nof"
  git checkout -- .
done
git status --porcelain -uno
