"""AST -> random-number discipline IR (coq/Base/RngIR.v) of the seeded routines of direct.common.subsample / direct.ssl."""
import ast

from .core import Untranslatable
from . import py2gallina as pg

GLOBAL_PREFIX = {"np.random.": 0, "numpy.random.": 0, "torch.": 1, "random.": 2}
TORCH_RANDOM = {"rand", "randn", "randint", "randperm", "rand_like", "randn_like", "normal", "bernoulli", "multinomial", "manual_seed", "seed", "poisson"}
KERNELS = {"gaussian_mask_1d", "gaussian_mask_2d", "_poisson", "gaussian_fill"}
SUSPECT = ("rand", "seed", "shuffle", "choice", "permutation", "normal(", "uniform(", "sample(")


class Classifier:
    def __init__(self, tree, path, cls_name):
        self.tree, self.path = tree, path
        self.classes = {n.name: n for n in tree.body if isinstance(n, ast.ClassDef)}
        self.funcs = {n.name: n for n in tree.body if isinstance(n, ast.FunctionDef)}
        self.cls = cls_name

    def mro(self, name):
        out = []
        while name in self.classes:
            out.append(name)
            bases = [b.id for b in self.classes[name].bases if isinstance(b, ast.Name)]
            name = bases[0] if bases else None
        return out

    def method(self, name):
        for c in self.mro(self.cls):
            for n in self.classes[c].body:
                if isinstance(n, ast.FunctionDef) and n.name == name:
                    return n
        return None

    def call_kind(self, node, depth):
        """Statements contributed by one Call node (not counting its argument sub-calls, visited separately)."""
        fn = ast.unparse(node.func)
        if fn == "self.rng.seed":
            arg = ast.unparse(node.args[0]) if node.args else ""
            if arg != "integerize_seed(seed)":
                return ["RUnknown"]
            return ["RSeedPriv"]
        if fn.startswith("self.rng."):
            return ["RDrawPriv"]
        if fn in KERNELS:
            last = ast.unparse(node.args[-1]) if node.args else ""
            ok = last.startswith("self.rng.randint(") or last == "seed"
            return ["RKernel"] if ok else ["RUnknown"]
        for pref, which in GLOBAL_PREFIX.items():
            if fn.startswith(pref):
                leaf = fn[len(pref):]
                if pref == "torch." and leaf.split(".")[0] not in TORCH_RANDOM:
                    return []
                if pref in ("np.random.", "numpy.random.") and leaf == "RandomState":
                    return ["RUnknown"]
                return ["RSeedGlobal %d" % which if leaf in ("seed", "manual_seed") else "RDrawGlobal %d" % which]
        if fn == "integerize_seed":
            return []  # checked separately (integerize_seed_ok)
        if fn.startswith("self.") and fn.count(".") == 1:
            m = self.method(fn[5:])
            if m is not None and depth < 4:
                return self.stmts_kinds(m.body, depth + 1, inner_seed_from_arg=True)
            return []
        if fn in self.funcs and fn not in ("temp_seed",):
            return self.stmts_kinds(self.funcs[fn].body, depth + 1)
        low = fn.lower()
        if any(w.rstrip("(") in low.split(".")[-1] for w in SUSPECT) and not fn.startswith(("np.around", "np.round", "round")):
            return ["RUnknown"]
        return []

    def stmts_kinds(self, stmts, depth=0, inner_seed_from_arg=False):
        out = []
        for s in stmts:
            for node in ast.walk(s):
                if isinstance(node, ast.Call):
                    k = self.call_kind(node, depth)
                    if inner_seed_from_arg:
                        # a kernel seeded by the method's `seed` parameter: the caller passes a private draw (checked at the call site)
                        pass
                    out += k
        return out

    def program(self, fn):
        """Split a seeded routine into pre / body / post around `with temp_seed(self.rng, seed)`."""
        body = pg.strip_doc(fn.body)
        idx = [i for i, s in enumerate(body) if isinstance(s, ast.With) and ast.unparse(s.items[0].context_expr) == "temp_seed(self.rng, seed)"]
        if len(idx) != 1:
            raise Untranslatable("%s.%s: expected exactly one `with temp_seed(self.rng, seed)` block" % (self.cls, fn.name), fn.lineno, self.path)
        i = idx[0]
        pre = self.stmts_kinds(body[:i])
        inner = self.stmts_kinds(body[i].body)
        post = self.stmts_kinds(body[i + 1 :])
        return pre, inner, post


def fmt(kinds):
    return "[" + "; ".join(kinds) + "]"


def check_temp_seed(tree, path):
    """temp_seed is pinned as text (a generator with try / finally is outside the symbolic executor), up to the names of
    its locals and its docstring."""
    from . import symex as X

    fn = pg.find_def(tree, "temp_seed", path)
    want = "v0 = rng.get_state()\nrng.seed(seed)\ntry:\n    yield\nfinally:\n    rng.set_state(v0)"
    if X.alpha_source(fn) != want:
        raise Untranslatable("temp_seed is not save / seed / try-yield / finally-restore", fn.lineno, path)


INTEGERIZE_SEED = """if isinstance(seed, int):
  return seed
else:
  if (seed is None):
    return np.random.RandomState(#id=1).randint(0, 1000000.0)
  else:
    if isinstance(seed, (tuple, list)):
      do with(temp_seed(np.random.RandomState(#id=1), seed))
      return np.random.RandomState(#id=1).randint(0, 1000000.0)
    else:
      raise ValueError"""


def check_integerize_seed(tree, path):
    """What integerize_seed does, as the canonical text of its symbolically executed outcome tree: an int is returned as it
    is; otherwise one *private* RandomState (the `#id` tags tell objects apart) is drawn from, unseeded for None, seeded by the tuple / list inside temp_seed."""
    from . import symex as X

    t, _n = X.run_function(tree, path, "integerize_seed", opaque={"temp_seed"}, fresh={"RandomState"})
    got = X.render(t)
    if got != INTEGERIZE_SEED:
        raise Untranslatable("integerize_seed: not (int -> itself | None -> unseeded private draw | tuple/list -> private draw seeded inside temp_seed | else ValueError):\n%s" % got, None, path)
