"""Statement-level normalisation of a function body before a *text-matching* translator reads it.

Used where the model is an imperative statement list (C16's training loop) rather than a value: three rewrites that do not
change behaviour under the stated assumptions, so that the routine edits they undo (a helper method extracted from a
run of statements, a named alias or named condition, a guard-`continue`) do not break the translator that follows.

1. `self.m()` as a statement, where `m` is a method of the same class taking only `self` and consisting of plain
   statements without `return` (other than a bare trailing one): replaced by the body of `m`.
2. `name = <pure expression>` (names, attributes, subscripts by constants, arithmetic, comparisons, boolean operators; no
   calls), assigned once in the function and never rebound: removed, and `name` replaced by the expression in the
   statements that follow — provided the expression only reads configuration (`self.cfg...`) and loop-invariant names, or
   no call stands between the assignment and the last use (a call could change what the expression reads).
3. `for v in xs: if not c: continue; rest` -> `for v in xs: if c: rest`; loop variables of such one-level loops are renamed
   to the canonical name the caller passes.
"""
import ast
import copy


def _pure(node):
    for n in ast.walk(node):
        if isinstance(n, (ast.Call, ast.Await, ast.Yield, ast.YieldFrom, ast.Lambda, ast.NamedExpr, ast.ListComp, ast.SetComp, ast.DictComp, ast.GeneratorExp, ast.Starred)):
            return False
    return True


def _reads_only_config(node):
    """self.cfg.<...> chains and constants only."""
    for n in ast.walk(node):
        if isinstance(n, ast.Name) and n.id != "self":
            return False
    src = ast.unparse(node)
    return "self." not in src.replace("self.cfg.", "")


class _Subst(ast.NodeTransformer):
    def __init__(self, name, expr):
        self.name, self.expr = name, expr

    def visit_Name(self, node):
        if node.id == self.name and isinstance(node.ctx, ast.Load):
            return copy.deepcopy(self.expr)
        return node


def inline_self_methods(stmts, methods, depth=2):
    out = []
    for s in stmts:
        if isinstance(s, ast.Expr) and isinstance(s.value, ast.Call) and isinstance(s.value.func, ast.Attribute) and isinstance(s.value.func.value, ast.Name) and s.value.func.value.id == "self" and not s.value.args and not s.value.keywords and s.value.func.attr in methods and depth > 0:
            m = methods[s.value.func.attr]
            params = [a.arg for a in m.args.args]
            body = list(m.body)
            if body and isinstance(body[0], ast.Expr) and isinstance(body[0].value, ast.Constant) and isinstance(body[0].value.value, str):
                body = body[1:]
            if body and isinstance(body[-1], ast.Return) and body[-1].value is None:
                body = body[:-1]
            simple = params == ["self"] and not m.decorator_list and not any(isinstance(n, (ast.Return, ast.Yield, ast.YieldFrom)) for b in body for n in ast.walk(b))
            if simple:
                body = copy.deepcopy(body)
                # locals of the helper get names of their own
                own = {n.id for b in body for n in ast.walk(b) if isinstance(n, ast.Name) and isinstance(n.ctx, ast.Store)}

                class R(ast.NodeTransformer):
                    def visit_Name(self, node):
                        if node.id in own:
                            return ast.copy_location(ast.Name(id="%s__%s" % (node.id, m.name), ctx=node.ctx), node)
                        return node

                body = [R().visit(b) for b in body]
                out.extend(inline_self_methods(body, methods, depth - 1))
                continue
        for field in ("body", "orelse", "finalbody"):
            if hasattr(s, field) and isinstance(getattr(s, field), list) and getattr(s, field) and isinstance(getattr(s, field)[0], ast.stmt):
                setattr(s, field, inline_self_methods(getattr(s, field), methods, depth))
        if isinstance(s, ast.Try):
            for h in s.handlers:
                h.body = inline_self_methods(h.body, methods, depth)
        out.append(s)
    return out


def _stores(stmts):
    counts = {}
    for s in stmts:
        for n in ast.walk(s):
            if isinstance(n, ast.Name) and isinstance(n.ctx, (ast.Store, ast.Del)):
                counts[n.id] = counts.get(n.id, 0) + 1
            if isinstance(n, ast.arg):
                counts[n.arg] = counts.get(n.arg, 0) + 1
    return counts


def forward_substitute(stmts, all_stmts=None):
    """Rewrite 2 on one statement list (applied recursively to nested blocks)."""
    all_stmts = stmts if all_stmts is None else all_stmts
    counts = _stores(all_stmts)
    out = list(stmts)
    i = 0
    while i < len(out):
        s = out[i]
        if isinstance(s, ast.Assign) and len(s.targets) == 1 and isinstance(s.targets[0], ast.Name) and counts.get(s.targets[0].id) == 1 and _pure(s.value):
            name = s.targets[0].id
            rest = out[i + 1 :]
            uses = [j for j, r in enumerate(rest) if any(isinstance(n, ast.Name) and n.id == name for n in ast.walk(r))]
            free = {n.id for n in ast.walk(s.value) if isinstance(n, ast.Name)}
            span = _stores(rest[: uses[-1] + 1]) if uses else {}
            rebound = any(span.get(f, 0) > 0 for f in free)  # what the expression reads is not rebound before the last use
            ok = bool(uses) and not rebound
            if ok and not _reads_only_config(s.value):
                # nothing that could change what the expression reads between here and the last use
                last = uses[-1]
                between = rest[:last]
                ok = not any(isinstance(n, ast.Call) for r in between for n in ast.walk(r))
                # and the last use itself must not be a compound statement running calls before reading the name
                ok = ok and not isinstance(rest[last], (ast.For, ast.While, ast.Try, ast.With))
            if ok:
                sub = _Subst(name, s.value)
                out = out[:i] + [sub.visit(r) for r in rest]
                for r in out:
                    ast.fix_missing_locations(r)
                continue
        for field in ("body", "orelse", "finalbody"):
            blk = getattr(s, field, None)
            if isinstance(blk, list) and blk and isinstance(blk[0], ast.stmt):
                setattr(s, field, forward_substitute(blk, all_stmts))
        if isinstance(s, ast.Try):
            for h in s.handlers:
                h.body = forward_substitute(h.body, all_stmts)
        i += 1
    return out


def unguard_loops(stmts, loop_var=None):
    """Rewrite 3, recursively."""
    out = []
    for s in stmts:
        for field in ("body", "orelse", "finalbody"):
            blk = getattr(s, field, None)
            if isinstance(blk, list) and blk and isinstance(blk[0], ast.stmt):
                setattr(s, field, unguard_loops(blk, loop_var))
        if isinstance(s, ast.For) and not s.orelse and len(s.body) >= 2 and isinstance(s.body[0], ast.If) and not s.body[0].orelse and len(s.body[0].body) == 1 and isinstance(s.body[0].body[0], ast.Continue):
            test = s.body[0].test
            pos = test.operand if isinstance(test, ast.UnaryOp) and isinstance(test.op, ast.Not) else None
            if pos is None and isinstance(test, ast.Compare) and len(test.ops) == 1 and isinstance(test.ops[0], ast.Is):
                pos = ast.Compare(left=test.left, ops=[ast.IsNot()], comparators=test.comparators)
            elif pos is None and isinstance(test, ast.Compare) and len(test.ops) == 1 and isinstance(test.ops[0], ast.IsNot):
                pos = ast.Compare(left=test.left, ops=[ast.Is()], comparators=test.comparators)
            if pos is not None and not any(isinstance(n, ast.Continue) for b in s.body[1:] for n in ast.walk(b)):
                s.body = [ast.If(test=pos, body=s.body[1:], orelse=[])]
        if isinstance(s, ast.For) and loop_var and isinstance(s.target, ast.Name) and s.target.id != loop_var and not s.orelse and not any(isinstance(n, ast.Name) and n.id == loop_var for n in ast.walk(s)):
            old = s.target.id

            class R(ast.NodeTransformer):
                def visit_Name(self, node):
                    if node.id == old:
                        return ast.copy_location(ast.Name(id=loop_var, ctx=node.ctx), node)
                    return node

            # only when the old name is not used after the loop (checked by the caller's single-assignment discipline)
            s = R().visit(s)
        ast.fix_missing_locations(s)
        out.append(s)
    return out


def normalize(fn, cls=None, loop_var=None):
    """A normalised deep copy of a FunctionDef (the class gives the helper methods that may be inlined)."""
    fn = copy.deepcopy(fn)
    methods = {n.name: n for n in cls.body if isinstance(n, ast.FunctionDef)} if cls is not None else {}
    methods.pop(fn.name, None)
    fn.body = inline_self_methods(fn.body, methods)
    fn.body = forward_substitute(fn.body)
    fn.body = unguard_loops(fn.body, loop_var)
    ast.fix_missing_locations(fn)
    return fn
