"""Shared harness for the mask-generator properties (C04-C07): configurations, construction, guarded calls."""
import signal

from . import shims

LINE = ["FastMRIRandom", "CartesianRandom", "FastMRIEquispaced", "CartesianEquispaced", "FastMRIMagic", "CartesianMagic", "Gaussian1D"]
TWO_D = ["Gaussian2D", "Radial", "Spiral", "VariableDensityPoisson"]
KT = ["KtRadial", "KtUniform", "KtGaussian1D"]
ALL = LINE + TWO_D + KT


class Hang(Exception):
    pass


def _alarm(signum, frame):
    raise Hang()


def guarded(fn, seconds=5):
    """Run fn() under a time limit; returns ("ok", value) | ("hang",) | ("raises", type, msg).

    The limit is `seconds` of CPU time of this process (ITIMER_PROF: a loaded machine does not turn a slow call into a
    reported hang), backed by a wall-clock limit twenty times as long for a call that blocks without computing."""
    old = signal.signal(signal.SIGALRM, _alarm)
    oldp = signal.signal(signal.SIGPROF, _alarm)
    signal.setitimer(signal.ITIMER_PROF, seconds)
    signal.setitimer(signal.ITIMER_REAL, 20 * seconds)
    try:
        return ("ok", fn())
    except Hang:
        return ("hang",)
    except Exception as e:  # noqa
        return ("raises", type(e).__name__, str(e)[:160])
    finally:
        signal.setitimer(signal.ITIMER_PROF, 0)
        signal.setitimer(signal.ITIMER_REAL, 0)
        signal.signal(signal.SIGALRM, old)
        signal.signal(signal.SIGPROF, oldp)


def build(name, accel, cf, mode="static", **kw):
    shims.install()
    from direct.common.subsample import build_masking_function
    from direct.types import MaskFuncMode

    m = {"static": MaskFuncMode.STATIC, "dynamic": MaskFuncMode.DYNAMIC, "multislice": MaskFuncMode.MULTISLICE}[mode]
    accs = list(accel) if isinstance(accel, (list, tuple)) else [accel]
    cfs = list(cf) if isinstance(cf, (list, tuple)) else [cf]
    return build_masking_function(name, accelerations=accs, center_fractions=cfs, uniform_range=False, mode=m, **kw)


def num_low(name, N, cf):
    """Requested number of ACS columns for a line generator (the same expression as the documentation: fraction
    times width rounded, or the explicit count)."""
    if name.startswith("Cartesian"):
        return int(cf)
    return int(round(N * cf))


def feasible(name, shape, accel, cf):
    """Feasibility per family (DESIGN.md C04): parameters for which the generator is defined to succeed."""
    rows, cols = shape[-3], shape[-2]
    if name in LINE or name in ("KtUniform", "KtGaussian1D"):
        L = num_low(name, cols, cf)
        if not (1 <= L < cols):
            return False
        if name == "Gaussian1D":
            return round(cols / accel - L - 1) >= 0 and L + round(cols / accel - L - 1) + 1 <= cols
        if "Magic" in name:
            return round(cols / accel) - L >= 1
        return L * accel < cols and (name not in ("KtUniform", "KtGaussian1D") or accel >= 2)
    import math

    r = int(math.sqrt(rows * cols * cf / math.pi))
    disc = sum(1 for x in range(rows) for y in range(cols) if (x - rows // 2) ** 2 + (y - cols // 2) ** 2 < r * r)
    if name == "Gaussian2D":
        return round(rows * cols / accel - disc - 1) >= 0 and disc + round(rows * cols / accel - disc - 1) + 1 <= rows * cols
    return disc * accel < rows * cols


def random_config(rng, names=None, ranks=(3, 4, 5), small=False):
    """One (name, mode, shape, accel, cf) configuration, feasible by construction."""
    for _ in range(200):
        name = rng.choice(names or ALL)
        mode = "dynamic" if name in KT else rng.choice(["static", "static", "dynamic", "multislice"])
        rank = rng.choice([r for r in ranks if r >= (4 if mode != "static" else 3)])
        lo, hi = (8, 24) if small else (8, 80)
        rows, cols = rng.randint(lo, hi), rng.randint(lo, hi)
        if name in KT or name in ("Radial", "Spiral", "VariableDensityPoisson"):
            rows, cols = min(rows, 32), min(cols, 32)
        frames = rng.randint(1, 4)
        shape = [rows, cols, 2]
        if rank >= 4:
            shape = [frames] + shape
        if rank >= 5:
            shape = [rng.randint(1, 2)] + shape
        accel = rng.choice([2, 3, 4, 5.5, 8] if name not in KT else [2, 3, 4])
        if name.startswith("Cartesian"):
            cf = rng.choice([2, 3, 4, 6, 8])
        else:
            cf = rng.choice([0.04, 0.08, 0.1, 0.16, 0.2])
        if name in ("Radial", "Spiral") and rng.random() < 0.4:
            cf = 0  # CIRCUS: ACS = largest fully sampled disc
        if cf == 0 or feasible(name, shape, accel, cf):
            return name, mode, shape, accel, cf
    raise RuntimeError("no feasible configuration found")


def boundary_configs(rng, seeds=2):
    """Small shapes at the boundaries every generator has to cope with: one frame and several, odd and even widths and
    heights, for every mode. Feasible by construction; each yields (name, mode, shape, accel, cf, seed)."""
    for name in ALL:
        modes = ["dynamic"] if name in KT else ["static", "dynamic", "multislice"]
        for mode in modes:
            for frames in ([1] if mode == "static" else [1, 3]):
                for cols in (rng.choice([17, 19, 21, 23]), rng.choice([16, 18, 20, 24])):
                    rows = rng.choice([8, 9, 12, 13])
                    shape = [rows, cols, 2] if mode == "static" else [frames, rows, cols, 2]
                    for _ in range(40):
                        accel = rng.choice([2, 3, 4])
                        cf = rng.choice([2, 3, 4]) if name.startswith("Cartesian") else rng.choice([0.08, 0.1, 0.16, 0.2])
                        if feasible(name, shape, accel, cf):
                            for _s in range(seeds):
                                yield (name, mode, shape, accel, cf, rng.randrange(10**6))
                            break


def second_pair(rng, cfg):
    """The configuration with a second feasible (acceleration, center fraction) pair: which pair a call uses is part of
    what the seed has to determine."""
    name, mode, shape, accel, cf = cfg
    for _ in range(30):
        a2 = rng.choice([2, 3, 4, 5.5, 8] if name not in KT else [2, 3, 4])
        c2 = rng.choice([2, 3, 4, 6, 8]) if name.startswith("Cartesian") else rng.choice([0.04, 0.08, 0.1, 0.16, 0.2])
        if (a2, c2) != (accel, cf) and cf != 0 and feasible(name, shape, a2, c2):
            return name, mode, shape, [accel, a2], [cf, c2]
    return cfg


def call(mf, shape, seed, return_acs=False, seconds=5):
    return guarded(lambda: mf(shape, return_acs=return_acs, seed=seed), seconds)
