"""C18 — in evaluation mode a sample's reconstruction is independent of its batch."""
import ast
import glob
import os

from .. import coqrun, py2gallina as pg, symex as X, zoo
from ..core import Corr, Untranslatable, Violation

ID = "C18"
LEVEL = "proof"
COQ_FILES = ["Tie/C18_defs.v", "Tie/C18_tie.v", "Props/C18_props.v"]
PROPS_FILES = ["C18_props.v"]
TRUSTED_BASE = [
    "vlib/symex.py (symbolic execution of the translated Python subset on the ast: the translator reads value / outcome trees, so local names, intermediates, helpers and the form of branches do not matter; its assumptions - pure expressions, opaque calls, no aliasing writes, try handlers not modelled - are listed in DESIGN.md 12.7; fail-closed)",
    "py2gallina unit 'batchwise': the view / reduction axes of NormUnetModel2d.norm/unnorm, NormUnetModel3d.norm/unnorm and NormConv2dGRU.norm/unnorm (reshape arguments, mean/std axes, keepdim, reshape back), the axis arguments of StandardizationLayer.forward, and the attribute stores inside every forward method under direct/nn are regenerated on every run; the bodies must match a fixed statement pattern or the translation fails closed",
    "coq/Model/C18.v (hand model): a contiguous batch is the concatenation of its samples and reshape(b, groups, -1) cuts it in rows of length c*h*w/groups; tied to torch.reshape by exact correspondence of the row sums on integer-valued tensors",
    "torch's convolutions, instance/batch norm in eval mode and activations act per sample (oracle contract); the convolutional bodies are exercised by the single-vs-batched oracle on the whole zoo, not proved",
    "coil-permutation invariance of the coil sum is theorem C02_coil_permutation_invariant; here it is exercised end to end",
]
ASSUMPTIONS = ["evaluation mode (model.eval())", "c*h*w divisible by the number of groups (torch.reshape raises otherwise)"]
RULE = "(block, batch, channels, spatial size, groups): the mean per (sample, group) returned by the real norm on integer-valued float64 tensors times the row length compared exactly with the Coq row sums of the concatenated batch; non-trivial = batch >= 2 and more than one group; distinct by configuration"

SITES = [
    ("direct/nn/unet/unet_2d.py", "NormUnetModel2d", "groups", ["b", "c", "h", "w"], "nu2"),
    ("direct/nn/unet/unet_3d.py", "NormUnetModel3d", "groups", ["b", "c", "z", "h", "w"], "nu3"),
    ("direct/nn/recurrent/recurrent.py", "NormConv2dGRU", "num_groups", ["b", "c", "h", "w"], "gru"),
]
VD = {"b": "VBatch", "c": "VChannels", "h": "VHeight", "w": "VWidth", "z": "VDepth"}


def _fail(why, node, path):
    raise Untranslatable("batchwise: " + why, getattr(node, "lineno", None), path)


def _view(call, names, groups, path, what):
    """`input_data.reshape(b, groups, -1)` -> list of vdim constructors."""
    if not (isinstance(call, ast.Call) and isinstance(call.func, ast.Attribute) and call.func.attr == "reshape"):
        _fail("%s: expected a reshape call" % what, call, path)
    out = []
    for a in call.args:
        t = ast.unparse(a)
        if t == groups:
            out.append("VGroups")
        elif t == "-1":
            out.append("VRest")
        elif t in VD and t in names:
            out.append(VD[t])
        else:
            out.append("VOther")
    return out


def _view_v(args, data, groups, names, path, what):
    """reshape arguments as vdim constructors: sizes of the input (by position), the group count, -1."""
    if len(args) == 1 and args[0][0] in ("tuple", "list"):
        args = args[0][1]
    shp = ("attr", data, "shape")
    if len(args) == 1 and args[0] in (shp, ("call", ("attr", data, "size"), (), ())):
        return [VD[n] for n in names]  # reshape(input.shape): every size of the input, in order
    out = []
    for a in args:
        if a == S(groups):
            out.append("VGroups")
        elif a == X.const(-1):
            out.append("VRest")
        elif a[0] == "sub" and a[1] == shp and X.is_const(a[2]) and type(a[2][1]) is int and 0 <= a[2][1] < len(names):
            out.append(VD[names[a[2][1]]])
        elif a[0] == "call" and a[1] == ("attr", data, "size") and len(a[2]) == 1 and X.is_const(a[2][0]) and 0 <= a[2][0][1] < len(names):
            out.append(VD[names[a[2][0][1]]])
        else:
            out.append("VOther")
    return out


S = lambda n: ("sym", n)


def _reshape(v, what, path):
    if not (v[0] == "call" and v[1][0] == "attr" and v[1][2] in ("reshape", "view") and not v[3]):
        _fail("%s: expected a reshape: %s" % (what, X.show(v)[:80]), None, path)
    return v[1][1], v[2]


def _norm_spec(tree, cls, groups, names, path):
    """norm returns (reshape-back((X - mean) / std), mean, std) with X a reshape of the input and mean / std reductions of X
    over the same axes; unnorm returns reshape-back(X * std + mean); read off value trees (vlib/symex.py), so the names
    of the locals, intermediates and the way the sizes are obtained do not matter."""
    rank = len(names)
    data = S("input_data")
    attrs = {}
    t, _n = X.run_function(tree, path, cls + ".norm", attrs=attrs)
    t = X.prune_raises(X.drop_do(t))
    if t is None or t[0] != "ret" or t[1][0] != "tuple" or len(t[1][1]) != 3:
        _fail("%s.norm: does not return (output, mean, std)" % cls, None, path)
    outv, mean, std = t[1][1]
    inner, back_args = _reshape(outv, cls + ".norm output", path)
    if not (inner[0] == "bin" and inner[1] == "/" and inner[3] == std and inner[2][0] == "bin" and inner[2][1] == "-" and inner[2][3] == mean):
        _fail("%s.norm: output is not (X - mean) / std: %s" % (cls, X.show(inner)[:100]), None, path)
    xg = inner[2][2]
    src, view_args = _reshape(xg, cls + ".norm grouped input", path)
    if src != data:
        _fail("%s.norm: what is grouped is not the input" % cls, None, path)
    stats = []
    for v, nm in ((mean, "mean"), (std, "std")):
        if not (v[0] == "call" and v[1] == ("attr", xg, nm) and len(v[2]) <= 1):
            _fail("%s.norm: %s is not X.%s(axes, keepdim=..) of the grouped input" % (cls, nm, nm), None, path)
        kw = dict(v[3])
        ax = v[2][0] if v[2] else kw.get("dim", kw.get("axis"))
        if ax is None:
            _fail("%s.norm: %s without axes" % (cls, nm), None, path)
        axes = tuple(x[1] for x in ax[1]) if ax[0] in ("tuple", "list") else (ax[1],)
        if not all(type(x) is int for x in axes):
            _fail("%s.norm: reduction axis is not a literal" % cls, None, path)
        stats.append((axes, kw.get("keepdim", X.FALSE) == X.TRUE, {k_: v_ for k_, v_ in kw.items() if k_ not in ("dim", "axis", "keepdim")}))
    if stats[0][:2] != stats[1][:2] or stats[0][2] or stats[1][2]:
        _fail("%s.norm: mean and std are taken over different axes / with other options" % cls, None, path)
    view = _view_v(view_args, data, groups, names, path, cls + ".norm")
    back = _view_v(back_args, data, groups, names, path, cls + ".norm")
    fmt = lambda vw, bk: "{| view := [%s]; reduce_axes := [%s]; keepdim := %s; back := [%s] |}" % ("; ".join(vw), "; ".join("(%d)%%Z" % a_ for a_ in stats[0][0]), "true" if stats[0][1] else "false", "; ".join(bk))
    spec = fmt(view, back)
    # unnorm
    t, _n = X.run_function(tree, path, cls + ".unnorm")
    t = X.prune_raises(X.drop_do(t))
    if t is None or t[0] != "ret":
        _fail("%s.unnorm: result depends on a branch" % cls, None, path)
    inner, uback_args = _reshape(t[1], cls + ".unnorm output", path)
    ok = inner[0] == "bin" and inner[1] == "+" and inner[3] == S("mean") and inner[2][0] == "bin" and inner[2][1] == "*" and inner[2][3] == S("std")
    if not ok:
        _fail("%s.unnorm: not X * std + mean: %s" % (cls, X.show(inner)[:100]), None, path)
    src, uview_args = _reshape(inner[2][2], cls + ".unnorm grouped input", path)
    if src != data:
        _fail("%s.unnorm: what is grouped is not the input" % cls, None, path)
    uspec = fmt(_view_v(uview_args, data, groups, names, path, cls + ".unnorm"), _view_v(uback_args, data, groups, names, path, cls + ".unnorm"))
    # forward: unnorm is applied with the statistics norm returned in the same call, both with the module's group count
    hits, stopped = X.watch_calls(tree, path, cls + ".forward", ["norm", "unnorm"], opaque={"norm", "unnorm"})
    gcount = ("attr", S("self"), "norm_groups")
    if not hits["norm"] or not hits["unnorm"]:
        _fail("%s.forward: norm / unnorm not reached (%s)" % (cls, stopped), None, path)
    for conds, args, kw in hits["unnorm"]:
        ok = False
        for _c, nargs, _k in hits["norm"]:
            call = ("call", ("attr", S("self"), "norm"), nargs, _k)
            if len(args) == 4 and args[1] == ("sub", call, X.const(1)) and args[2] == ("sub", call, X.const(2)) and args[3] == gcount and nargs[-1] == gcount:
                ok = True
        if not ok:
            _fail("%s.forward: norm / unnorm are not paired on the same statistics: %s" % (cls, [X.show(a_)[:60] for a_ in args]), None, path)
    return spec, uspec


MUTATING = {"append", "extend", "update", "add", "clear", "pop", "popitem", "setdefault", "insert", "remove", "discard", "register_buffer"}


def _self_stores(repo):
    """Writes to the module's own attributes in the forward pass of modules under direct/nn (hidden state carried between
    calls): in `forward` / `__call__` and in every method of the class they reach through `self.<method>(..)`, an
    assignment to `self.x` (also inside a tuple target), to `self.x[..]`, `setattr(self, ..)`, a mutating container
    method or an in-place tensor method (`name_`) called on `self.x`."""
    found = []
    for path in sorted(glob.glob(os.path.join(repo, "direct/nn/**/*.py"), recursive=True)):
        rel = os.path.relpath(path, repo)
        if rel.endswith("_engine.py") or rel.endswith("config.py") or rel.endswith("mri_models.py"):
            continue
        tree, _ = pg.parse_file(path)
        for cls in [n for n in ast.walk(tree) if isinstance(n, ast.ClassDef)]:
            methods = {n.name: n for n in cls.body if isinstance(n, ast.FunctionDef)}
            todo = [m for m in ("forward", "__call__") if m in methods]
            seen = set()
            while todo:
                nm = todo.pop()
                if nm in seen:
                    continue
                seen.add(nm)
                fn = methods[nm]
                selfname = fn.args.args[0].arg if fn.args.args and not any(ast.unparse(d) == "staticmethod" for d in fn.decorator_list) else None
                if selfname is None:
                    continue

                def on_self(e):
                    """e is `self.x`, or `self.x[..]`, `self.x.y` .. rooted at self"""
                    while isinstance(e, (ast.Attribute, ast.Subscript)):
                        if isinstance(e, ast.Attribute) and isinstance(e.value, ast.Name) and e.value.id == selfname:
                            return e.attr
                        e = e.value
                    return None

                for node in ast.walk(fn):
                    targets = []
                    if isinstance(node, ast.Assign):
                        targets = node.targets
                    elif isinstance(node, (ast.AugAssign, ast.AnnAssign)):
                        targets = [node.target]
                    elif isinstance(node, (ast.For, ast.comprehension)):
                        targets = [node.target]
                    elif isinstance(node, ast.With):
                        targets = [i.optional_vars for i in node.items if i.optional_vars is not None]
                    elif isinstance(node, ast.NamedExpr):
                        targets = [node.target]
                    for t in targets:
                        for e in ast.walk(t):
                            if isinstance(e, (ast.Attribute, ast.Subscript)) and isinstance(e.ctx, ast.Store):
                                attr = on_self(e)
                                if attr is not None:
                                    found.append("%s:%s.%s:self.%s" % (rel, cls.name, nm, attr))
                    if isinstance(node, ast.Call):
                        f = node.func
                        if isinstance(f, ast.Name) and f.id in ("setattr", "delattr") and node.args and ast.unparse(node.args[0]) == selfname:
                            found.append("%s:%s.%s:setattr" % (rel, cls.name, nm))
                        if isinstance(f, ast.Attribute) and isinstance(f.value, ast.Name) and f.value.id == selfname and f.attr in methods:
                            todo.append(f.attr)
                        if isinstance(f, ast.Attribute) and (f.attr in MUTATING or (f.attr.endswith("_") and not f.attr.startswith("_"))):
                            attr = on_self(f.value)
                            if attr is not None:
                                found.append("%s:%s.%s:self.%s.%s()" % (rel, cls.name, nm, attr, f.attr))
    return sorted(set(found))


def generate(ctx):
    out = "From DV Require Import Model.C18.\nFrom Coq Require Import String.\n"
    for rel, cls, groups, names, tag in SITES:
        path = ctx.src(rel)
        tree, _ = pg.parse_file(path)
        spec, uspec = _norm_spec(tree, cls, groups, names, path)
        out += "Definition gen_%s_norm : normspec := %s.\nDefinition gen_%s_unnorm : normspec := %s.\n" % (tag, spec, tag, uspec)
    # StandardizationLayer: every axis argument is the coil or the channel axis, never the batch axis
    path = ctx.src("direct/nn/multidomainnet/multidomainnet.py")
    tree, _ = pg.parse_file(path)
    init = pg.find_def(tree, "StandardizationLayer.__init__", path)
    defaults = {a.arg: ast.literal_eval(d) for a, d in zip(init.args.args[-len(init.args.defaults):], init.args.defaults)}
    if sorted(defaults) != ["channel_dim", "coil_dim"]:
        _fail("StandardizationLayer.__init__: parameters outside subset", init, path)
    fw = pg.find_def(tree, "StandardizationLayer.forward", path)
    dims = []
    for node in ast.walk(fw):
        if isinstance(node, ast.Call):
            fn = ast.unparse(node.func)
            last = fn.split(".")[-1]
            if last in ("reduce_operator", "cat", "unsqueeze", "select", "size"):
                kws = {k.arg: k.value for k in node.keywords}
                if "dim" in kws:
                    cand = kws["dim"]
                else:
                    cand = node.args[-1] if last in ("reduce_operator", "cat", "unsqueeze", "size") else node.args[0]
                dims.append(ast.unparse(cand))
            elif last in ("complex_multiplication", "range", "append", "extend", "len", "enumerate", "zip", "list", "tuple"):
                continue  # no axis argument
            else:
                _fail("StandardizationLayer.forward: call outside subset: %s" % fn, node, path)
    bad = sorted(set(d for d in dims if d not in ("self.coil_dim", "self.channel_dim")))
    if bad:
        _fail("StandardizationLayer.forward: axis argument outside {coil_dim, channel_dim}: %s" % bad, fw, path)
    out += "Definition gen_std_coil_dim : Z := (%d)%%Z.\nDefinition gen_std_channel_dim : Z := (%d)%%Z.\n" % (defaults["coil_dim"], defaults["channel_dim"])
    stores = _self_stores(ctx.repo)
    out += "Open Scope string_scope.\nDefinition gen_forward_self_stores : list string := [%s].\n" % "; ".join('"%s"' % s for s in stores)
    return [pg.write_gen(ctx, "C18_gen", out)]


# --------------------------------------------------------------------------------------------------- correspondence
PRE = "From DV Require Import Base.Tactics Base.ListAux Model.C18.\nFrom G Require Import C18_gen C18_defs.\nOpen Scope Z_scope.\n"


def gen_cases(ctx):
    rng = ctx.rng
    cases = []
    for _ in range(ctx.n(150, 2000)):
        blk = rng.choice(["nu2", "nu2", "gru", "nu3"])
        groups = rng.choice([1, 2, 2, 4])
        b = rng.randint(1, 4)
        c = groups * rng.randint(1, 2)
        sp = [rng.randint(1, 4) for _ in range(3 if blk == "nu3" else 2)]
        cases.append((blk, b, c, sp, groups, rng.randrange(10**6)))
    return cases


def correspond(ctx):
    from .. import shims

    shims.install(ctx.repo)
    import torch
    from direct.nn.recurrent.recurrent import NormConv2dGRU
    from direct.nn.unet.unet_2d import NormUnetModel2d
    from direct.nn.unet.unet_3d import NormUnetModel3d

    fn = {"nu2": NormUnetModel2d.norm, "gru": NormConv2dGRU.norm, "nu3": NormUnetModel3d.norm}
    corr = Corr()
    corr.rule = RULE
    cases = gen_cases(ctx)
    impls, terms = [], []
    for (blk, b, c, sp, groups, seed) in cases:
        g = torch.Generator().manual_seed(seed)
        x = torch.randint(-9, 10, (b, c, *sp), generator=g).double()
        n = c
        for s in sp:
            n *= s
        m = n // groups
        try:
            _, mean, _ = fn[blk](x, groups)
            impl = [int(round(float(v) * m)) for v in mean.reshape(-1)]
        except Exception as e:  # noqa
            impl = ["raises", type(e).__name__]
        samples = [[int(v) for v in x[i].reshape(-1)] for i in range(b)]
        terms.append("row_sums %d%%nat %s" % (m, coqrun.lit(samples)))
        impls.append(impl)
    vals = coqrun.eval_sharded("c18_cases", PRE, terms, ctx.work, gen_dir=ctx.gen_dir, shard=300)
    for c_, im, mv in zip(cases, impls, vals):
        blk, b, c, sp, groups, seed = c_
        corr.dist("block", blk)
        corr.dist("batch", b)
        corr.compare({"block": blk, "batch": b, "channels": c, "spatial": sp, "groups": groups, "seed": seed}, im, [int(v) for v in mv], nontrivial=b >= 2 and groups >= 2)
    return corr


# --------------------------------------------------------------------------------------------------- oracles
def _close(a, b, scale, slack=0.0):
    import torch

    return a.shape == b.shape and bool(((a - b).abs() <= 2e-4 * b.abs() + 2e-5 * max(scale, 1e-30) + slack).all())


def _rounding_sensitivity(e, model, single):
    """How much the output moves when the input is perturbed at float32 rounding level (relative 2^-23): small images and
    normalisation layers can amplify rounding by orders of magnitude; "to floating-point rounding" is measured against it."""
    import torch

    g = torch.Generator().manual_seed(7)
    pert = dict(single)
    pert["kspace"] = single["kspace"] * (1 + 2.0**-22 * torch.randn(single["kspace"].shape, generator=g))
    with torch.no_grad():
        a = e["call"](model, single)
        b = e["call"](model, pert)
    return [float((x - y).abs().max()) if bool(torch.isfinite(x).all() and torch.isfinite(y).all()) else float("inf") for x, y in zip(a, b)]


def oracles(ctx, deep):
    import torch

    torch.set_num_threads(4)
    out, seen, runs = [], set(), 0

    def add(v):
        if v.key() not in seen:
            seen.add(v.key())
            out.append(v)

    rng = ctx.rng
    try:
        es = zoo.entries()
    except Exception as e:  # noqa
        add(Violation("zoo-builds", "the model zoo cannot be imported / enumerated: %s: %s" % (type(e).__name__, str(e)[:160]), {"exception": type(e).__name__}, {"kind": "zoo"}))
        ctx.oracle_runs = 0
        return out
    trials = ctx.n(2, 12) * (2 if deep else 1)
    for e in es:
        try:
            model = e["build"]().eval()
        except Exception as ex:  # noqa
            add(Violation("zoo-builds", "%s cannot be constructed: %s" % (e["name"], type(ex).__name__), {"entry": e["name"]}, {"entry": e["name"], "kind": "build"}))
            continue
        for t in range(trials):
            n = rng.randint(2, 4)
            c = rng.choice([2, 3, 4, 5, 6, 7])  # also coil counts that are not a multiple of a chunk size
            for _ in range(50):
                h, w = rng.randint(6, 20), rng.randint(6, 20)
                if zoo.admissible(e, h, w, c):
                    break
            else:
                continue
            # the sample compared: never only the first one of the batch (a model that uses sample 0's auxiliary inputs, such
            # as its scaling factor, for the whole batch is right on sample 0)
            j = n - 1 if t % 2 == 0 else rng.randrange(n)
            # the sample itself may be of small or large magnitude (raw scanner units)
            b = zoo.make_batch(n, c, h, w, seed=rng.randrange(10**6), scale=rng.choice([1.0, 1.0, 1e-5, 1e3]))
            # companions of extreme magnitude
            comp = rng.choice([1.0, 1e3, 1e-3, 0.0])
            for i in range(n):
                if i != j:
                    b["kspace"][i] *= comp
            single = {k: v[j : j + 1].clone() for k, v in b.items()}
            cfg = {"entry": e["name"], "batch": n, "coils": c, "height": h, "width": w, "sample": j, "companion_scale": comp, "sample_scale": float(b["kspace"].abs().max())}
            runs += 1
            try:
                with torch.no_grad():
                    before = {k: v.clone() for k, v in b.items()}
                    ob = e["call"](model, b)
                    changed = [k for k, v in b.items() if not torch.equal(v, before[k])]
                    if changed:
                        add(Violation("repeat-identical", "%s: an evaluation modifies its input tensors %s in place (a second evaluation of the same batch sees other data)" % (e["name"], changed), {"config": cfg, "modified": changed}, {"entry": e["name"], "kind": "inplace"}))
                        b = {k: v.clone() for k, v in before.items()}
                        single = {k: v[j : j + 1].clone() for k, v in b.items()}
                    ob2 = e["call"](model, b)
                    os_ = e["call"](model, single)
            except Exception as ex:  # noqa
                add(Violation("eval-runs", "%s raises %s in evaluation mode: %s" % (e["name"], type(ex).__name__, str(ex)[:120]), {"config": cfg}, {"entry": e["name"], "kind": "raises"}))
                continue
            try:
                sens_ = _rounding_sensitivity(e, model, single)
            except Exception:  # noqa
                sens_ = [0.0] * len(os_)
            for x, y, z, rs in zip(ob, ob2, os_, sens_):
                if not (x.shape == y.shape and bool(((x == y) | (torch.isnan(x) & torch.isnan(y))).all())):
                    add(Violation("repeat-identical", "%s: two evaluations of the same batch differ (max %.3g)" % (e["name"], float((x - y).nan_to_num().abs().max())), {"config": cfg}, {"entry": e["name"], "kind": "repeat"}))
                xs = x[j : j + 1]
                scale = float(z.abs().max())
                if not bool(torch.isfinite(z).all()):
                    continue  # finiteness of a sample's own output is C17's subject
                if not bool(torch.isfinite(xs).all()):
                    add(Violation("batch-independent", "%s: sample %d is finite when processed alone but not inside a batch of %d whose other samples are scaled by %g" % (e["name"], j, n, comp), {"config": cfg}, {"entry": e["name"], "kind": "batch-nonfinite"}))
                    continue
                if not _close(xs, z, scale, 100 * rs):
                    add(Violation("batch-independent", "%s: sample %d processed alone and inside a batch of %d (companions scaled by %g) differ by %.3g (output scale %.3g; a rounding-level input perturbation moves the output by %.3g)" % (e["name"], j, n, comp, float((xs - z).abs().max()), scale, rs), {"config": cfg, "max_diff": float((xs - z).abs().max()), "scale": scale, "rounding_sensitivity": rs}, {"entry": e["name"], "kind": "batch"}))
            # coil permutation
            if e["coil_invariant"] and e["kind"] in ("image", "image_cf", "modulus"):
                perm = list(range(c))
                rng.shuffle(perm)
                pb = dict(single, kspace=single["kspace"][:, perm].contiguous(), sens=single["sens"][:, perm].contiguous())
                try:
                    with torch.no_grad():
                        op = e["call"](model, pb)
                except Exception as ex:  # noqa
                    add(Violation("eval-runs", "%s raises %s on permuted coils" % (e["name"], type(ex).__name__), {"config": cfg}, {"entry": e["name"], "kind": "raises-perm"}))
                    continue
                for z, p, rs in zip(os_, op, sens_):
                    scale = float(z.abs().max())
                    if bool(torch.isfinite(z).all()) and not _close(z, p, scale, 100 * rs):
                        add(Violation("coil-permutation", "%s: reordering coils %s of k-space and sensitivity maps together changes the image by %.3g (scale %.3g)" % (e["name"], perm, float((z - p).abs().max()), scale), {"config": cfg, "perm": perm}, {"entry": e["name"], "kind": "perm"}))
    ctx.oracle_runs = runs
    return out
