"""C18 — in evaluation mode a sample's reconstruction is independent of its batch."""
import ast
import glob
import os

from .. import coqrun, py2gallina as pg, zoo
from ..core import Corr, Untranslatable, Violation

ID = "C18"
LEVEL = "proof"
COQ_FILES = ["Tie/C18_defs.v", "Tie/C18_tie.v", "Props/C18_props.v"]
PROPS_FILES = ["C18_props.v"]
TRUSTED_BASE = [
    "py2gallina unit 'batchwise': the view / reduction axes of NormUnetModel2d.norm/unnorm, NormUnetModel3d.norm/unnorm and NormConv2dGRU.norm/unnorm (reshape arguments, mean/std axes, keepdim, reshape back), the axis arguments of StandardizationLayer.forward, and the attribute stores inside every forward method under direct/nn are regenerated on every run; the bodies must match a fixed statement pattern or the translation fails closed",
    "coq/Model/C18.v (hand model): a contiguous batch is the concatenation of its samples and reshape(b, groups, -1) cuts it in rows of length c*h*w/groups; tied to torch.reshape by exact correspondence of the row sums on integer-valued tensors",
    "torch's convolutions, instance/batch norm in eval mode and activations act per sample (oracle contract); the convolutional bodies are exercised by the single-vs-batched oracle on the whole zoo, not proved",
    "coil-permutation invariance of the coil sum is theorem C02_coil_permutation_invariant; here it is exercised end to end",
]
ASSUMPTIONS = ["evaluation mode (model.eval())", "c*h*w divisible by the number of groups (torch.reshape raises otherwise)"]
RULE = "(block, batch, channels, spatial size, groups): the mean per (sample, group) returned by the real norm on integer-valued float64 tensors times the row length compared exactly with the Coq row sums of the concatenated batch; non-trivial = batch >= 2 and more than one group; distinct by configuration"

SITES = [
    ("direct/nn/unet/unet_2d.py", "NormUnetModel2d", "groups", ["b", "c", "h", "w"], "nu2"),
    ("direct/nn/unet/unet_3d.py", "NormUnetModel3d", "groups", ["b", "c", "z", "h", "w"], "nu3"),
    ("direct/nn/recurrent/recurrent.py", "NormConv2dGRU", "num_groups", ["b", "c", "h", "w"], "gru"),
]
VD = {"b": "VBatch", "c": "VChannels", "h": "VHeight", "w": "VWidth", "z": "VDepth"}


def _fail(why, node, path):
    raise Untranslatable("batchwise: " + why, getattr(node, "lineno", None), path)


def _view(call, names, groups, path, what):
    """`input_data.reshape(b, groups, -1)` -> list of vdim constructors."""
    if not (isinstance(call, ast.Call) and isinstance(call.func, ast.Attribute) and call.func.attr == "reshape"):
        _fail("%s: expected a reshape call" % what, call, path)
    out = []
    for a in call.args:
        t = ast.unparse(a)
        if t == groups:
            out.append("VGroups")
        elif t == "-1":
            out.append("VRest")
        elif t in VD and t in names:
            out.append(VD[t])
        else:
            out.append("VOther")
    return out


def _norm_spec(tree, cls, groups, names, path):
    fn = pg.find_def(tree, cls + ".norm", path)
    body = [s for s in pg.strip_doc(fn.body)]
    if ast.unparse(body[0]) != "%s = input_data.shape" % ", ".join(names):
        _fail("%s.norm: expected `%s = input_data.shape`" % (cls, ", ".join(names)), body[0], path)
    if not (isinstance(body[1], ast.Assign) and ast.unparse(body[1].targets[0]) == "input_data"):
        _fail("%s.norm: expected the reshape of input_data" % cls, body[1], path)
    view = _view(body[1].value, names, groups, path, cls + ".norm")
    axes, keep = [], []
    for st, nm in ((body[2], "mean"), (body[3], "std")):
        v = st.value
        if not (isinstance(st, ast.Assign) and ast.unparse(st.targets[0]) == nm and isinstance(v, ast.Call) and ast.unparse(v.func) == "input_data." + nm and len(v.args) == 1):
            _fail("%s.norm: expected `%s = input_data.%s(axis, keepdim=...)`" % (cls, nm, nm), st, path)
        try:
            ax = ast.literal_eval(v.args[0])
        except Exception:
            _fail("%s.norm: reduction axis is not a literal" % cls, st, path)
        axes.append(tuple(ax) if isinstance(ax, (tuple, list)) else (ax,))
        kd = [k for k in v.keywords if k.arg == "keepdim"]
        keep.append(bool(kd and ast.literal_eval(kd[0].value)))
    if axes[0] != axes[1] or keep[0] != keep[1]:
        _fail("%s.norm: mean and std are taken over different axes" % cls, fn, path)
    if ast.unparse(body[4]) != "output = (input_data - mean) / std":
        _fail("%s.norm: expected `output = (input_data - mean) / std`" % cls, body[4], path)
    if not (isinstance(body[5], ast.Assign) and ast.unparse(body[5].targets[0]) == "output" and ast.unparse(body[5].value.func) == "output.reshape"):
        _fail("%s.norm: expected the reshape back" % cls, body[5], path)
    back = _view(body[5].value, names, groups, path, cls + ".norm")
    if ast.unparse(body[6]) != "return (output, mean, std)":
        _fail("%s.norm: expected `return output, mean, std`" % cls, body[6], path)
    spec = "{| view := [%s]; reduce_axes := [%s]; keepdim := %s; back := [%s] |}" % ("; ".join(view), "; ".join("(%d)%%Z" % a for a in axes[0]), "true" if keep[0] else "false", "; ".join(back))
    # unnorm
    un = pg.find_def(tree, cls + ".unnorm", path)
    ub = pg.strip_doc(un.body)
    if ast.unparse(ub[0]) != "%s = input_data.shape" % ", ".join(names) or not (isinstance(ub[1], ast.Assign) and ast.unparse(ub[1].targets[0]) == "input_data"):
        _fail("%s.unnorm: prologue outside subset" % cls, un, path)
    uview = _view(ub[1].value, names, groups, path, cls + ".unnorm")
    r = ub[2]
    if not (isinstance(r, ast.Return) and isinstance(r.value, ast.Call) and ast.unparse(r.value.func) == "(input_data * std + mean).reshape"):
        _fail("%s.unnorm: expected `return (input_data * std + mean).reshape(...)`" % cls, r, path)
    uback = _view(r.value, names, groups, path, cls + ".unnorm")
    uspec = "{| view := [%s]; reduce_axes := [%s]; keepdim := %s; back := [%s] |}" % ("; ".join(uview), "; ".join("(%d)%%Z" % a for a in axes[0]), "true" if keep[0] else "false", "; ".join(uback))
    # forward: norm -> body -> unnorm with the statistics of norm
    fw = ast.unparse(pg.find_def(tree, cls + ".forward", path))
    if ("mean, std = self.norm(" not in fw) or ("self.unnorm(" not in fw) or ("mean, std, self.norm_groups)" not in fw):
        _fail("%s.forward: norm / unnorm are not paired on the same statistics" % cls, None, path)
    return spec, uspec


def _self_stores(repo):
    """Attribute stores inside forward methods of modules under direct/nn (hidden state carried between calls)."""
    found = []
    for path in sorted(glob.glob(os.path.join(repo, "direct/nn/**/*.py"), recursive=True)):
        rel = os.path.relpath(path, repo)
        if rel.endswith("_engine.py") or rel.endswith("config.py") or rel.endswith("mri_models.py"):
            continue
        tree, _ = pg.parse_file(path)
        for cls in [n for n in ast.walk(tree) if isinstance(n, ast.ClassDef)]:
            for fn in [n for n in cls.body if isinstance(n, ast.FunctionDef) and n.name in ("forward", "__call__")]:
                for node in ast.walk(fn):
                    targets = []
                    if isinstance(node, ast.Assign):
                        targets = node.targets
                    elif isinstance(node, (ast.AugAssign, ast.AnnAssign)):
                        targets = [node.target]
                    for t in targets:
                        for e in ast.walk(t):
                            if isinstance(e, ast.Attribute) and isinstance(e.ctx, ast.Store) and isinstance(e.value, ast.Name) and e.value.id == "self":
                                found.append("%s:%s.%s:self.%s" % (rel, cls.name, fn.name, e.attr))
                    if isinstance(node, ast.Call) and isinstance(node.func, ast.Name) and node.func.id == "setattr" and node.args and ast.unparse(node.args[0]) == "self":
                        found.append("%s:%s.%s:setattr" % (rel, cls.name, fn.name))
    return sorted(set(found))


def generate(ctx):
    out = "From DV Require Import Model.C18.\nFrom Coq Require Import String.\n"
    for rel, cls, groups, names, tag in SITES:
        path = ctx.src(rel)
        tree, _ = pg.parse_file(path)
        spec, uspec = _norm_spec(tree, cls, groups, names, path)
        out += "Definition gen_%s_norm : normspec := %s.\nDefinition gen_%s_unnorm : normspec := %s.\n" % (tag, spec, tag, uspec)
    # StandardizationLayer: every axis argument is the coil or the channel axis, never the batch axis
    path = ctx.src("direct/nn/multidomainnet/multidomainnet.py")
    tree, _ = pg.parse_file(path)
    init = pg.find_def(tree, "StandardizationLayer.__init__", path)
    defaults = {a.arg: ast.literal_eval(d) for a, d in zip(init.args.args[-len(init.args.defaults):], init.args.defaults)}
    if sorted(defaults) != ["channel_dim", "coil_dim"]:
        _fail("StandardizationLayer.__init__: parameters outside subset", init, path)
    fw = pg.find_def(tree, "StandardizationLayer.forward", path)
    dims = []
    for node in ast.walk(fw):
        if isinstance(node, ast.Call):
            fn = ast.unparse(node.func)
            last = fn.split(".")[-1]
            if last in ("reduce_operator", "cat", "unsqueeze", "select", "size"):
                cand = node.args[-1] if last in ("reduce_operator", "cat", "unsqueeze", "size") else node.args[0]
                dims.append(ast.unparse(cand))
            elif last in ("complex_multiplication", "range"):
                continue
            else:
                _fail("StandardizationLayer.forward: call outside subset: %s" % fn, node, path)
    bad = sorted(set(d for d in dims if d not in ("self.coil_dim", "self.channel_dim")))
    if bad:
        _fail("StandardizationLayer.forward: axis argument outside {coil_dim, channel_dim}: %s" % bad, fw, path)
    out += "Definition gen_std_coil_dim : Z := (%d)%%Z.\nDefinition gen_std_channel_dim : Z := (%d)%%Z.\n" % (defaults["coil_dim"], defaults["channel_dim"])
    stores = _self_stores(ctx.repo)
    out += "Open Scope string_scope.\nDefinition gen_forward_self_stores : list string := [%s].\n" % "; ".join('"%s"' % s for s in stores)
    return [pg.write_gen(ctx, "C18_gen", out)]


# --------------------------------------------------------------------------------------------------- correspondence
PRE = "From DV Require Import Base.Tactics Base.ListAux Model.C18.\nFrom G Require Import C18_gen C18_defs.\nOpen Scope Z_scope.\n"


def gen_cases(ctx):
    rng = ctx.rng
    cases = []
    for _ in range(ctx.n(150, 2000)):
        blk = rng.choice(["nu2", "nu2", "gru", "nu3"])
        groups = rng.choice([1, 2, 2, 4])
        b = rng.randint(1, 4)
        c = groups * rng.randint(1, 2)
        sp = [rng.randint(1, 4) for _ in range(3 if blk == "nu3" else 2)]
        cases.append((blk, b, c, sp, groups, rng.randrange(10**6)))
    return cases


def correspond(ctx):
    from .. import shims

    shims.install(ctx.repo)
    import torch
    from direct.nn.recurrent.recurrent import NormConv2dGRU
    from direct.nn.unet.unet_2d import NormUnetModel2d
    from direct.nn.unet.unet_3d import NormUnetModel3d

    fn = {"nu2": NormUnetModel2d.norm, "gru": NormConv2dGRU.norm, "nu3": NormUnetModel3d.norm}
    corr = Corr()
    corr.rule = RULE
    cases = gen_cases(ctx)
    impls, terms = [], []
    for (blk, b, c, sp, groups, seed) in cases:
        g = torch.Generator().manual_seed(seed)
        x = torch.randint(-9, 10, (b, c, *sp), generator=g).double()
        n = c
        for s in sp:
            n *= s
        m = n // groups
        try:
            _, mean, _ = fn[blk](x, groups)
            impl = [int(round(float(v) * m)) for v in mean.reshape(-1)]
        except Exception as e:  # noqa
            impl = ["raises", type(e).__name__]
        samples = [[int(v) for v in x[i].reshape(-1)] for i in range(b)]
        terms.append("row_sums %d%%nat %s" % (m, coqrun.lit(samples)))
        impls.append(impl)
    vals = coqrun.eval_sharded("c18_cases", PRE, terms, ctx.work, gen_dir=ctx.gen_dir, shard=300)
    for c_, im, mv in zip(cases, impls, vals):
        blk, b, c, sp, groups, seed = c_
        corr.dist("block", blk)
        corr.dist("batch", b)
        corr.compare({"block": blk, "batch": b, "channels": c, "spatial": sp, "groups": groups, "seed": seed}, im, [int(v) for v in mv], nontrivial=b >= 2 and groups >= 2)
    return corr


# --------------------------------------------------------------------------------------------------- oracles
def _close(a, b, scale, slack=0.0):
    import torch

    return a.shape == b.shape and bool(((a - b).abs() <= 2e-4 * b.abs() + 2e-5 * max(scale, 1e-30) + slack).all())


def _rounding_sensitivity(e, model, single):
    """How much the output moves when the input is perturbed at float32 rounding level (relative 2^-23): small images and
    normalisation layers can amplify rounding by orders of magnitude; "to floating-point rounding" is measured against it."""
    import torch

    g = torch.Generator().manual_seed(7)
    pert = dict(single)
    pert["kspace"] = single["kspace"] * (1 + 2.0**-22 * torch.randn(single["kspace"].shape, generator=g))
    with torch.no_grad():
        a = e["call"](model, single)
        b = e["call"](model, pert)
    return [float((x - y).abs().max()) if bool(torch.isfinite(x).all() and torch.isfinite(y).all()) else float("inf") for x, y in zip(a, b)]


def oracles(ctx, deep):
    import torch

    torch.set_num_threads(4)
    out, seen, runs = [], set(), 0

    def add(v):
        if v.key() not in seen:
            seen.add(v.key())
            out.append(v)

    rng = ctx.rng
    try:
        es = zoo.entries()
    except Exception as e:  # noqa
        add(Violation("zoo-builds", "the model zoo cannot be imported / enumerated: %s: %s" % (type(e).__name__, str(e)[:160]), {"exception": type(e).__name__}, {"kind": "zoo"}))
        ctx.oracle_runs = 0
        return out
    trials = ctx.n(2, 12) * (2 if deep else 1)
    for e in es:
        try:
            model = e["build"]().eval()
        except Exception as ex:  # noqa
            add(Violation("zoo-builds", "%s cannot be constructed: %s" % (e["name"], type(ex).__name__), {"entry": e["name"]}, {"entry": e["name"], "kind": "build"}))
            continue
        for t in range(trials):
            n = rng.randint(2, 4)
            c = rng.choice([2, 3, 4, 5, 6, 7])  # also coil counts that are not a multiple of a chunk size
            for _ in range(50):
                h, w = rng.randint(6, 20), rng.randint(6, 20)
                if zoo.admissible(e, h, w, c):
                    break
            else:
                continue
            j = rng.randrange(n)
            # the sample itself may be of small or large magnitude (raw scanner units)
            b = zoo.make_batch(n, c, h, w, seed=rng.randrange(10**6), scale=rng.choice([1.0, 1.0, 1e-5, 1e3]))
            # companions of extreme magnitude
            comp = rng.choice([1.0, 1e3, 1e-3, 0.0])
            for i in range(n):
                if i != j:
                    b["kspace"][i] *= comp
            single = {k: v[j : j + 1].clone() for k, v in b.items()}
            cfg = {"entry": e["name"], "batch": n, "coils": c, "height": h, "width": w, "sample": j, "companion_scale": comp, "sample_scale": float(b["kspace"].abs().max())}
            runs += 1
            try:
                with torch.no_grad():
                    before = {k: v.clone() for k, v in b.items()}
                    ob = e["call"](model, b)
                    changed = [k for k, v in b.items() if not torch.equal(v, before[k])]
                    if changed:
                        add(Violation("repeat-identical", "%s: an evaluation modifies its input tensors %s in place (a second evaluation of the same batch sees other data)" % (e["name"], changed), {"config": cfg, "modified": changed}, {"entry": e["name"], "kind": "inplace"}))
                        b = {k: v.clone() for k, v in before.items()}
                        single = {k: v[j : j + 1].clone() for k, v in b.items()}
                    ob2 = e["call"](model, b)
                    os_ = e["call"](model, single)
            except Exception as ex:  # noqa
                add(Violation("eval-runs", "%s raises %s in evaluation mode: %s" % (e["name"], type(ex).__name__, str(ex)[:120]), {"config": cfg}, {"entry": e["name"], "kind": "raises"}))
                continue
            try:
                sens_ = _rounding_sensitivity(e, model, single)
            except Exception:  # noqa
                sens_ = [0.0] * len(os_)
            for x, y, z, rs in zip(ob, ob2, os_, sens_):
                if not (x.shape == y.shape and bool(((x == y) | (torch.isnan(x) & torch.isnan(y))).all())):
                    add(Violation("repeat-identical", "%s: two evaluations of the same batch differ (max %.3g)" % (e["name"], float((x - y).nan_to_num().abs().max())), {"config": cfg}, {"entry": e["name"], "kind": "repeat"}))
                xs = x[j : j + 1]
                scale = float(z.abs().max())
                if not bool(torch.isfinite(z).all()):
                    continue  # finiteness of a sample's own output is C17's subject
                if not bool(torch.isfinite(xs).all()):
                    add(Violation("batch-independent", "%s: sample %d is finite when processed alone but not inside a batch of %d whose other samples are scaled by %g" % (e["name"], j, n, comp), {"config": cfg}, {"entry": e["name"], "kind": "batch-nonfinite"}))
                    continue
                if not _close(xs, z, scale, 100 * rs):
                    add(Violation("batch-independent", "%s: sample %d processed alone and inside a batch of %d (companions scaled by %g) differ by %.3g (output scale %.3g; a rounding-level input perturbation moves the output by %.3g)" % (e["name"], j, n, comp, float((xs - z).abs().max()), scale, rs), {"config": cfg, "max_diff": float((xs - z).abs().max()), "scale": scale, "rounding_sensitivity": rs}, {"entry": e["name"], "kind": "batch"}))
            # coil permutation
            if e["coil_invariant"] and e["kind"] in ("image", "image_cf", "modulus"):
                perm = list(range(c))
                rng.shuffle(perm)
                pb = dict(single, kspace=single["kspace"][:, perm].contiguous(), sens=single["sens"][:, perm].contiguous())
                try:
                    with torch.no_grad():
                        op = e["call"](model, pb)
                except Exception as ex:  # noqa
                    add(Violation("eval-runs", "%s raises %s on permuted coils" % (e["name"], type(ex).__name__), {"config": cfg}, {"entry": e["name"], "kind": "raises-perm"}))
                    continue
                for z, p, rs in zip(os_, op, sens_):
                    scale = float(z.abs().max())
                    if bool(torch.isfinite(z).all()) and not _close(z, p, scale, 100 * rs):
                        add(Violation("coil-permutation", "%s: reordering coils %s of k-space and sensitivity maps together changes the image by %.3g (scale %.3g)" % (e["name"], perm, float((z - p).abs().max()), scale), {"config": cfg, "perm": perm}, {"entry": e["name"], "kind": "perm"}))
    ctx.oracle_runs = runs
    return out
