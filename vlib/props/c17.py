"""C17 — every network in the zoo honours its shape contract for all input sizes."""
import ast
import os

from .. import coqrun, py2gallina as pg, symex as X, zoo
from ..core import Corr, Untranslatable, Violation

ID = "C17"
LEVEL = "proof"
COQ_FILES = ["Tie/C17_defs.v", "Tie/C17_tie.v", "Props/C17_props.v"]
PROPS_FILES = ["C17_props.v"]
TRUSTED_BASE = [
    "vlib/symex.py (symbolic execution of the translated Python subset on the ast: the translator reads value / outcome trees, so local names, intermediates, helpers and the form of branches do not matter; its assumptions - pure expressions, opaque calls, no aliasing writes, try handlers not modelled - are listed in DESIGN.md 12.7; fail-closed)",
    "py2gallina unit 'shapes': the padding arithmetic of NormUnetModel2d/3d.pad and unpad, pad_to_pow_of_2 and the crop of UnetModel3d.forward, the padding-index maps of UnetModel2d/3d.forward, MWCNN.pad and DUB.pad, and crop_to_shape are regenerated as Gallina over Z on every run; everything else in those methods must match a fixed statement pattern or the translation fails closed",
    "the layer sequence of UnetModel2d / UnetModel3d is regenerated from the constructor (module lists with multiplicities 1 and num_pool_layers - 1, Conv / ConvTranspose hyperparameters) and the two loops of forward, and proved equal to the modelled program for every depth",
    "coq/Model/C17.v (hand model): the layer sequences of MWCNN, DUB and DIDN as shape programs; tied to the modules by the shape-trace correspondence (forward hooks on every convolution / transposed convolution / DWT / IWT / PixelShuffle of the real modules), not by translation",
    "torch layer shape formulas (Conv, ConvTranspose, AvgPool, PixelShuffle, F.pad reflect needs pad < size, Python slicing): oracle contract, validated by the same correspondence",
    "the unrolled reconstruction models and 'finite values' are exercised end to end (enumeration over sizes), not proved",
]
ASSUMPTIONS = ["admissible sizes: at least the architecture's minimum (U-Net bottleneck with more than one element for the instance norm, 2^scales for MWCNN, 3 for DIDN), see vlib/zoo.py:admissible"]
RULE = "(block, depth, (h, w) or (d, h, w)) for UnetModel2d, NormUnetModel2d, MWCNN, DIDN, UnetModel3d, NormUnetModel3d: sizes after every hooked layer and the output size compared exactly with the Coq shape program; non-trivial = at least one odd or non-square size; distinct by (block, depth, size)"

UNET2D = "direct/nn/unet/unet_2d.py"
UNET3D = "direct/nn/unet/unet_3d.py"
MWCNN = "direct/nn/mwcnn/mwcnn.py"
DIDN = "direct/nn/didn/didn.py"


def _fail(why, node, path):
    raise Untranslatable("shapes: " + why, getattr(node, "lineno", None), path)


def _floor(node, tr):
    a = node.args[0]
    if not (len(node.args) == 1 and isinstance(a, ast.BinOp) and isinstance(a.op, ast.Div)):
        tr.fail(node, "math.floor of something else than a quotient")
    return "(%s / %s)" % (tr.z(a.left), tr.z(a.right))


def _ceil(node, tr):
    a = node.args[0]
    if not (len(node.args) == 1 and isinstance(a, ast.BinOp) and isinstance(a.op, ast.Div)):
        tr.fail(node, "math.ceil of something else than a quotient")
    return "(- ((- %s) / %s))" % (tr.z(a.left), tr.z(a.right))


CALLS = {"math.floor": _floor, "math.ceil": _ceil}


def _normunet_pad(tree, cls, axes, path):
    """axes: names innermost first, e.g. ['w', 'h']. Returns (mult, lo, hi) as Coq functions of n; checks that all axes
    use the same expressions and that F.pad receives the pairs innermost first."""
    fn = pg.find_def(tree, cls + ".pad", path)
    body = pg.strip_doc(fn.body)
    unpack = body[0]
    want = "_, _, %s = input_data.shape" % ", ".join(reversed(axes))
    if ast.unparse(unpack) != want:
        _fail("%s.pad: expected `%s`" % (cls, want), unpack, path)
    res = {}
    stmts = {ast.unparse(s.targets[0]): s.value for s in body[1:] if isinstance(s, ast.Assign) and len(s.targets) == 1}
    for ax in axes:
        tr = pg.ExprT({ax: "n"}, path, CALLS)
        if ax + "_mult" not in stmts or ax + "_pad" not in stmts:
            _fail("%s.pad: %s_mult / %s_pad not found" % (cls, ax, ax), fn, path)
        mult = tr.z(stmts[ax + "_mult"])
        tr.env[ax + "_mult"] = mult
        pad = stmts[ax + "_pad"]
        if not (isinstance(pad, ast.List) and len(pad.elts) == 2):
            _fail("%s.pad: %s_pad is not a [before, after] pair" % (cls, ax), pad, path)
        res[ax] = (mult, tr.z(pad.elts[0]), tr.z(pad.elts[1]))
    if len(set(res.values())) != 1:
        _fail("%s.pad: the axes are padded by different rules" % cls, fn, path)
    calls = [n for n in ast.walk(fn) if isinstance(n, ast.Call) and ast.unparse(n.func) == "F.pad"]
    if len(calls) != 1 or ast.unparse(calls[0]) != "F.pad(input_data, %s)" % " + ".join(a + "_pad" for a in axes):
        _fail("%s.pad: F.pad call is not (input, %s)" % (cls, " + ".join(a + "_pad" for a in axes)), fn, path)
    ret = [s for s in body if isinstance(s, ast.Return)]
    outer = list(reversed(axes))
    want_ret = "(output, (%s))" % ", ".join([a + "_pad" for a in (["h", "w"] + (["z"] if "z" in axes else []))] + [a + "_mult" for a in (["h", "w"] + (["z"] if "z" in axes else []))])
    if len(ret) != 1 or ast.unparse(ret[0].value) != want_ret:
        _fail("%s.pad: return value is not %s" % (cls, want_ret), fn, path)
    # unpad
    un = pg.find_def(tree, cls + ".unpad", path)
    params = [a.arg for a in un.args.args]
    want_params = ["input_data"] + [a + "_pad" for a in (["h", "w"] + (["z"] if "z" in axes else []))] + [a + "_mult" for a in (["h", "w"] + (["z"] if "z" in axes else []))]
    if params != want_params:
        _fail("%s.unpad: parameters %s do not line up with what pad returns" % (cls, params), un, path)
    r = [s for s in pg.strip_doc(un.body) if isinstance(s, ast.Return)]
    want_slice = "input_data[..., %s]" % ", ".join("%s_pad[0]:%s_mult - %s_pad[1]" % (a, a, a) for a in outer)
    if len(r) != 1 or ast.unparse(r[0].value).replace(" : ", ":") != want_slice:
        _fail("%s.unpad: slice is not %s" % (cls, want_slice), un, path)
    # forward: pad -> body -> unpad(*pad_sizes)
    fw = ast.unparse(pg.find_def(tree, cls + ".forward", path))
    for needle in ("output, pad_sizes = self.pad(output)", "output = self.unpad(output, *pad_sizes)"):
        if needle not in fw:
            _fail("%s.forward: `%s` not found" % (cls, needle), None, path)
    return res[axes[0]]


def _cat_idx(tree, qual, k, path, what):
    """Padding-index map of the up path, from the reflect-pad calls a symbolic execution (vlib/symex.py) of one generic
    up-sampling step meets: on every path the padding list has a 1 exactly at the places of the axes whose size differs
    from the skip connection's, and nothing is padded when none differs; then the two are concatenated on the channel axis."""
    hits, stopped = X.watch_calls(tree, path, qual, ["pad", "cat"])
    per_axis = {}
    seen_sets = set()
    hits["pad"] = [(c_, a_, k_) for c_, a_, k_ in hits["pad"] if (list(a_[2:]) + [dict(k_).get("mode")])[0] == X.const("reflect")]  # the up path's
    for conds, args, kw in hits["pad"]:
        if len(args) < 2 or args[1][0] != "list" or len(args[1][1]) != 2 * k or not all(x in (X.const(0), X.const(1)) for x in args[1][1]):
            _fail("%s: F.pad is not called with a list of %d zeros / ones: %s" % (what, 2 * k, [X.show(a_)[:40] for a_ in args]), None, path)
        mode = (list(args[2:]) + [dict(kw).get("mode")])[0]
        if mode != X.const("reflect"):
            _fail("%s: padding mode is not reflect" % what, None, path)
        differ = set()
        for c, pol in conds:
            if c[0] == "cmp" and c[1] == "!=" and c[2][0] == "sub" and c[3][0] == "sub" and c[2][2] == c[3][2] and X.is_const(c[2][2]) and c[2][1][0] == "attr" and c[2][1][2] == "shape" and c[3][1][0] == "attr" and c[3][1][2] == "shape":
                a_ = -c[2][2][1]
                if 1 <= a_ <= k and pol:
                    differ.add(a_ - 1)
        ones = [i for i, x in enumerate(args[1][1]) if x == X.const(1)]
        if len(ones) != len(differ) or not differ:
            _fail("%s: the padding list does not have one 1 per differing axis (axes %s, places %s)" % (what, sorted(differ), ones), None, path)
        seen_sets.add(frozenset(differ))
        if len(differ) == 1:
            per_axis[next(iter(differ))] = ones[0]
    if sorted(per_axis) != list(range(k)):
        _fail("%s: expected one size test per spatial axis (%s)" % (what, stopped), None, path)
    # the places are those of the single-axis cases also when several axes differ
    for conds, args, kw in hits["pad"]:
        differ = {-c[2][2][1] - 1 for c, pol in conds if pol and c[0] == "cmp" and c[1] == "!=" and c[2][0] == "sub" and X.is_const(c[2][2]) and type(c[2][2][1]) is int and 1 <= -c[2][2][1] <= k}
        if sorted(i for i, x in enumerate(args[1][1]) if x == X.const(1)) != sorted(per_axis[a_] for a_ in differ):
            _fail("%s: padding places differ between paths" % what, None, path)
    if len(seen_sets) != 2 ** k - 1:
        _fail("%s: not every combination of differing axes is padded" % what, None, path)
    cats = [(args, dict(kw)) for conds, args, kw in hits["cat"]]
    if not cats or any(not (a_ and a_[0][0] == "list" and len(a_[0][1]) == 2 and (list(a_[1:]) + [k_.get("dim")])[0] == X.const(1)) for a_, k_ in cats):
        _fail("%s: concatenation with the skip connection on the channel axis not found" % what, None, path)
    return [per_axis[j] for j in range(k)]


def _odd_idx(fn, path, what):
    idx = {}
    for node in ast.walk(fn):
        if isinstance(node, ast.If):
            t = ast.unparse(node.test)
            for a in (1, 2):
                if t == "x.shape[-%d] %% 2 != 0" % a:
                    s = node.body[0]
                    if len(node.body) != 1 or node.orelse or not (isinstance(s, ast.Assign) and ast.unparse(s.targets[0].value) == "padding" and ast.unparse(s.value) == "1" and isinstance(s.targets[0].slice, ast.Constant)):
                        _fail("%s: padding branch outside subset" % what, node, path)
                    idx[a - 1] = int(s.targets[0].slice.value)
    src = ast.unparse(fn)
    if sorted(idx) != [0, 1] or "padding = [0, 0, 0, 0]" not in src or "F.pad(x, padding, 'reflect')" not in src or "if sum(padding) != 0:" not in src:
        _fail("%s: odd-size padding outside subset" % what, fn, path)
    return [idx[0], idx[1]]


def _crop(tree, qual, path, what):
    """crop_to_shape: per axis `if c > r: keep [:r]`; returns the Coq body of gen_crop c r after checking, on the value
    trees of a symbolic execution (vlib/symex.py: helpers and local names do not matter), that on every path each of the
    two last axes is cut at its own bound exactly when its own test holds."""
    S = lambda n: ("sym", n)
    x, shape = S("x"), S("shape")
    t, _n = X.run_function(tree, path, qual)
    t = X.lift_ife(X.prune_raises(X.drop_do(t)))
    full = ("slice", X.NONE, X.NONE, X.NONE)
    sizes = [{("sub", ("attr", x, "shape"), X.const(-2)), ("call", ("attr", x, "size"), (X.const(-2),), ())}, {("sub", ("attr", x, "shape"), X.const(-1)), ("call", ("attr", x, "size"), (X.const(-1),), ())}]
    rules = set()
    for conds, lf in X.leaves(t):
        v = lf[1]
        cut = {}
        while v != x:
            if not (v[0] == "sub" and v[2][0] == "tuple"):
                _fail("%s: result is not a slicing of x: %s" % (what, X.show(v)[:80]), None, path)
            idx = list(v[2][1])
            if idx and idx[0] == X.const(Ellipsis):
                idx = idx[1:]
            elif len(idx) == 4:
                if idx[0] != full or idx[1] != full:
                    _fail("%s: batch / channel axis sliced" % what, None, path)
                idx = idx[2:]
            if len(idx) != 2:
                _fail("%s: slice outside subset: %s" % (what, X.show(v[2])[:80]), None, path)
            for ax in (0, 1):
                if idx[ax] != full:
                    if idx[ax] != ("slice", X.NONE, ("sub", shape, X.const(ax)), X.NONE) or ax in cut:
                        _fail("%s: slice does not cut axis %d at its own bound" % (what, ax), None, path)
                    cut[ax] = True
            v = v[1]
        for ax in (0, 1):
            tests = [(c, pol) for c, pol in conds if c[0] == "cmp" and c[2] in sizes[ax] and c[3] == ("sub", shape, X.const(ax))]
            if len(tests) != 1:
                _fail("%s: the path does not test axis %d against its own bound exactly once" % (what, ax), None, path)
            c, pol = tests[0]
            if pol != (ax in cut):
                _fail("%s: axis %d is cut although its test fails, or kept although it holds" % (what, ax), None, path)
            rules.add(X.Emit(lambda u, ax=ax: "c" if u in sizes[ax] else ("r" if u == ("sub", shape, X.const(ax)) else None), path).b(c))
        if len(conds) != 2:
            _fail("%s: other conditions on the path" % what, None, path)
    if len(rules) != 1:
        _fail("%s: the two axes are cropped by different rules" % what, None, path)
    return "if %s then slice_len c 0 r else c" % rules.pop()


# ------------------------------------------------------------------ U-Net layer sequence (constructor + forward) -> program
SHAPE_NEUTRAL = ("nn.InstanceNorm2d", "nn.InstanceNorm3d", "nn.LeakyReLU", "nn.ReLU", "nn.PReLU", "nn.Dropout2d", "nn.Dropout3d", "nn.BatchNorm2d", "nn.BatchNorm3d")


def _int_arg(call, name, pos, default, path):
    v = None
    for k in call.keywords:
        if k.arg == name:
            v = k.value
    if v is None and pos is not None and len(call.args) > pos:
        v = call.args[pos]
    if v is None:
        return default
    try:
        x = ast.literal_eval(v)
    except Exception:
        _fail("layer argument %s is not a literal: %s" % (name, ast.unparse(v)), call, path)
    if isinstance(x, (tuple, list)):
        if len(set(x)) != 1:
            _fail("layer argument %s differs between axes" % name, call, path)
        x = x[0]
    if not isinstance(x, int):
        _fail("layer argument %s is not an integer" % name, call, path)
    return x


def _layer_ops(call, classes, path):
    """Shape ops of one constructor call (a torch layer, a block class of the same file, or nn.Sequential of those)."""
    fn = ast.unparse(call.func)
    if fn in ("nn.Conv2d", "nn.Conv3d"):
        return ["OConv %d %d %d %d" % (_int_arg(call, "kernel_size", 2, None, path), _int_arg(call, "stride", 3, 1, path), _int_arg(call, "padding", 4, 0, path), _int_arg(call, "dilation", 5, 1, path))]
    if fn in ("nn.ConvTranspose2d", "nn.ConvTranspose3d"):
        if _int_arg(call, "padding", 4, 0, path) != 0 or _int_arg(call, "output_padding", 5, 0, path) != 0:
            _fail("transposed convolution with padding", call, path)
        return ["OConvT %d %d" % (_int_arg(call, "kernel_size", 2, None, path), _int_arg(call, "stride", 3, 1, path))]
    if fn in SHAPE_NEUTRAL:
        return []
    if fn == "nn.Sequential":
        out = []
        for a in call.args:
            if not isinstance(a, ast.Call):
                _fail("nn.Sequential argument outside subset", a, path)
            out += _layer_ops(a, classes, path)
        return out
    if fn in classes:
        return classes[fn]
    _fail("layer constructor %s outside subset" % fn, call, path)


def _block_class(tree, name, path):
    """A block whose forward is `return self.layers(x)`."""
    init = pg.find_def(tree, name + ".__init__", path)
    fw = pg.find_def(tree, name + ".forward", path)
    body = pg.strip_doc(fw.body)
    if len(body) != 1 or ast.unparse(body[0]) != "return self.layers(input_data)":
        _fail("%s.forward is not `return self.layers(input_data)`" % name, fw, path)
    seqs = [s for s in ast.walk(init) if isinstance(s, ast.Assign) and ast.unparse(s.targets[0]) == "self.layers"]
    if len(seqs) != 1:
        _fail("%s.__init__: self.layers not found" % name, init, path)
    return _layer_ops(seqs[0].value, {}, path)


def _unet_program(tree, cls, blocks, pool_call, cat_idx_name, path, prologue=None):
    """gen program of UnetModel2d / UnetModel3d as a Coq term in L (num_pool_layers): the module lists built by the
    constructor (segments with multiplicities 1 and L - 1) walked in the order of the two loops of forward."""
    classes = {b: _block_class(tree, b, path) for b in blocks}
    init = pg.find_def(tree, cls + ".__init__", path)
    lists = {}
    single = {}

    def add(lst, count, call):
        lists.setdefault(lst, []).append((count, _layer_ops(call, classes, path)))

    for st in pg.strip_doc(init.body):
        u = ast.unparse(st)
        if isinstance(st, ast.Assign):
            t = ast.unparse(st.targets[0])
            if t in ("self.down_sample_layers", "self.up_conv", "self.up_transpose_conv") and isinstance(st.value, ast.Call) and ast.unparse(st.value.func) == "nn.ModuleList":
                lists.setdefault(t, [])
                if st.value.args:
                    for el in st.value.args[0].elts:
                        add(t, "1", el)
            elif t == "self.conv":
                single["self.conv"] = _layer_ops(st.value, classes, path)
            elif t in ("ch",) or t.startswith("self.") and not isinstance(st.value, ast.Call):
                continue
            elif t.startswith("self."):
                _fail("%s.__init__: module assignment outside subset: %s" % (cls, u[:60]), st, path)
        elif isinstance(st, ast.AugAssign):
            t = ast.unparse(st.target)
            if t in ("self.down_sample_layers", "self.up_conv", "self.up_transpose_conv"):
                for el in st.value.elts:
                    add(t, "1", el)
            elif t != "ch":
                _fail("%s.__init__: augmented assignment outside subset" % cls, st, path)
        elif isinstance(st, ast.For):
            if ast.unparse(st.iter) != "range(num_pool_layers - 1)":
                _fail("%s.__init__: loop is not over range(num_pool_layers - 1)" % cls, st, path)
            for b in st.body:
                if isinstance(b, ast.AugAssign) and ast.unparse(b.target) in ("self.down_sample_layers", "self.up_conv", "self.up_transpose_conv"):
                    for el in b.value.elts:
                        add(ast.unparse(b.target), "(L - 1)", el)
                elif not (isinstance(b, ast.AugAssign) and ast.unparse(b.target) == "ch"):
                    _fail("%s.__init__: loop body outside subset" % cls, b, path)
        elif isinstance(st, ast.Expr) and ast.unparse(st).startswith("super().__init__"):
            continue
        else:
            _fail("%s.__init__: statement outside subset: %s" % (cls, u[:60]), st, path)
    for k in ("self.down_sample_layers", "self.up_conv", "self.up_transpose_conv"):
        if k not in lists:
            _fail("%s.__init__: %s not built" % (cls, k), init, path)
    if "self.conv" not in single:
        _fail("%s.__init__: self.conv not built" % cls, init, path)
    ups_t, ups_c = lists["self.up_transpose_conv"], lists["self.up_conv"]
    if [c for c, _ in ups_t] != [c for c, _ in ups_c]:
        _fail("%s: up_transpose_conv and up_conv are not built in step" % cls, init, path)
    # forward: down path (layer, push, pool), bottleneck, up path (pop, transposed conv, [reflect pad], cat on channels,
    # conv), as the records of a symbolic execution (vlib/symex.py) of one generic iteration of each loop
    S = lambda n: ("sym", n)
    me = S("self")
    hits, stopped = X.watch_calls(tree, path, cls + ".forward", [], opaque={"pad_to_pow_of_2"})
    loops = hits["$loops"]
    if len(loops) != 2:
        _fail("%s.forward: expected the down-sampling and the up-sampling loop (%s)" % (cls, stopped), None, path)
    L1, L2 = loops
    ds = ("attr", me, "down_sample_layers")
    if L1["iter"] not in (ds, ("call", S("enumerate"), (ds,), ())) and not (L1["iter"] == ds):
        _fail("%s.forward: the first loop is not over self.down_sample_layers" % cls, None, path)
    d1 = L1["depth"]
    ends1 = [e_ for kind, c_, e_ in L1["paths"] if kind == "end"]
    pooled = X.parse_expr(pool_call.replace("output", "__x__"))
    for e_ in ends1:
        outs = [n for n, v in e_.items() if v[0] == "call" and v[1] == pooled[1]]
        applied = ("call", ("bv", d1), (("havoc", "output", d1),), ())
        ok = len(ends1) == 1
        carried = [n for n in L1["assigned"] if n in L1["before"]]
        padded_in = ("sub", ("call", S("pad_to_pow_of_2"), (S("input_data"), ("attr", me, "num_pool_layers")), ()), X.const(0))
        outn = [n for n in carried if L1["before"][n] in (S("input_data"), padded_in)]
        stk = [n for n in carried if L1["before"][n] == ("list", ())]
        if not (ok and len(outn) == 1 and len(stk) == 1):
            _fail("%s.forward: the down path does not carry the running output and an (initially empty) stack" % cls, None, path)
        on, sn = outn[0], stk[0]
        applied = ("call", ("bv", d1), (("havoc", on, d1),), ())
        if e_[on] != X._subst_value(pooled, {S("__x__"): applied}) or e_[sn] != ("appended", ("havoc", sn, d1), applied):
            _fail("%s.forward: a down-sampling step is not layer -> push -> %s: %s" % (cls, pool_call, X.show(e_[on])[:100]), None, path)
    if not (L2["iter"] == ("call", S("zip"), (("attr", me, "up_transpose_conv"), ("attr", me, "up_conv")), ())):
        _fail("%s.forward: the second loop is not over zip(self.up_transpose_conv, self.up_conv)" % cls, None, path)
    d2 = L2["depth"]
    if L2["before"].get(on) != ("call", ("attr", me, "conv"), (("after", on, d1),), ()) or L2["before"].get(sn) != ("after", sn, d1):
        _fail("%s.forward: the bottleneck is not self.conv applied to the output of the down path" % cls, None, path)
    tconv, conv = ("sub", ("bv", d2), X.const(0)), ("sub", ("bv", d2), X.const(1))
    up = ("call", tconv, (("havoc", on, d2),), ())
    popped = ("call", ("attr", ("havoc", sn, d2), "pop"), (), ())
    ends2 = [e_ for kind, c_, e_ in L2["paths"] if kind == "end"]
    if not ends2:
        _fail("%s.forward: the up path never completes an iteration" % cls, None, path)
    for e_ in ends2:
        v = e_[on]
        ok = v[0] == "call" and v[1] == conv and len(v[2]) == 1 and v[2][0][0] == "call" and v[2][0][1] == ("attr", S("torch"), "cat")
        if ok:
            cat = v[2][0]
            items = cat[2][0][1] if cat[2] and cat[2][0][0] in ("list", "tuple") else ()
            axis = (list(cat[2][1:]) + [dict(cat[3]).get("dim")])[0]
            def alts(u):  # a helper that pads conditionally returns a conditional value
                return alts(u[2]) + alts(u[3]) if u[0] == "ife" else [u]

            firsts = alts(items[0]) if len(items) == 2 else []
            fine = lambda u: u == up or (u[0] == "call" and u[1] == ("attr", S("F"), "pad") and u[2][:1] == (up,))
            ok = len(items) == 2 and axis == X.const(1) and items[1] == popped and bool(firsts) and all(fine(u) for u in firsts)
        if not ok:
            _fail("%s.forward: an up-sampling step is not pop -> transposed conv -> [pad] -> cat([output, skip], dim=1) -> conv: %s" % (cls, X.show(v)[:140]), None, path)
    t, _n = X.run_function(tree, path, cls + ".forward", opaque={"pad_to_pow_of_2"})
    for conds, lf in X.leaves(X.prune_raises(X.drop_do(t))):
        v = lf[1] if lf[0] == "ret" else None
        if v is not None and v[0] == "sub":  # the 3-D model crops its input padding off again (translated separately)
            v = v[1]
        if v != ("after", on, d2):
            _fail("%s.forward: what is returned is not the output of the up path" % cls, None, path)
    down = " ++ ".join("rep %s ([%s] ++ [OPush; OPool 2 2])" % (c, "; ".join(ops)) for c, ops in lists["self.down_sample_layers"])
    mid = "[%s]" % "; ".join(single["self.conv"])
    up = " ++ ".join("rep %s ([%s] ++ [OPopPadCat %s] ++ [%s])" % (ct, "; ".join(ot), cat_idx_name, "; ".join(oc)) for (ct, ot), (_, oc) in zip(ups_t, ups_c))
    return "%s ++ %s ++ %s" % (down, mid, up)


def generate(ctx):
    out = "From DV Require Import Model.C17.\n"
    p2 = ctx.src(UNET2D)
    t2, _ = pg.parse_file(p2)
    mult, lo, hi = _normunet_pad(t2, "NormUnetModel2d", ["w", "h"], p2)
    out += "Definition gen_nu_mult (n : Z) : Z := %s.\nDefinition gen_nu_lo (n : Z) : Z := %s.\nDefinition gen_nu_hi (n : Z) : Z := %s.\n" % (mult, lo, hi)
    out += "Definition gen_nu_start (n c : Z) : Z := gen_nu_lo n.\nDefinition gen_nu_stop (n c : Z) : Z := gen_nu_mult n - gen_nu_hi n.\n"
    out += "Definition gen_cat_idx2 : list nat := [%s]%%nat.\n" % "; ".join(map(str, _cat_idx(t2, "UnetModel2d.forward", 2, p2, "UnetModel2d.forward")))
    # the pooling in the down path
    src = ast.unparse(pg.find_def(t2, "UnetModel2d.forward", p2))
    if "F.avg_pool2d(output, kernel_size=2, stride=2, padding=0)" not in src:
        _fail("UnetModel2d.forward: pooling is not avg_pool2d(2, 2, 0)", None, p2)
    out += "Definition gen_unet2d_layers (L : nat) : list sop :=\n  %s.\n" % _unet_program(t2, "UnetModel2d", ["ConvBlock", "TransposeConvBlock"], "F.avg_pool2d(output, kernel_size=2, stride=2, padding=0)", "gen_cat_idx2", p2)
    p3 = ctx.src(UNET3D)
    t3, _ = pg.parse_file(p3)
    mult3, lo3, hi3 = _normunet_pad(t3, "NormUnetModel3d", ["w", "h", "z"], p3)
    out += "Definition gen_nu3_mult (n : Z) : Z := %s.\nDefinition gen_nu3_lo (n : Z) : Z := %s.\nDefinition gen_nu3_hi (n : Z) : Z := %s.\n" % (mult3, lo3, hi3)
    out += "Definition gen_nu3_start (n c : Z) : Z := gen_nu3_lo n.\nDefinition gen_nu3_stop (n c : Z) : Z := gen_nu3_mult n - gen_nu3_hi n.\n"
    f3 = pg.find_def(t3, "UnetModel3d.forward", p3)
    out += "Definition gen_cat_idx3 : list nat := [%s]%%nat.\n" % "; ".join(map(str, _cat_idx(t3, "UnetModel3d.forward", 3, p3, "UnetModel3d.forward")))
    out += "Definition gen_unet3d_layers (L : nat) : list sop :=\n  %s.\n" % _unet_program(t3, "UnetModel3d", ["ConvBlock3D", "TransposeConvBlock3D"], "F.avg_pool3d(output, kernel_size=2, stride=2, padding=0)", "gen_cat_idx3", p3)
    # pad_to_pow_of_2 on a 5-D input (value trees of a symbolic execution): per spatial axis, taken from the last one, the
    # entries 2i / 2i+1 of the list handed to F.pad
    S = lambda n: ("sym", n)
    inp = S("inp")
    dims = tuple(S("n%d" % i) for i in range(5))
    t, _n = X.run_function(t3, p3, "pad_to_pow_of_2", attrs={(inp, "shape"): ("tuple", dims)})
    t = X.lift_ife(X.prune_raises(X.drop_do(t)))
    pow2 = {("bin", "**", X.const(2), S("k"))}
    forms = set()
    for conds, lf in X.leaves(t):
        v = lf[1]
        if not (v[0] == "tuple" and len(v[1]) == 2 and v[1][1][0] == "list" and len(v[1][1][1]) == 6):
            _fail("pad_to_pow_of_2: does not return (tensor, list of six paddings)", None, p3)
        data, padding = v[1]
        if data != inp and not (data[0] == "call" and data[1] == ("attr", S("F"), "pad") and data[2][:1] == (inp,) and X.arg(data, 1, "pad") == padding and len(data[2]) + len(data[3]) == 2):
            _fail("pad_to_pow_of_2: what is returned is neither the input nor F.pad(input, padding): %s" % X.show(data)[:100], None, p3)
        if data == inp and not any(c[0] == "cmp" and X.find_nodes(c, lambda u: u[0] == "call" and u[1] == S("sum")) for c, pol in conds) and padding[1] != (X.const(0),) * 6:
            _fail("pad_to_pow_of_2: the input is returned unpadded although a padding is computed", None, p3)
        for i in range(3):
            n = dims[4 - i]
            em = X.Emit(lambda u: "n" if u == n else "(2 ^ k)" if u in pow2 else None, p3)
            tests = [(c, pol) for c, pol in conds if X.find_nodes(c, lambda u: u == n) and not X.find_nodes(c, lambda u: u[0] == "call" and u[1] == S("sum"))]
            if len(tests) != 1:
                _fail("pad_to_pow_of_2: the path does not test axis %d exactly once" % (4 - i), None, p3)
            c, pol = tests[0]
            lo_v, hi_v = padding[1][2 * i], padding[1][2 * i + 1]
            if pol:
                forms.add((em.b(c), em.z(lo_v), em.z(hi_v)))
            elif (lo_v, hi_v) != (X.const(0), X.const(0)):
                _fail("pad_to_pow_of_2: an axis that needs no padding gets one", None, p3)
    if len(forms) != 1:
        _fail("pad_to_pow_of_2: the three axes are padded by different rules: %s" % sorted(forms), None, p3)
    cond, lo_e, hi_e = forms.pop()
    # UnetModel3d.forward: pad first, and crop the result by the inverse index map of that padding
    t, _n = X.run_function(t3, p3, "UnetModel3d.forward", opaque={"pad_to_pow_of_2"})
    padcall = ("call", S("pad_to_pow_of_2"), (S("input_data"), ("attr", S("self"), "num_pool_layers")), ())
    ipad = ("sub", padcall, X.const(1))
    full = ("slice", X.NONE, X.NONE, X.NONE)
    saw_crop = saw_plain = False
    for conds, lf in X.leaves(X.lift_ife(X.prune_raises(X.drop_do(t)))):
        v = lf[1]
        nz = [pol for c, pol in conds if X.find_nodes(c, lambda u: u == ipad)]
        if v[0] == "sub":
            base, idx = v[1], v[2]
            want = ("tuple", (full, full) + tuple(("slice", ("sub", ipad, X.const(4 - 2 * j)), ("bin", "-", ("sub", ("attr", base, "shape"), X.const(2 + j)), ("sub", ipad, X.const(5 - 2 * j))), X.NONE) for j in range(3)))
            if idx != want or base[0] != "after":
                _fail("UnetModel3d.forward: the crop after the up path is not the inverse index map of pad_to_pow_of_2: %s" % X.show(idx)[:160], None, p3)
            saw_crop = True
        elif v[0] == "after":
            saw_plain = True
        else:
            _fail("UnetModel3d.forward: what is returned is not the (cropped) output of the up path", None, p3)
    if not saw_crop:
        _fail("UnetModel3d.forward: the input padding is never cropped off again", None, p3)
    out += "Definition gen_p2_lo (k n : Z) : Z := if %s then %s else 0.\nDefinition gen_p2_hi (k n : Z) : Z := if %s then %s else 0.\n" % (cond, lo_e, cond, hi_e)
    out += "Definition gen_p2_start (k n c : Z) : Z := gen_p2_lo k n.\nDefinition gen_p2_stop (k n c : Z) : Z := c - gen_p2_hi k n.\n"
    pm = ctx.src(MWCNN)
    tm, _ = pg.parse_file(pm)
    out += "Definition gen_mw_pad_idx : list nat := [%s]%%nat.\n" % "; ".join(map(str, _odd_idx(pg.find_def(tm, "MWCNN.pad", pm), pm, "MWCNN.pad")))
    out += "Definition gen_mw_crop (c r : Z) : Z := %s.\n" % _crop(tm, "MWCNN.crop_to_shape", pm, "MWCNN.crop_to_shape")
    pdn = ctx.src(DIDN)
    td, _ = pg.parse_file(pdn)
    out += "Definition gen_dub_pad_idx : list nat := [%s]%%nat.\n" % "; ".join(map(str, _odd_idx(pg.find_def(td, "DUB.pad", pdn), pdn, "DUB.pad")))
    out += "Definition gen_dub_crop (c r : Z) : Z := %s.\n" % _crop(td, "DUB.crop_to_shape", pdn, "DUB.crop_to_shape")
    out += "Definition gen_didn_crop (c r : Z) : Z := %s.\n" % _crop(td, "DIDN.crop_to_shape", pdn, "DIDN.crop_to_shape")
    return [pg.write_gen(ctx, "C17_gen", out)]


# --------------------------------------------------------------------------------------------------- correspondence
PRE = "From DV Require Import Base.Tactics Model.C17.\nFrom G Require Import C17_gen C17_defs.\nOpen Scope Z_scope.\n"


def _blocks():
    from .. import shims

    shims.install()
    import torch
    from direct.nn.didn.didn import DIDN as DIDNNet
    from direct.nn.mwcnn.mwcnn import DWT, IWT, MWCNN as MWCNNNet
    from direct.nn.unet.unet_2d import NormUnetModel2d, UnetModel2d
    from direct.nn.unet.unet_3d import NormUnetModel3d, UnetModel3d

    hook_types = (torch.nn.Conv2d, torch.nn.Conv3d, torch.nn.ConvTranspose2d, torch.nn.ConvTranspose3d, torch.nn.PixelShuffle, DWT, IWT)
    return {
        "unet2d": (lambda L, R: UnetModel2d(2, 2, 2, L, 0.0), "gen_unet2d %d", 2),
        "normunet2d": (lambda L, R: NormUnetModel2d(2, 2, 2, L, 0.0), "gen_normunet2d %d", 2),
        "mwcnn": (lambda L, R: MWCNNNet(2, 2, num_scales=L), "gen_mwcnn %d", 2),
        "didn": (lambda L, R: DIDNNet(2, 2, hidden_channels=2, num_dubs=L, num_convs_recon=R), "gen_didn %d %d", 2),
        "unet3d": (lambda L, R: UnetModel3d(2, 2, 2, L, 0.0), "gen_unet3d %d", 3),
        "normunet3d": (lambda L, R: NormUnetModel3d(2, 2, 2, L, 0.0), "gen_normunet3d %d", 3),
    }, hook_types


def trace_impl(model, dims, hook_types):
    """Run the real module on a tensor with the given spatial sizes (outermost first); returns (output dims or None,
    sizes after every hooked layer, innermost first to match the model)."""
    import torch

    trace = []
    hs = []
    k = len(dims)
    for m in model.modules():
        if isinstance(m, hook_types):
            hs.append(m.register_forward_hook(lambda mod, inp, outp: trace.append([int(v) for v in reversed(outp.shape[-k:])])))
    try:
        with torch.no_grad():
            y = model.eval()(torch.randn(1, 2, *dims))
        res = [int(v) for v in reversed(y.shape[-k:])]
    except Exception as e:  # noqa
        res = None
    finally:
        for h in hs:
            h.remove()
    return res, trace


def gen_cases(ctx):
    rng = ctx.rng
    cases = []
    n = ctx.n(140, 2500)
    for _ in range(n):
        blk = rng.choice(["unet2d", "unet2d", "normunet2d", "mwcnn", "mwcnn", "didn", "unet3d", "normunet3d"])
        L = rng.randint(1, 3)
        R = rng.randint(1, 2)
        if blk in ("unet3d", "normunet3d"):
            L = rng.randint(1, 2)
            dims = [rng.randint(1, 9), rng.randint(1, 20), rng.randint(1, 20)]
        else:
            dims = [rng.randint(1, 48), rng.randint(1, 48)]
        cases.append((blk, L, R, dims))
    return cases


def _ok_instance_norm(blk, L, dims):
    """torch's instance norm needs more than one spatial element: below that the real module raises inside a layer the
    shape model does not know about; such sizes are inadmissible, not mismatches."""
    if blk == "unet2d":
        return (dims[0] >> max(L, 1)) * (dims[1] >> max(L, 1)) >= 2
    if blk == "unet3d":
        p = [max(d, 2**L) >> L for d in dims]
        return p[0] * p[1] * p[2] >= 2
    if blk in ("normunet2d", "normunet3d"):
        n = 1
        for d in dims:
            n *= d
        return n >= 2 or True
    return True


def correspond(ctx):
    import torch

    torch.set_num_threads(4)
    corr = Corr()
    corr.rule = RULE
    blocks, hook_types = _blocks()
    cases = gen_cases(ctx)
    built = {}
    impls, terms, keep = [], [], []
    for (blk, L, R, dims) in cases:
        mk, fmt, k = blocks[blk]
        key = (blk, L, R)
        if key not in built:
            torch.manual_seed(0)
            built[key] = mk(L, R)
        res, trace = trace_impl(built[key], dims, hook_types)
        prog = fmt % ((L, R) if blk == "didn" else (L,))
        terms.append("show_trace (trace_of (%s) %s)" % (prog, coqrun.lit([int(d) for d in reversed(dims)])))
        impls.append((res, trace))
        keep.append((blk, L, R, dims))
    vals = coqrun.eval_sharded("c17_cases", PRE, terms, ctx.work, gen_dir=ctx.gen_dir, shard=300)
    ctx._c17 = []
    for c, (res, trace), mv in zip(keep, impls, vals):
        blk, L, R, dims = c
        corr.dist("block", blk)
        corr.dist("depth", L)
        m_ok, m_out, m_trace = mv[0], mv[1], mv[2]
        model_res = [int(v) for v in m_out] if m_ok else None
        adm = _ok_instance_norm(blk, L, dims)
        corr.dist("verdict", "both-ok" if (res is not None and model_res is not None) else "model-rejects" if model_res is None else "impl-raises")
        if model_res is None or (res is None and not adm):
            # below the architecture's minimum: nothing is claimed; count, do not compare
            corr.count({"block": blk, "depth": L, "dims": dims}, False)
            continue
        impl_v = [res, trace]
        model_v = [model_res, [[int(x) for x in row] for row in m_trace]]
        corr.compare({"block": blk, "depth": L, "recon_convs": R, "dims": dims}, impl_v, model_v, nontrivial=any(d % 2 for d in dims) or len(set(dims)) > 1)
        ctx._c17.append((c, res))
    return corr


# --------------------------------------------------------------------------------------------------- oracles
def oracles(ctx, deep):
    import torch

    torch.set_num_threads(4)
    out, seen, runs = [], set(), 0

    def add(v):
        if v.key() not in seen:
            seen.add(v.key())
            out.append(v)

    rng = ctx.rng
    try:
        es = zoo.entries()
    except Exception as e:  # noqa
        add(Violation("zoo-builds", "the model zoo cannot be imported / enumerated: %s: %s" % (type(e).__name__, str(e)[:160]), {"exception": type(e).__name__}, {"kind": "zoo"}))
        ctx.oracle_runs = 0
        return out
    per_entry = ctx.n(4, 40) * (2 if deep else 1)
    thorough = ctx.tier == "thorough"
    for e in es:
        try:
            model = e["build"]().eval()
        except Exception as ex:  # noqa
            add(Violation("zoo-builds", "%s cannot be constructed: %s: %s" % (e["name"], type(ex).__name__, str(ex)[:160]), {"entry": e["name"], "exception": type(ex).__name__}, {"entry": e["name"], "kind": "build"}))
            continue
        sizes = []
        # the architecture's smallest sizes, then random odd / even / non-square ones up to 48
        small = [(h, w) for h in range(1, 10) for w in range(1, 10) if zoo.admissible(e, h, w)]
        rng.shuffle(small)
        sizes += small[: max(2, per_entry // 3)]
        while len(sizes) < per_entry:
            h, w = rng.randint(1, 48 if thorough else 32), rng.randint(1, 48 if thorough else 32)
            if zoo.admissible(e, h, w):
                sizes.append((h, w))
        for (h, w) in sizes:
            n, c = rng.randint(1, 3), rng.randint(1, 5)
            if not zoo.admissible(e, h, w, c):
                continue
            b = zoo.make_batch(n, c, h, w, seed=rng.randrange(10**6))
            runs += 1
            cfg = {"entry": e["name"], "batch": n, "coils": c, "height": h, "width": w}
            try:
                with torch.no_grad():
                    outs = e["call"](model, b)
            except Exception as ex:  # noqa
                add(Violation("shape-contract", "%s raises %s on batch %d, %d coils, %dx%d: %s" % (e["name"], type(ex).__name__, n, c, h, w, str(ex)[:120]), {"config": cfg, "exception": type(ex).__name__}, {"entry": e["name"], "kind": "raises"}))
                continue
            want = zoo.expected_shape(e["kind"], b)
            for o in outs:
                if tuple(o.shape) != tuple(want):
                    add(Violation("shape-contract", "%s returns shape %s for batch %d, %d coils, %dx%d; documented %s" % (e["name"], list(o.shape), n, c, h, w, list(want)), {"config": cfg, "shape": list(o.shape)}, {"entry": e["name"], "kind": "shape"}))
                elif not bool(torch.isfinite(o).all()):
                    add(Violation("finite-output", "%s returns non-finite values for batch %d, %d coils, %dx%d" % (e["name"], n, c, h, w), {"config": cfg}, {"entry": e["name"], "kind": "finite"}))
    ctx.oracle_runs = runs
    return out
