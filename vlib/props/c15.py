"""C15 — checkpoints restore the full training state and survive crashes while saving."""
import ast
import builtins
import os
import shutil
import tempfile

from .. import coqrun, py2gallina as pg
from ..core import Corr, Untranslatable, Violation

ID = "C15"
LEVEL = "proof"
COQ_FILES = ["Tie/C15_defs.v", "Tie/C15_tie.v", "Props/C15_props.v"]
PROPS_FILES = ["C15_props.v"]
TRUSTED_BASE = [
    "vlib/symex.py (symbolic execution of the translated Python subset on the ast: the translator reads value / outcome trees, so local names, intermediates, helpers and the form of branches do not matter; its assumptions - pure expressions, opaque calls, no aliasing writes, try handlers not modelled - are listed in DESIGN.md 12.7; fail-closed)",
    "py2gallina unit 'checkpoint' (Checkpointer.save -> file-system effect trace; resume start / kill-path label / regular label / save guard arithmetic from engine.py)",
    "crash model coq/Model/C15.v: the process dies between effects or inside a write (file left unparsable); os.replace is atomic; no power-loss / fsync model",
    "hand model of Checkpointer.load('latest') (pointer -> iteration -> checkpoint file), tied by fault-injection correspondence: the real save is aborted at every effect and the real load classified",
    "torch.save / torch.load / state_dict round-trip: a complete file parses back to the saved state, a truncated one does not",
    "resume runs through the real Engine.train (vlib/engine_harness.py) with the trainer's WarmupMultiStepLR, SGD and Adam",
]
ASSUMPTIONS = [
    "accumulated gradients are not checkpointed: resume equivalence is stated for gradient_steps = 1 or a resume at a window boundary",
    "the data loader is given the batches the uninterrupted run would see at the same iteration numbers",
]
RULE = "fault injection: prior directory state x every effect boundary and torn write of Checkpointer.save; resume: (N, interrupt iteration, clean|kill, optimiser) runs; non-trivial = crash inside the save / interrupt at an iteration >= 5; distinct by configuration"


# ------------------------------------------------------------------------------------------------
def _path_sym(node, pathvars, path):
    """Symbolic path of an expression used as a file name."""
    while isinstance(node, ast.Call) and ast.unparse(node.func) in ("str", "pathlib.Path", "Path") and len(node.args) == 1:
        node = node.args[0]
    if isinstance(node, ast.Name):
        if node.id in pathvars:
            return pathvars[node.id]
        raise Untranslatable("save: unknown path variable %s" % node.id, node.lineno, path)
    if isinstance(node, ast.BinOp) and isinstance(node.op, ast.Div) and ast.unparse(node.left) == "self.save_directory":
        t = ast.unparse(node.right)
        t = t.strip("f").strip("'\"")
        if t == "model_{iteration}.pt":
            return "(Ckpt it)"
        if "model_{iteration}.pt" in t:
            return "(TmpCkpt it)"
        if t == "last_model.txt":
            return "Ptr"
        if "last_model.txt" in t:
            return "TmpPtr"
    raise Untranslatable("save: file name outside subset: %s" % ast.unparse(node)[:60], getattr(node, "lineno", None), path)


FS_WORDS = ("open(", "os.replace", "os.rename", ".rename(", ".replace(", "unlink", "os.remove", "torch.save", ".write(", "shutil", "write_text", "write_bytes")


def _save_trace(fn, path):
    pathvars = {}
    effs = []
    for s in pg.strip_doc(fn.body):
        src = ast.unparse(s)
        if isinstance(s, ast.Assign) and len(s.targets) == 1 and isinstance(s.targets[0], ast.Name) and isinstance(s.value, ast.BinOp) and ast.unparse(s.value.left) == "self.save_directory":
            pathvars[s.targets[0].id] = _path_sym(s.value, pathvars, path)
            continue
        if isinstance(s, ast.With):
            if len(s.items) != 1 or not isinstance(s.items[0].context_expr, ast.Call) or ast.unparse(s.items[0].context_expr.func) != "open":
                raise Untranslatable("save: with-statement outside subset", s.lineno, path)
            call = s.items[0].context_expr
            p = _path_sym(call.args[0], pathvars, path)
            mode = call.args[1].value if len(call.args) > 1 and isinstance(call.args[1], ast.Constant) else None
            if mode not in ("w", "wb"):
                raise Untranslatable("save: open mode %r outside subset" % (mode,), s.lineno, path)
            fvar = ast.unparse(s.items[0].optional_vars)
            effs.append("OpenTrunc %s" % p)
            for b in s.body:
                bs = ast.unparse(b)
                if bs == "torch.save(data, %s)" % fvar:
                    effs.append("WriteAll %s (Full d)" % p)
                elif bs == "%s.write(str(iteration))" % fvar:
                    effs.append("WriteAll %s (Num it)" % p)
                else:
                    raise Untranslatable("save: statement in with-body outside subset: %s" % bs[:60], b.lineno, path)
            effs.append("Close %s" % p)
            continue
        if isinstance(s, ast.Expr) and isinstance(s.value, ast.Call) and ast.unparse(s.value.func) in ("os.replace", "os.rename") and len(s.value.args) == 2:
            effs.append("Replace %s %s" % (_path_sym(s.value.args[0], pathvars, path), _path_sym(s.value.args[1], pathvars, path)))
            continue
        if any(w in src for w in FS_WORDS):
            raise Untranslatable("save: file-system statement outside subset: %s" % src[:70], s.lineno, path)
        # everything else builds the `data` dictionary or logs
    return effs


def generate(ctx):
    path = ctx.src("direct/checkpointer.py")
    tree, _ = pg.parse_file(path)
    fn = pg.find_def(tree, "Checkpointer.save", path)
    effs = _save_trace(fn, path)
    out = "From DV Require Import Model.C15.\n"
    out += "Definition save_trace (D : Type) (it : Z) (d : D) : list (eff D) := [%s].\n" % "; ".join(effs)

    path2 = ctx.src("direct/engine.py")
    tree2, _ = pg.parse_file(path2)
    # resume start
    tr_fn = pg.find_def(tree2, "Engine.train", path2)
    start = None
    for node in ast.walk(tr_fn):
        if isinstance(node, ast.Assign) and ast.unparse(node.targets[0]) == "start_iter" and "checkpoint[" in ast.unparse(node.value):
            tr = pg.ExprT({"checkpoint['iteration']": "lbl"}, path2, truthy_int=False)
            start = tr.z(node.value)
    if start is None:
        raise Untranslatable("Engine.train: `start_iter = checkpoint['iteration'] + ...` not found", tr_fn.lineno, path2)
    out += "Definition resume_start (lbl : Z) : Z := %s.\n" % start
    # labels used on the exception paths of training_loop
    loop_fn = pg.find_def(tree2, "Engine.training_loop", path2)
    labels = []
    for node in ast.walk(loop_fn):
        if isinstance(node, ast.ExceptHandler):
            for sub in ast.walk(node):
                if isinstance(sub, ast.Call) and ast.unparse(sub.func) == "self.checkpoint_and_write_to_logs":
                    tr = pg.ExprT({"iter_idx": "it"}, path2, truthy_int=False)
                    labels.append(tr.z(sub.args[0]))
                elif isinstance(sub, ast.Call) and "checkpointer.save" in ast.unparse(sub.func):
                    raise Untranslatable("training_loop: direct checkpointer.save on an exception path", sub.lineno, path2)
    if not labels:
        raise Untranslatable("training_loop: no checkpoint on the exception paths", loop_fn.lineno, path2)
    out += "Definition kill_labels (it : Z) : list Z := [%s].\n" % "; ".join(labels)
    # guard and label of the two places that save: every call of checkpointer.save met by a symbolic execution
    # (vlib/symex.py), with the conditions of the path that reaches it
    from .. import symex as X

    S = lambda n: ("sym", n)
    steps_v = X.parse_expr("self.cfg.training.checkpointer.checkpoint_steps")

    def save_site(qual, leaf, what):
        hits, stopped = X.watch_calls(tree2, path2, qual, ["save"])
        saves = [(c, a_, k_) for c, a_, k_ in hits["save"]]
        if len(saves) != 1 or len(saves[0][1]) != 1 or saves[0][2]:
            raise Untranslatable("%s: expected exactly one self.checkpointer.save(<label>) (%s)" % (what, stopped), None, path2)
        conds, args, _kw = saves[0]
        em = X.Emit(lambda v: leaf.get(v), path2)
        guard = " && ".join(em.b(c) if pol else "(negb %s)" % em.b(c) for c, pol in conds) or "true"
        return guard, em.z(args[0])

    g, lbl = save_site("Engine.checkpoint_and_write_to_logs", {S("iter_idx"): "lbl"}, "checkpoint_and_write_to_logs")
    out += "Definition kill_guard (lbl : Z) : bool := %s.\n" % g
    out += "Definition kill_saved_label (lbl : Z) : Z := %s.\n" % lbl
    g, lbl = save_site("Engine.checkpoint_model_at_interval", {S("iter_idx"): "it", S("total_iter"): "total", steps_v: "steps"}, "checkpoint_model_at_interval")
    out += "Definition reg_label (it : Z) : Z := %s.\n" % lbl
    out += "Definition reg_guard (it total steps : Z) : bool := %s.\n" % g
    # the regular save is issued after the update of the same iteration
    src_loop = None
    for node in loop_fn.body:
        if isinstance(node, ast.For) and ast.unparse(node.iter).startswith("zip(data_loader, range(start_iter, total_iter))"):
            src_loop = node
    if src_loop is None:
        raise Untranslatable("training_loop: main loop not found", loop_fn.lineno, path2)
    order = [ast.unparse(s) for s in src_loop.body]
    i_step = max(i for i, s in enumerate(order) if "_scaler.step" in s)
    i_sched = max(i for i, s in enumerate(order) if "lr_scheduler.step" in s)
    i_save = [i for i, s in enumerate(order) if s.startswith("self.checkpoint_model_at_interval(")]
    if len(i_save) != 1 or ast.unparse(src_loop.body[i_save[0]].value.args[0]) != "iter_idx":
        raise Untranslatable("training_loop: regular checkpoint call outside subset", src_loop.lineno, path2)
    out += "Definition reg_save_after_update : bool := %s.\n" % ("true" if i_save[0] > i_step and i_save[0] > i_sched else "false")
    return [pg.write_gen(ctx, "C15_gen", out)]


# ------------------------------------------------------------------------------------------------
PRE = "From DV Require Import Base.Tactics Model.C15.\nFrom G Require Import C15_gen C15_defs.\nOpen Scope Z_scope.\n"


class _Crash(BaseException):
    pass


def _mk_ckpt(dirname, w):
    import pathlib

    import torch
    from direct.checkpointer import Checkpointer
    from .. import engine_harness as H

    model = H.make_model(w)
    opt = torch.optim.SGD(model.parameters(), lr=0.5)
    return Checkpointer(pathlib.Path(dirname), save_to_disk=True, model=model, optimizer=opt), model


def _classify_load(dirname):
    """Fresh process view: a new Checkpointer loads 'latest'."""
    try:
        ck, model = _mk_ckpt(dirname, -1.0)
        res = ck.load("latest")
        if not res:
            return ["none"]
        return ["ok", int(res["iteration"]), int(round(float(model.w.item())))]
    except Exception as e:  # noqa
        return ["corrupt", type(e).__name__]


def _save_with_crash(dirname, it, w, crash_at, torn):
    """Run Checkpointer.save(it) and die at event number `crash_at` (None = run to completion).

    Events: every open(), every torch.save / file.write, every os.replace. `torn`: for a write event, part of the
    bytes reach the file before the process dies. Returns the list of event kinds seen."""
    import io

    import torch

    ck, _ = _mk_ckpt(dirname, w)
    events = []
    real_open, real_save, real_replace, real_rename = builtins.open, torch.save, os.replace, os.rename

    pipe = {}

    def die():
        # the process dies here: no unwinding, no flushing of Python-level file buffers
        import json as _j

        os.write(pipe["w"], _j.dumps(events).encode())
        os._exit(17)

    def hit(kind):
        events.append(kind)
        return crash_at is not None and len(events) - 1 == crash_at

    class FW:
        def __init__(self, f):
            self._f = f

        def write(self, s):
            if hit("write"):
                if torn:
                    self._f.write(s[: max(0, len(s) // 2)])
                    self._f.flush()
                die()
            return self._f.write(s)

        def __getattr__(self, n):
            return getattr(self._f, n)

        def __enter__(self):
            self._f.__enter__()
            return self

        def __exit__(self, *a):
            # leaving the with-block flushes and closes the file: dying just before loses what is still buffered
            if hit("close"):
                die()
            return self._f.__exit__(*a)

        def close(self):
            if hit("close"):
                die()
            return self._f.close()

    class BW(FW):
        """binary file: torch.save writes to the underlying file (one 'write' event for the whole save)"""

        def write(self, s):
            return self._f.write(s)

    def p_open(file, mode="r", *a, **k):
        if "w" in mode and str(file).startswith(str(dirname)):
            if hit("open"):
                die()
            f = real_open(file, mode, *a, **k)
            return FW(f) if "b" not in mode else BW(f)
        return real_open(file, mode, *a, **k)

    def p_save(obj, f, *a, **k):
        f = getattr(f, "_f", f)
        if hit("write"):
            if torn:
                buf = io.BytesIO()
                real_save(obj, buf)
                data = buf.getvalue()
                f.write(data[: len(data) // 2])
                f.flush()
            die()
        return real_save(obj, f, *a, **k)

    def p_replace(a, b, *x, **k):
        if str(a).startswith(str(dirname)):
            if hit("replace"):
                die()
        return real_replace(a, b, *x, **k)

    # the save runs in a forked child that dies with os._exit at the chosen event: nothing is flushed or unwound, exactly
    # as when the process is killed (data still sitting in a Python file buffer is lost)
    import json as _json

    rfd, wfd = os.pipe()
    pipe["w"] = wfd
    pid = os.fork()
    if pid == 0:
        code = 0
        try:
            os.close(rfd)
            torch.set_num_threads(1)
            builtins.open, torch.save, os.replace, os.rename = p_open, p_save, p_replace, p_replace
            try:
                ck.save(it)
            except _Crash:
                code = 17
            except BaseException:  # noqa
                code = 18
            os.write(wfd, _json.dumps(events).encode())
        finally:
            os._exit(code)
    os.close(wfd)
    data = b""
    while True:
        chunk = os.read(rfd, 65536)
        if not chunk:
            break
        data += chunk
    os.close(rfd)
    os.waitpid(pid, 0)
    return _json.loads(data.decode()) if data else events


PRIORS = {
    "empty": [],
    "one": [(5, 51)],
    "two": [(5, 51), (7, 71)],
    "same-iteration": [(5, 51), (6, 61)],  # then iteration 6 is saved again
    "restarted-lower": [(30, 301), (4, 41)],  # a run restarted from scratch in a directory that still holds an older run
}


def fault_injection(ctx, root):
    """Returns list of (case, impl classification sequence)."""
    res = []
    for prior_name, prior in PRIORS.items():
        it, w = (6, 62) if prior_name == "same-iteration" else (9, 91)
        base = tempfile.mkdtemp(prefix="c15p_", dir=root)
        for (pit, pw) in prior:
            _save_with_crash(base, pit, pw, None, False)
        # count events
        d = tempfile.mkdtemp(prefix="c15c_", dir=root)
        shutil.rmtree(d)
        shutil.copytree(base, d)
        events = _save_with_crash(d, it, w, None, False)
        final = _classify_load(d)
        shutil.rmtree(d)
        seq = []
        for j in range(len(events) + 1):
            # crash before event j (= after events 0..j-1 completed); for a write event additionally a torn write
            variants = [False] + ([True] if j < len(events) and events[j] == "write" else [])
            for torn in (variants if j < len(events) else [False]):
                d = tempfile.mkdtemp(prefix="c15c_", dir=root)
                shutil.rmtree(d)
                shutil.copytree(base, d)
                _save_with_crash(d, it, w, j if j < len(events) else None, torn)
                seq.append({"crash_before_event": j, "event": events[j] if j < len(events) else "end", "torn": torn, "load": _classify_load(d), "files": sorted(os.listdir(d))})
                shutil.rmtree(d)
        shutil.rmtree(base)
        res.append({"prior": prior_name, "prior_saves": prior, "it": it, "w": w, "events": events, "states": seq, "final": final})
    return res


def _model_class(v):
    if v == "NoCheckpoint":
        return ["none"]
    if v == "Corrupt":
        return ["corrupt"]
    if isinstance(v, dict) and "Ok" in v:
        return ["ok", v["Ok"][0], v["Ok"][1]]
    return ["?", v]


def correspond(ctx):
    from .. import shims

    shims.install(ctx.repo)
    corr = Corr()
    corr.rule = RULE
    root = os.path.join(ctx.work, "fi")
    shutil.rmtree(root, ignore_errors=True)
    os.makedirs(root)
    fi = fault_injection(ctx, root)
    terms = []
    for case in fi:
        saves = "[" + "; ".join("(%d, %d)" % p for p in case["prior_saves"]) + "]"
        terms.append("crash_run %s %d %d" % (saves, case["it"], case["w"]))
    vals = coqrun.eval_terms("c15_fi", PRE, terms, ctx.work, gen_dir=ctx.gen_dir)
    for case, mv in zip(fi, vals):
        # the model enumerates: prefix0, [torn] prefix1, ...; the implementation sequence is ordered:
        # for j: crash-before-j (non-torn) then torn; reorder the implementation's to the model's convention
        impl_seq = []
        # the model's trace has no separate close effect (a write persists when issued, the with-block closes before the
        # next effect): dying just before a close is an extra state of the implementation, checked by the oracle only
        st = [x for x in case["states"] if x["event"] != "close"]
        i = 0
        while i < len(st):
            if i + 1 < len(st) and st[i + 1]["torn"]:
                impl_seq.append(st[i]["load"][:1] + st[i]["load"][1:3] if st[i]["load"][0] == "ok" else st[i]["load"][:1])
                impl_seq.append(st[i + 1]["load"][:3] if st[i + 1]["load"][0] == "ok" else st[i + 1]["load"][:1])
                i += 2
            else:
                impl_seq.append(st[i]["load"][:3] if st[i]["load"][0] == "ok" else st[i]["load"][:1])
                i += 1
        model_seq = [_model_class(v) for v in mv]
        corr.dist("prior", case["prior"])
        for e in case["events"]:
            corr.dist("event", e)
        corr.compare({"prior": case["prior"], "save": [case["it"], case["w"]], "events": [e for e in case["events"] if e != "close"]}, impl_seq, model_seq, nontrivial=True)
        corr.evaluations += len(impl_seq) - 1
    ctx._fi = fi
    # resume arithmetic
    corr.merge(_correspond_resume(ctx, root))
    shutil.rmtree(root, ignore_errors=True)
    return corr


def _sched(opt):
    from direct.data.lr_scheduler import WarmupMultiStepLR

    return WarmupMultiStepLR(opt, milestones=[7, 12], gamma=0.5, warmup_factor=0.25, warmup_iterations=4, warmup_method="linear")


def _resume_run(root, N, j, how, opt):
    """Interrupt a training of N iterations at iteration j (clean: stop after j; kill: signal inside j), resume, and
    compare with the uninterrupted run. Returns dict."""
    from .. import engine_harness as H

    grads = [((i * 7) % 11) - 5 + 0.5 for i in range(N)]
    batches = [[i] for i in range(N)]
    d0 = tempfile.mkdtemp(prefix="c15r_", dir=root)
    full_seen = []
    full = H.train(d0, grads, batches, N, lr=0.5, opt=opt, sched=_sched, seen=full_seen, lazy_batches=True)
    shutil.rmtree(d0)
    d = tempfile.mkdtemp(prefix="c15r_", dir=root)
    s1, s2 = [], []
    if how == "clean":
        a = H.train(d, grads, batches, j + 1, lr=0.5, opt=opt, sched=_sched, seen=s1, lazy_batches=True)
    else:
        a = H.train(d, grads, batches, N, lr=0.5, opt=opt, sched=_sched, seen=s1, kill_at=j, lazy_batches=True, kill_kind={"runtime": "runtime", "stepkill": "kill-in-step"}.get(how, "kill"), checkpoint_steps=3 if how == "stepkill" else 10**9)
    b = H.train(d, grads, batches, N, lr=0.5, opt=opt, sched=_sched, seen=s2, resume=True, lazy_batches=True)
    shutil.rmtree(d)
    return {"full": full, "first": a, "resumed": b, "seen_first": [x[0] for x in s1], "seen_resumed": [x[0] for x in s2], "seen_full": [x[0] for x in full_seen]}


def gen_resume_cases(ctx):
    rng = ctx.rng
    cases = [(10, 7, "kill", "sgd"), (10, 6, "clean", "sgd"), (8, 3, "kill", "sgd"), (9, 5, "kill", "adam"), (10, 8, "runtime", "sgd"), (12, 6, "runtime", "adam")]
    for _ in range(ctx.n(10, 120)):
        N = rng.randint(6, 20 if not ctx.thorough else 60)
        j = rng.randint(0, N - 1)
        cases.append((N, j, rng.choice(["clean", "kill", "kill", "runtime"]), rng.choice(["sgd", "sgd", "adam"])))
    return cases


def _correspond_resume(ctx, root):
    corr = Corr()
    cases = gen_resume_cases(ctx)
    runs, terms = [], []
    for (N, j, how, opt) in cases:
        try:
            r = _resume_run(root, N, j, how, opt)
            runs.append(r)
            impl = ["ok", r["seen_first"], r["seen_resumed"]]
        except Exception as e:  # noqa
            runs.append(None)
            impl = ["raises", type(e).__name__ + ": " + str(e)[:120]]
        terms.append((impl, "resume_trace %d %d %s" % (N, j, "true" if how in ("kill", "runtime") else "false")))
    vals = coqrun.eval_terms("c15_resume", PRE, [t for _, t in terms], ctx.work, gen_dir=ctx.gen_dir)
    for (N, j, how, opt), (impl, _), mv in zip(cases, terms, vals):
        a, b = mv
        corr.dist("interrupt", how)
        corr.dist("optimizer", opt)
        corr.compare({"N": N, "interrupt_at": j, "how": how, "opt": opt}, impl, ["ok", list(a), list(b)], nontrivial=j >= 5)
    ctx._resume = list(zip(cases, runs))
    return corr


# ------------------------------------------------------------------------------------------------
def oracles(ctx, deep):
    from .. import shims

    shims.install(ctx.repo)
    out, seen, runs = [], set(), 0

    def add(v):
        if v.key() not in seen:
            seen.add(v.key())
            out.append(v)

    root = os.path.join(ctx.work, "fio")
    shutil.rmtree(root, ignore_errors=True)
    os.makedirs(root)
    fi = getattr(ctx, "_fi", None) or fault_injection(ctx, root)
    for case in fi:
        prior = case["prior_saves"]
        prev = ["none"] if not prior else ["ok", prior[-1][0], prior[-1][1]]
        if case["prior"] == "same-iteration":
            prev = ["ok", 6, 61]
        new = ["ok", case["it"], case["w"]]
        for st in case["states"]:
            runs += 1
            got = st["load"][:3] if st["load"][0] == "ok" else st["load"][:1]
            if got != prev and got != new:
                what = "process dies %s event #%d (%s) of Checkpointer.save(%d) with prior saves %s: load('latest') gives %s, expected %s or %s" % (
                    "inside" if st["torn"] else "before", st["crash_before_event"], st["event"], case["it"], prior, st["load"], prev, new)
                add(Violation("crash-during-save", what, {"prior_saves": prior, "save": [case["it"], case["w"]], "events": case["events"], "crash_before_event": st["crash_before_event"], "torn": st["torn"], "observed": st["load"], "files": st["files"]}, {"kind": "crash", "result": st["load"][0]}))
        if case["final"][:3] != new:
            add(Violation("latest-is-most-recent", "after a complete save(%d) load('latest') gives %s" % (case["it"], case["final"]), {"prior_saves": prior, "observed": case["final"]}, {"kind": "latest"}))
    # resume equivalence through the real training loop
    res = getattr(ctx, "_resume", None)
    if res is None or deep:
        cases = gen_resume_cases(ctx)
        if deep:
            for N in (8, 12, 16):
                for j in range(N):
                    cases.append((N, j, "kill", "sgd"))
                    cases.append((N, j, "clean", "sgd"))
                    cases.append((N, j, "runtime", "sgd"))
        res = []
        for c in cases:
            try:
                res.append((c, _resume_run(root, *c)))
            except Exception as e:  # noqa
                res.append((c, None))
    # an interrupt that arrives outside the forward / backward pass (while the optimiser step completes): whatever is
    # written then must still label the state it holds
    res = list(res)
    for (N, j) in [(12, 7), (12, 4), (10, 8)] + [(ctx.rng.randint(8, 16), ctx.rng.randint(1, 7)) for _ in range(ctx.n(2, 12))]:
        c = (N, min(j, N - 2), "stepkill", "sgd")
        try:
            res.append((c, _resume_run(root, *c)))
        except Exception as e:  # noqa
            res.append((c, None))
    for (N, j, how, opt), r in sorted(res, key=lambda t: (t[0][0], t[0][1])):
        runs += 1
        call = "train %d iterations (%s, WarmupMultiStepLR), %s iteration %d, resume" % (N, opt, {"clean": "stop cleanly after", "kill": "kill signal during", "runtime": "RuntimeError raised inside", "stepkill": "kill signal during the optimiser step of"}[how], j)
        if r is None:
            add(Violation("resume-runs", "%s: raises" % call, {"call": call}, {"kind": "raises"}))
            continue
        full, b = r["full"], r["resumed"]
        lr_full = [s[0] for s in full["steps"]]
        lr_joint = [s[0] for s in r["first"]["steps"]] + [s[0] for s in b["steps"]]
        applied = r["seen_first"][: len(r["first"]["steps"])] + r["seen_resumed"]
        if b["w"] != full["w"] or b["last_epoch"] != full["last_epoch"]:
            site = {"kind": "resume", "how": how, "checkpointed": j >= 5}
            add(Violation("resume-equals-uninterrupted", "%s: parameter %r / schedule epoch %d, uninterrupted run %r / %d; batches applied to the parameters: %s" % (call, b["w"], b["last_epoch"], full["w"], full["last_epoch"], applied), {"call": call, "observed_w": b["w"], "expected_w": full["w"], "observed_epoch": b["last_epoch"], "expected_epoch": full["last_epoch"], "iterations_applied": applied, "lr_resumed": [s[0] for s in b["steps"]], "lr_uninterrupted_tail": lr_full[len(lr_full) - len(b["steps"]) :]}, site))
    # the full training state: every object with a state_dict that the engine hands to its Checkpointer is in the file
    try:
        from .. import engine_harness as H

        for extra in (False, True):
            d = tempfile.mkdtemp(prefix="c15k_", dir=root)
            r = H.train(d, [float(i + 1) for i in range(8)], [[i] for i in range(8)], 8, lr=0.5, opt="sgd", sched=_sched, extra_model=extra, checkpoint_steps=2)
            shutil.rmtree(d)
            runs += 1
            if r["stored"] is None:
                add(Violation("checkpoint-written", "Engine.train of 8 iterations (checkpoint every 2) leaves no checkpoint behind", {"extra_model": extra}, {"kind": "no-checkpoint"}))
                continue
            missing = [k for k in r["stateful"] if k not in r["stored"]] + ([] if "model" in r["stored"] else ["model"])
            if missing:
                add(Violation("full-state-stored", "the checkpoint written by Engine.train lacks the state of %s (objects with a state_dict handed to the Checkpointer: %s; keys stored: %s)" % (missing, r["stateful"], r["stored"]), {"missing": missing, "stateful": r["stateful"], "stored": r["stored"], "extra_model": extra}, {"kind": "state-missing", "missing": ",".join(missing)}))
    except Exception as e:  # noqa
        add(Violation("resume-runs", "checkpoint content probe raises %s: %s" % (type(e).__name__, str(e)[:100]), {}, {"kind": "probe-raises"}))
    runs += _lr_oracles(ctx, add)
    shutil.rmtree(root, ignore_errors=True)
    ctx.oracle_runs = runs
    return out


def _lr_oracles(ctx, add):
    """The learning rate is a function of last_epoch: same value whatever the history that led to that epoch."""
    import torch
    from direct.data.lr_scheduler import WarmupCosineLR, WarmupMultiStepLR

    runs = 0
    rng = ctx.rng
    for _ in range(ctx.n(20, 200)):
        kind = rng.choice(["multistep", "cosine"])
        warm = rng.randint(0, 6)
        wf = rng.choice([0.001, 0.25, 0.5])
        method = rng.choice(["linear", "constant"])
        ms = sorted(rng.sample(range(1, 30), rng.randint(0, 3)))
        gamma = rng.choice([0.1, 0.5])
        N = rng.randint(2, 30)

        def mk():
            p = torch.nn.Parameter(torch.zeros(1))
            o = torch.optim.SGD([p], lr=0.3)
            s = WarmupMultiStepLR(o, ms, gamma, wf, warm, method) if kind == "multistep" else WarmupCosineLR(o, 40, wf, warm, method)
            return o, s

        o, s = mk()
        seq = []
        for t in range(N):
            seq.append(o.param_groups[0]["lr"])
            o.step()
            s.step()
        t0 = rng.randint(1, N - 1)
        o1, s1 = mk()
        for t in range(t0):
            o1.step()
            s1.step()
        sd_o, sd_s = o1.state_dict(), s1.state_dict()
        o2, s2 = mk()
        o2.load_state_dict(sd_o)
        s2.load_state_dict(sd_s)
        seq2 = []
        for t in range(t0, N):
            seq2.append(o2.param_groups[0]["lr"])
            o2.step()
            s2.step()
        runs += 1
        if seq2 != seq[t0:]:
            add(Violation("lr-function-of-epoch", "%s schedule: learning rates after restoring the state at epoch %d are %s, uninterrupted %s" % (kind, t0, seq2[:5], seq[t0 : t0 + 5]), {"kind": kind, "milestones": ms, "gamma": gamma, "warmup": [warm, wf, method], "resume_epoch": t0, "observed": seq2, "expected": seq[t0:]}, {"kind": "lr", "scheduler": kind}))
    return runs
