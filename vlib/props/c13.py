"""C13 — samplers partition the data across ranks and never mix volumes in a batch."""
import ast
import itertools

from .. import coqrun, py2gallina as pg, symex as X
from ..core import Corr, Untranslatable, Violation

ID = "C13"
LEVEL = "proof"
COQ_FILES = ["Tie/C13_tie.v", "Props/C13_props.v"]
PROPS_FILES = ["C13_props.v"]
TRUSTED_BASE = [
    "vlib/symex.py (symbolic execution of the translated Python subset on the ast: the translator reads value / outcome trees, so local names, intermediates, helpers and the form of branches do not matter; its assumptions - pure expressions, opaque calls, no aliasing writes, try handlers not modelled - are listed in DESIGN.md 12.7; fail-closed)",
    "py2gallina unit 'chunks' (AST -> Gallina for the divmod arithmetic of direct.utils.chunks)",
    "hand-written model coq/Model/C13.v of DistributedSequentialSampler / BatchVolumeSampler / ConcatDatasetBatchSampler.batch_sampler / DistributedSampler.__iter__, tied by exact correspondence (vlib/props/c13.py)",
    "torch.utils.data.Sampler base class, Python list slicing and iteration protocol",
]
ASSUMPTIONS = [
    "dataset.volume_indices is an ordered mapping to contiguous ranges (that is C12's theorem)",
    "all volumes non-empty (hypothesis forced by bvs_run_spec: an empty volume makes the end-of-volume marker unreachable)",
]
RULE = "(layout, world, rank, limit, batch size, iterations) tuples; non-trivial = at least 2 volumes and some volume length not a multiple of the batch size; distinct by tuple"


# ------------------------------------------------------------------------------------------------
def generate(ctx):
    """chunks(): how many chunks are yielded and which slice each is, read off a symbolic execution (vlib/symex.py) of one
    generic iteration of its loop."""
    path = ctx.src("direct/utils/__init__.py")
    tree, _ = pg.parse_file(path)
    S = lambda n: ("sym", n)
    lst, k = S("list_to_chunk"), S("number_of_chunks")
    hits, stopped = X.watch_calls(tree, path, "chunks", ["yield"])
    probes = hits["$probes"]
    if len(probes) != 1 or not hits["yield"]:
        raise Untranslatable("chunks: not one loop that yields (%s)" % stopped, None, path)
    _ln, _known, it, _env = probes[0]
    if not (it[0] == "call" and it[1] == S("range") and len(it[2]) == 1 and not it[3]):
        raise Untranslatable("chunks: the loop is not over range(n): %s" % X.show(it)[:80], None, path)
    d = 1
    leaf = {k: "k", ("call", S("len"), (lst,), ()): "len", ("bv", d): "idx"}
    em = X.Emit(lambda v: leaf.get(v), path)
    out = "Definition chunks_count (len k : Z) : Z := %s.\n" % em.z(it[2][0])

    def tree_of(which):
        """if-tree over the path conditions under which each yield is reached"""
        term = None
        for conds, args, _kw in reversed(hits["yield"]):
            v = args[0]
            if not (v[0] == "sub" and v[1] == lst and v[2][0] == "slice" and v[2][3] == X.NONE and X.NONE not in (v[2][1], v[2][2])):
                raise Untranslatable("chunks: what is yielded is not list_to_chunk[a:b]: %s" % X.show(v)[:80], None, path)
            e = em.z(v[2][which])
            if term is None:
                term = e
            else:
                cond = " && ".join(em.b(c) if pol else "(negb %s)" % em.b(c) for c, pol in conds) or "true"
                term = "(if %s then %s else %s)" % (cond, e, term)
        return term

    out += "Definition chunk_lo (len k idx : Z) : Z := %s.\n" % tree_of(1)
    out += "Definition chunk_hi (len k idx : Z) : Z := %s.\n" % tree_of(2)
    return [pg.write_gen(ctx, "C13_gen", out)]


def _len_call(node, tr):
    if len(node.args) == 1 and tr.name_of(node.args[0]) == "list_to_chunk":
        return "len"
    tr.fail(node, "len() of something else than the chunked list")


# ------------------------------------------------------------------------------------------------
class _DS:
    """Stand-in dataset: exactly what the samplers read (`volume_indices`, `__len__`)."""

    def __init__(self, layout):
        from collections import OrderedDict

        self.volume_indices = OrderedDict()
        s = 0
        for i, n in enumerate(layout):
            self.volume_indices["vol_%03d" % i] = range(s, s + n)
            s += n
        self.n = s

    def __len__(self):
        return self.n


def impl_eval(layout, world, rank, limit, bs, iters):
    """Run the real samplers. Returns ("ok", batches-per-iteration, len) or ("raises", type)."""
    from direct.data.samplers import BatchVolumeSampler, DistributedSequentialSampler

    try:
        s = DistributedSequentialSampler(_DS(layout), num_replicas=world, rank=rank, limit_number_of_volumes=limit or None)
        b = BatchVolumeSampler(s, bs)
        outs = []
        for _ in range(iters):
            outs.append([[int(i) for i in batch] for batch in b])
        return ("ok", outs, len(b))
    except Exception as e:  # noqa
        return ("raises", type(e).__name__)


def spec_batches(layout, world, rank, limit, bs):
    """The property itself, executed directly (used as oracle on the implementation)."""
    vols = []
    s = 0
    for n in layout:
        vols.append((s, s + n))
        s += n
    if limit:
        vols = vols[:limit]
    d, r = divmod(len(vols), world)
    sizes = [d + 1 if i < r else d for i in range(world)]
    start = sum(sizes[:rank])
    mine = vols[start : start + sizes[rank]]
    out = []
    for a, b in mine:
        for j in range(a, b, bs):
            out.append(list(range(j, min(j + bs, b))))
    return out


def gen_cases(ctx):
    rng = ctx.rng
    cases = []
    # corpus first (minimised failures of earlier rounds)
    cases += [([3, 5], 1, 0, 0, 2, 2), ([3, 5, 2, 4], 1, 0, 0, 2, 3), ([2, 2, 2, 2], 6, 5, 0, 2, 1), ([1], 3, 2, 0, 4, 2), ([4, 1, 7], 2, 1, 2, 3, 2)]
    n = ctx.n(700, 12000)
    while len(cases) < n:
        nv = rng.choice([1, 1, 2, 2, 3, 3, 4, 5, 6])
        layout = [rng.randint(1, 9) for _ in range(nv)]
        world = rng.choice([1, 1, 2, 2, 3, 4, 5, 6, 7, 8])
        rank = rng.randrange(world)
        limit = rng.choice([0, 0, 0, 1, 2, 3, 7])
        bs = rng.randint(1, 10)
        iters = rng.choice([1, 2, 3])
        cases.append((layout, world, rank, limit, bs, iters))
    if ctx.thorough:
        # exhaustive: up to 4 volumes x 1..5 slices, world 1..5 all ranks, bs 1..4, 2 iterations
        for nv in range(1, 4):
            for layout in itertools.product(range(1, 5), repeat=nv):
                for world in (1, 2, 3, 5):
                    for rank in range(world):
                        for bs in (1, 2, 3):
                            cases.append((list(layout), world, rank, 0, bs, 2))
    return cases


PRE = "From DV Require Import Base.Tactics Model.C13.\nOpen Scope nat_scope.\n"


def correspond(ctx):
    from .. import shims

    shims.install(ctx.repo)
    corr = Corr()
    corr.rule = RULE
    cases = gen_cases(ctx)
    terms = []
    impl = []
    for (layout, world, rank, limit, bs, iters) in cases:
        impl.append(impl_eval(layout, world, rank, limit, bs, iters))
        terms.append("eval_batches %s %d %d %d %d %d" % (coqrun.lit(layout), world, rank, limit, bs, iters))
    vals = coqrun.eval_sharded("c13_cases", PRE, terms, ctx.work, shard=400)
    for case, im, mv in zip(cases, impl, vals):
        layout, world, rank, limit, bs, iters = case
        model = ("raises",) if mv is None else ("ok", mv["Some"][0], mv["Some"][1])
        im_c = ("raises",) if im[0] == "raises" else im
        nontriv = len(layout) >= 2 and any(n % bs for n in layout)
        corr.dist("volumes", len(layout))
        corr.dist("world", world)
        corr.dist("iterations", iters)
        corr.dist("impl_kind", im[0] if im[0] == "ok" else "raises:" + im[1])
        corr.compare({"layout": layout, "world": world, "rank": rank, "limit": limit, "bs": bs, "iters": iters}, list(im_c), list(model), nontriv)
    # concat batch sampler + strided stream
    c2 = correspond_concat(ctx)
    corr.merge(c2)
    ctx._cases = cases
    ctx._impl = impl
    return corr


def correspond_concat(ctx):
    """ConcatDatasetBatchSampler.batch_sampler offsets and DistributedSampler striding."""
    import direct.data.samplers as S
    from direct.utils import communication

    corr = Corr()
    rng = ctx.rng
    terms, impls, cases = [], [], []
    for _ in range(ctx.n(120, 1500)):
        sizes = [rng.randint(1, 7) for _ in range(rng.randint(1, 5))]
        bs = rng.randint(1, 5)
        world = rng.choice([1, 2, 3, 4])
        rank = rng.randrange(world)
        nb = rng.randint(1, 4)
        old = (communication.get_rank, communication.get_world_size)
        communication.get_rank = lambda: rank
        communication.get_world_size = lambda: world
        try:
            class D:
                def __init__(self, n):
                    self.n = n

                def __len__(self):
                    return self.n

            try:
                cs = S.ConcatDatasetBatchSampler([D(n) for n in sizes], bs, seed=ctx.seed)
                # make the member streams deterministic and observable: un-shuffled
                for smp in cs.samplers:
                    smp._shuffle = False
                per_member = []
                for gen in cs._batch_samplers:
                    per_member.append([[int(i) for i in next(gen)] for _ in range(nb)])
                im = ("ok", per_member)
            except Exception as e:  # noqa
                im = ("raises", type(e).__name__)
        finally:
            communication.get_rank, communication.get_world_size = old
        cases.append({"sizes": sizes, "bs": bs, "world": world, "rank": rank, "nb": nb})
        impls.append(im)
        # model: stream of member m = (range(size) repeated), strided by (rank, world), first nb*bs elements
        need = nb * bs
        mterms = []
        for m, size in enumerate(sizes):
            reps = (rank + need * world) // size + 2
            stream = list(range(size)) * reps
            mterms.append("firstn %d (cat_go %d (member_offset %s %d) (firstn %d (stride %d %d %s)) [])" % (nb, bs, coqrun.lit(sizes), m, need, rank, world, coqrun.lit(stream)))
        terms.append("[" + "; ".join(mterms) + "]")
    vals = coqrun.eval_sharded("c13_concat", PRE, terms, ctx.work, shard=200)
    for case, im, mv in zip(cases, impls, vals):
        corr.compare(case, list(im), ["ok", mv], len(case["sizes"]) >= 2)
        corr.dist("concat_members", len(case["sizes"]))
    return corr


# ------------------------------------------------------------------------------------------------
def oracles(ctx, deep):
    """The property, executed on the implementation."""
    from .. import shims

    shims.install(ctx.repo)
    out = []
    cases = list(getattr(ctx, "_cases", None) or gen_cases(ctx))
    if deep:
        for nv in range(1, 5):
            for layout in itertools.product(range(1, 6), repeat=nv):
                if len(cases) > 60000:
                    break
                for world in (1, 2, 3, 4, 6):
                    for bs in (1, 2, 3, 4):
                        cases.append((list(layout), world, ctx.rng.randrange(world), 0, bs, 3))
    cases.sort(key=lambda c: (sum(c[0]) + c[1] + c[5], len(c[0])))
    runs = 0
    seen = set()
    for (layout, world, rank, limit, bs, iters) in cases:
        runs += 1
        im = impl_eval(layout, world, rank, limit, bs, iters)
        want = spec_batches(layout, world, rank, limit, bs)
        call = "BatchVolumeSampler(DistributedSequentialSampler(ds(%s), %d, %d, %s), %d) iterated %d times" % (layout, world, rank, limit or None, bs, iters)
        v = None
        if im[0] == "raises":
            site = {"kind": "raises", "exception": im[1], "empty_rank": len(want) == 0}
            v = Violation("sampler-constructible", "sampler raises %s for a valid configuration (%s)" % (im[1], call), {"call": call, "observed": im, "expected": want}, site)
        else:
            for it, batches in enumerate(im[1]):
                if batches != want:
                    site = {"kind": "batches", "iteration": "first" if it == 0 else "later"}
                    v = Violation("single-volume-batches", "iteration %d yields %s, expected %s (%s)" % (it + 1, batches, want, call), {"call": call, "iteration": it + 1, "observed": batches, "expected": want}, site)
                    break
            if v is None and im[2] != len(want):
                v = Violation("reported-length", "len() = %d but %d batches (%s)" % (im[2], len(want), call), {"call": call, "observed": im[2], "expected": len(want)}, {"kind": "len"})
        if v is not None and v.key() not in seen:
            seen.add(v.key())
            out.append(v)
    # partition across ranks: union over ranks = every index once, in order
    from direct.data.samplers import DistributedSequentialSampler

    for _ in range(ctx.n(150, 1500)):
        layout = [ctx.rng.randint(1, 9) for _ in range(ctx.rng.randint(1, 6))]
        world = ctx.rng.randint(1, 8)
        runs += 1
        try:
            allidx = []
            for r in range(world):
                allidx += list(DistributedSequentialSampler(_DS(layout), world, r).indices)
        except Exception as e:  # noqa
            continue  # reported above
        if allidx != list(range(sum(layout))):
            v = Violation("rank-partition", "ranks do not partition the dataset in order: layout %s world %d -> %s" % (layout, world, allidx), {"layout": layout, "world": world, "observed": allidx}, {"kind": "partition"})
            if v.key() not in seen:
                seen.add(v.key())
                out.append(v)
    # training batches come from a single member of the concatenated dataset, on every rank
    import direct.data.samplers as S
    from direct.utils import communication

    class D:
        def __init__(self, n):
            self.n = n

        def __len__(self):
            return self.n

    for _ in range(ctx.n(150, 1500) * (3 if deep else 1)):
        sizes = [ctx.rng.randint(1, 7) for _ in range(ctx.rng.randint(1, 5))]
        bs = ctx.rng.randint(1, 5)
        world = ctx.rng.choice([1, 2, 2, 3, 4])
        rank = ctx.rng.randrange(world)
        old = (communication.get_rank, communication.get_world_size)
        communication.get_rank = lambda: rank
        communication.get_world_size = lambda: world
        runs += 1
        try:
            cs = S.ConcatDatasetBatchSampler([D(n) for n in sizes], bs, seed=ctx.rng.randrange(1000))
            cum = [sum(sizes[: i + 1]) for i in range(len(sizes))]
            for _b in range(12):
                batch = [int(i) for i in next(cs)]
                members = {next(m for m, c in enumerate(cum) if i < c) if 0 <= i < cum[-1] else -1 for i in batch}
                if len(members) != 1 or -1 in members or len(batch) > bs:
                    v = Violation("concat-single-member", "training batch %s spans members %s of a concatenated dataset with sizes %s (world %d, rank %d, batch size %d)" % (batch, sorted(members), sizes, world, rank, bs), {"sizes": sizes, "world": world, "rank": rank, "bs": bs, "batch": batch}, {"kind": "concat"})
                    if v.key() not in seen:
                        seen.add(v.key())
                        out.append(v)
                    break
        except Exception as e:  # noqa
            v = Violation("concat-single-member", "ConcatDatasetBatchSampler raises %s for sizes %s world %d rank %d" % (type(e).__name__, sizes, world, rank), {"sizes": sizes, "world": world, "rank": rank, "bs": bs}, {"kind": "concat-raises"})
            if v.key() not in seen:
                seen.add(v.key())
                out.append(v)
        finally:
            communication.get_rank, communication.get_world_size = old
    # the rank-strided infinite stream: the ranks' streams interleave to one common stream made of successive permutations of
    # range(size), on every iteration of the same sampler objects (also after a partly consumed earlier iteration)
    for _ in range(ctx.n(60, 600) * (2 if deep else 1)):
        size, world = ctx.rng.randint(1, 9), ctx.rng.randint(1, 5)
        shuffle = ctx.rng.random() < 0.8
        sd = ctx.rng.randrange(1000)
        takes = [ctx.rng.randint(1, 3 * size) for _ in range(ctx.rng.randint(1, 3))]
        runs += 1
        old = (communication.get_rank, communication.get_world_size)
        try:
            samplers = []
            for r in range(world):
                communication.get_rank = lambda r=r: r
                communication.get_world_size = lambda: world
                samplers.append(S.DistributedSampler(size, shuffle=shuffle, seed=sd))
            for it, take in enumerate(takes):
                per_rank = [[int(i) for i in itertools.islice(iter(s_), take)] for s_ in samplers]
                stream = [per_rank[j % world][j // world] for j in range(take * world)]
                bad = None
                for b in range(len(stream) // size):
                    blk = stream[b * size : (b + 1) * size]
                    if sorted(blk) != list(range(size)) or (not shuffle and blk != list(range(size))):
                        bad = (b, blk)
                        break
                if bad:
                    v = Violation("rank-stream-partition", "DistributedSampler(size %d, shuffle %s) on %d ranks, iteration %d of the same sampler objects (after taking %s per rank): the ranks' streams do not interleave to successive permutations of the dataset (block %d is %s)" % (size, shuffle, world, it + 1, takes[:it], bad[0], bad[1]), {"size": size, "world": world, "shuffle": shuffle, "seed": sd, "takes": takes, "iteration": it + 1, "per_rank": per_rank}, {"kind": "rank-stream", "iteration": "first" if it == 0 else "later"})
                    if v.key() not in seen:
                        seen.add(v.key())
                        out.append(v)
                    break
        except Exception as e:  # noqa
            v = Violation("rank-stream-partition", "DistributedSampler raises %s for size %d world %d" % (type(e).__name__, size, world), {"size": size, "world": world}, {"kind": "rank-stream-raises"})
            if v.key() not in seen:
                seen.add(v.key())
                out.append(v)
        finally:
            communication.get_rank, communication.get_world_size = old
    ctx.oracle_runs = runs
    return out
