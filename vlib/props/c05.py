"""C05 — seeded masks are reproducible and independent of call history."""
import hashlib
import random as pyrandom

from .. import coqrun, maskgen as G, py2gallina as pg, rngir
from ..core import Corr, Untranslatable, Violation

ID = "C05"
LEVEL = "proof"
COQ_FILES = ["Tie/C05_tie.v", "Props/C05_props.v"]
PROPS_FILES = ["C05_props.v"]
TRUSTED_BASE = [
    "vlib/symex.py (symbolic execution of the translated Python subset on the ast: the translator reads value / outcome trees, so local names, intermediates, helpers and the form of branches do not matter; its assumptions - pure expressions, opaque calls, no aliasing writes, try handlers not modelled - are listed in DESIGN.md 12.7; fail-closed)",
    "vlib/rngir.py (AST -> random-discipline IR): every call in each generator's mask_func (methods reached through self. are inlined along the MRO) is classified as private draw / private reseed / C kernel / global-stream access / pure; unclassifiable random-looking calls become RUnknown, which the discipline predicate rejects; temp_seed and integerize_seed are checked to have the save-seed-restore shape",
    "numpy RandomState: seed(s) makes the stream a function of s; get_state / set_state restore it; libc srand/rand inside the Cython kernels: a function of the seed passed",
    "the mask is a function of the values drawn inside the block and of the call arguments (pure numpy / scipy code in between)",
]
ASSUMPTIONS = ["seed is not None (unseeded calls are not reproducible by design)", "CalgaryCampinasMaskFunc (needs downloaded masks) is outside the set of generators of C04/C05"]
RULE = "(generator, mode, shape, seed kind int|tuple, history of 0-8 earlier calls with other seeds / unseeded / other shapes / return_acs toggled, fresh vs reused instance); the private-stream call trace and the global stream digests are compared with the IR's prediction; non-trivial = non-empty history; distinct by configuration"

CLASSES = {
    "FastMRIRandom": "FastMRIRandomMaskFunc", "CartesianRandom": "CartesianRandomMaskFunc", "FastMRIEquispaced": "FastMRIEquispacedMaskFunc",
    "CartesianEquispaced": "CartesianEquispacedMaskFunc", "FastMRIMagic": "FastMRIMagicMaskFunc", "CartesianMagic": "CartesianMagicMaskFunc",
    "Gaussian1D": "Gaussian1DMaskFunc", "Gaussian2D": "Gaussian2DMaskFunc", "Radial": "RadialMaskFunc", "Spiral": "SpiralMaskFunc",
    "VariableDensityPoisson": "VariableDensityPoissonMaskFunc", "KtRadial": "KtRadialMaskFunc", "KtUniform": "KtUniformMaskFunc", "KtGaussian1D": "KtGaussian1DMaskFunc",
}


def programs(ctx):
    path = ctx.src("direct/common/subsample.py")
    tree, _ = pg.parse_file(path)
    rngir.check_temp_seed(tree, path)
    rngir.check_integerize_seed(tree, path)
    progs = {}
    for short, cls in CLASSES.items():
        c = rngir.Classifier(tree, path, cls)
        fn = c.method("mask_func")
        if fn is None:
            raise Untranslatable("%s has no mask_func" % cls, None, path)
        progs[short] = c.program(fn)
    return progs


def generate(ctx):
    progs = programs(ctx)
    out = "From DV Require Import Base.RngIR.\nOpen Scope nat_scope.\n"
    for short, (pre, body, post) in progs.items():
        out += "Definition gen_%s : rprog := {| rpre := %s; rbody := %s; rpost := %s |}.\n" % (short, rngir.fmt(pre), rngir.fmt(body), rngir.fmt(post))
    out += "Definition all_generators : list rprog := [%s].\n" % "; ".join("gen_" + s for s in progs)
    ctx._progs = progs
    return [pg.write_gen(ctx, "C05_gen", out)]


# ------------------------------------------------------------------------------------------------
class _Rec:
    """Recording proxy of a RandomState: same stream, logs the methods called."""

    def __init__(self, rs, log):
        self._rs, self._log = rs, log

    def __getattr__(self, name):
        attr = getattr(self._rs, name)
        if callable(attr):
            def f(*a, **k):
                self._log.append(name)
                return attr(*a, **k)

            return f
        return attr


def _digest():
    import numpy as np
    import torch

    h = hashlib.sha256()
    st = np.random.get_state()
    h.update(st[1].tobytes() + str(st[2:]).encode())
    h.update(torch.get_rng_state().numpy().tobytes())
    h.update(repr(pyrandom.getstate()).encode())
    return h.hexdigest()


def _tobytes(t):
    return t.numpy().tobytes() + str(tuple(t.shape)).encode()


def run_history(rng, cfg, seed, history_len, reuse):
    """Reference: fresh instance, no history. Test: instance with a history of other calls. Returns comparison record."""
    name, mode, shape, accel, cf = cfg
    ref_mf = G.build(name, accel, cf, mode)
    r0 = G.call(ref_mf, shape, seed, False, seconds=8)
    a0 = G.call(ref_mf, shape, seed, True, seconds=8) if reuse else G.call(G.build(name, accel, cf, mode), shape, seed, True, seconds=8)
    mf = G.build(name, accel, cf, mode)
    import numpy as np
    import torch

    for _ in range(history_len):
        kind = rng.choice(["other-seed", "unseeded", "other-shape", "acs", "global-noise"])
        if kind == "other-seed":
            G.call(mf, shape, rng.randrange(10**6), False, seconds=8)
        elif kind == "unseeded":
            G.call(mf, shape, None, False, seconds=8)
        elif kind == "other-shape":
            s2 = list(shape)
            s2[-2] = max(8, s2[-2] - 2)
            G.call(mf, s2, rng.randrange(10**6), rng.random() < 0.5, seconds=8)
        elif kind == "acs":
            G.call(mf, shape, rng.randrange(10**6), True, seconds=8)
        else:
            np.random.seed(rng.randrange(10**6))
            torch.manual_seed(rng.randrange(10**6))
            pyrandom.seed(rng.randrange(10**6))
            np.random.rand(3)
    log = []
    real = mf.rng
    mf.rng = _Rec(real, log)
    d0 = _digest()
    priv0 = hashlib.sha256(real.get_state()[1].tobytes()).hexdigest()
    r1 = G.call(mf, shape, seed, False, seconds=8)
    d1 = _digest()
    priv1 = hashlib.sha256(real.get_state()[1].tobytes()).hexdigest()
    a1 = G.call(mf, shape, seed, True, seconds=8)
    mf.rng = real
    same = r0[0] == r1[0] == "ok" and _tobytes(r0[1]) == _tobytes(r1[1])
    same_acs = a0[0] == a1[0] == "ok" and _tobytes(a0[1]) == _tobytes(a1[1])
    status = r1[0] if r0[0] == r1[0] else "%s/%s" % (r0[0], r1[0])
    return {"status": status, "same_mask": same, "same_acs": same_acs, "globals_untouched": d0 == d1, "private_restored": priv0 == priv1, "trace": log}


def gen_cases(ctx):
    rng = ctx.rng
    cases = []
    for _ in range(ctx.n(120, 1500)):
        cfg = G.random_config(rng, small=True)
        if rng.random() < 0.35:
            cfg = G.second_pair(rng, cfg)
        u = rng.random()
        # seed 0 is a seed like any other
        seed = 0 if u < 0.08 else rng.randrange(10**6) if u < 0.6 else tuple(rng.randrange(256) for _ in range(rng.randint(1, 12)))
        cases.append((cfg, seed, rng.choice([0, 1, 2, 3, 5, 8]), rng.random() < 0.5))
    # every generator x mode at its boundaries (one frame, odd widths), with a short history
    for b in G.boundary_configs(rng, seeds=1):
        cases.append((b[:5], b[5], rng.choice([1, 2]), rng.random() < 0.5))
    return cases


PRE = "From DV Require Import Base.Tactics Base.RngIR.\nFrom G Require Import C05_gen.\nOpen Scope nat_scope.\n"


def _trace_summary(log):
    """What the IR can predict about a call: starts with get_state+seed, ends with set_state; uses reseed / draws."""
    inner = log[2:-1] if len(log) >= 3 else []
    # a second call (return_acs) may follow in the log: only look at the first block
    if "set_state" in log:
        k = log.index("set_state")
        inner = log[2:k]
    return [log[:2] == ["get_state", "seed"], "set_state" in log, "seed" in inner, any(m not in ("seed", "get_state", "set_state") for m in inner)]


def correspond(ctx):
    from .. import shims

    shims.install(ctx.repo)
    corr = Corr()
    corr.rule = RULE
    cases = gen_cases(ctx)
    recs, terms = [], []
    for (cfg, seed, hl, reuse) in cases:
        try:
            rec = run_history(ctx.rng, cfg, seed, hl, reuse)
        except Exception as e:  # noqa
            rec = {"status": "harness-raises:" + type(e).__name__ + str(e)[:80], "trace": []}
        recs.append(rec)
        g = "gen_" + cfg[0]
        terms.append("(disciplined %s, existsb (fun s => match s with RSeedPriv => true | _ => false end) (rbody %s), existsb (fun s => match s with RDrawPriv | RKernel => true | _ => false end) (rbody %s))" % (g, g, g))
    vals = coqrun.eval_sharded("c05_cases", PRE, terms, ctx.work, gen_dir=ctx.gen_dir, shard=400)
    for (cfg, seed, hl, reuse), rec, mv in zip(cases, recs, vals):
        disc, has_seed, has_draw = mv
        corr.dist("generator", cfg[0])
        corr.dist("history", hl)
        corr.dist("seed_kind", "int" if isinstance(seed, int) else "tuple")
        corr.dist("status", rec["status"])
        if rec["status"] != "ok":
            corr.count({"cfg": cfg, "seed": seed}, False)
            continue
        impl = _trace_summary(rec["trace"]) + [rec["same_mask"] and rec["same_acs"], rec["globals_untouched"] and rec["private_restored"]]
        model = [True, True, has_seed, has_draw, disc, disc]
        corr.compare({"generator": cfg[0], "mode": cfg[1], "shape": cfg[2], "acceleration": cfg[3], "center_fraction": cfg[4], "seed": seed, "history": hl, "reuse_instance": reuse}, impl, model, nontrivial=hl > 0)
    ctx._c05 = list(zip(cases, recs))
    return corr


def oracles(ctx, deep):
    out, seen, runs = [], set(), 0

    def add(v):
        if v.key() not in seen:
            seen.add(v.key())
            out.append(v)

    done = getattr(ctx, "_c05", None)
    if done is None or deep:
        cases = gen_cases(ctx)
        if deep:
            for _ in range(400):
                cfg = G.random_config(ctx.rng, small=True)
                cases.append((cfg, ctx.rng.randrange(10**6), ctx.rng.choice([1, 2, 4, 8]), ctx.rng.random() < 0.5))
        done = []
        for c in cases:
            try:
                done.append((c, run_history(ctx.rng, *c)))
            except Exception as e:  # noqa
                done.append((c, {"status": "harness-raises:" + type(e).__name__, "trace": []}))
    for (cfg, seed, hl, reuse), rec in sorted(done, key=lambda t: t[0][2]):
        runs += 1
        if rec["status"] != "ok":
            continue
        c = {"generator": cfg[0], "mode": cfg[1], "shape": cfg[2], "acceleration": cfg[3], "center_fraction": cfg[4], "seed": seed, "history_calls": hl, "reuse_instance": reuse}
        if not rec["same_mask"] or not rec["same_acs"]:
            add(Violation("seeded-reproducible", "%s (%s): the %s produced with seed %s after %d earlier calls differs from the one of a fresh instance" % (cfg[0], cfg[1], "sampling mask" if not rec["same_mask"] else "ACS mask", seed, hl), {"config": c}, {"generator": cfg[0], "kind": "mask" if not rec["same_mask"] else "acs"}))
        if not rec["globals_untouched"]:
            add(Violation("global-streams-untouched", "%s (%s): a seeded call changes the global numpy / torch / python random state" % (cfg[0], cfg[1]), {"config": c}, {"generator": cfg[0], "kind": "globals"}))
        if not rec["private_restored"]:
            add(Violation("private-stream-restored", "%s (%s): a seeded call does not restore the generator's private stream" % (cfg[0], cfg[1]), {"config": c}, {"generator": cfg[0], "kind": "private"}))
    # the seed may arrive positionally (`f(shape, return_acs, seed)`) or by a direct call of the public `mask_func`:
    # the mask is the same function of (shape, seed) however the arguments are spelled, on fresh and on used instances
    import torch

    rng = ctx.rng
    for name in G.ALL:
        for rep in range(ctx.n(1, 3)):
            cfg = G.random_config(rng, names=[name], small=True)
            _, mode, shape, accel, cf = cfg
            seed = rng.randrange(10**6)
            c = {"generator": name, "mode": mode, "shape": shape, "acceleration": accel, "center_fraction": cf, "seed": seed}
            for acs in (False, True):
                runs += 1
                ref = G.call(G.build(name, accel, cf, mode), shape, seed, acs, seconds=8)
                if ref[0] != "ok":
                    continue
                used = G.build(name, accel, cf, mode)
                G.call(used, shape, rng.randrange(10**6), False, seconds=8)
                spellings = (("fresh instance, f(shape, return_acs, seed)", lambda: G.build(name, accel, cf, mode)(shape, acs, seed)),
                             ("fresh instance, f.mask_func(shape, return_acs, seed)", lambda: G.build(name, accel, cf, mode).mask_func(shape, acs, seed)),
                             ("fresh instance, f.mask_func(shape, return_acs=..., seed=...)", lambda: G.build(name, accel, cf, mode).mask_func(shape, return_acs=acs, seed=seed)),
                             ("used instance, f(shape, return_acs, seed)", lambda: used(shape, acs, seed)))
                for how, fn in spellings:
                    r = G.guarded(fn, 8)
                    if r[0] == "ok" and (r[1].shape != ref[1].shape or not bool(torch.equal(r[1], ref[1]))):
                        add(Violation("seeded-reproducible", "%s (%s): the %s for seed %d differs from f(shape, return_acs=..., seed=...) of a fresh instance when called as: %s" % (name, mode, "ACS mask" if acs else "sampling mask", seed, how), {"config": c, "return_acs": acs, "call": how}, {"generator": name, "kind": "argument-spelling", "how": how.split(",")[1].strip()}))
                    elif r[0] == "raises":
                        add(Violation("seeded-reproducible", "%s (%s): %s raises %s where the keyword call returns a mask" % (name, mode, how, r[1]), {"config": c, "return_acs": acs, "call": how}, {"generator": name, "kind": "argument-spelling-raises"}))
    ctx.oracle_runs = runs
    return out
