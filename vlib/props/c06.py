"""C06 — the autocalibration region is fully sampled, centred and of the requested size."""
import ast
import math

from .. import coqrun, maskgen as G, py2gallina as pg, symex as X
from ..core import Corr, Untranslatable, Violation

ID = "C06"
LEVEL = "proof"
COQ_FILES = ["Tie/C06_defs.v", "Tie/C06_tie.v", "Props/C06_props.v"]
PROPS_FILES = ["C06_props.v"]
TRUSTED_BASE = [
    "vlib/symex.py (symbolic execution of the translated Python subset on the ast: the translator reads value / outcome trees, so local names, intermediates, helpers and the form of branches do not matter; its assumptions - pure expressions, opaque calls, no aliasing writes, try handlers not modelled - are listed in DESIGN.md 12.7; fail-closed)",
    "py2gallina unit 'center' (CartesianVerticalMaskFunc.center_mask_func pad / slice arithmetic, centered_disk_mask centre and membership test, MagicMaskFunc cap on the number of ACS lines)",
    "the disc radius int(sqrt(rows * cols * scale / pi)) and round(width * fraction) are float expressions evaluated by the harness with the same formula (oracle inputs r and L of the theorems)",
    "that the sampling mask contains the ACS mask (shared seeded choice, OR with the ACS, monotone kernels) is decided by an oracle on all generators, not by a theorem",
]
ASSUMPTIONS = ["numpy slice assignment mask[a:b] = True and np.indices semantics"]
RULE = "center_mask_func(N, L) for all 1 <= L <= N <= 40 and centered_disk_mask for all shapes up to 14x14 x 5 scales, compared exactly; non-trivial = 1 < L < N resp. radius >= 1; distinct by arguments"


def generate(ctx):
    """The three pieces of centre arithmetic, read off the value trees of a symbolic execution (vlib/symex.py): local
    names, named intermediates and helper functions do not matter, only what is computed."""
    path = ctx.src("direct/common/subsample.py")
    tree, _ = pg.parse_file(path)
    out = ""
    S = lambda n: ("sym", n)
    # ---- center_mask_func: zeros(num_cols) with the slice [lo:hi] set ----
    t, _n = X.run_function(tree, path, "CartesianVerticalMaskFunc.center_mask_func")
    t = X.prune_raises(X.drop_do(t))
    if t is None or t[0] != "ret":
        raise Untranslatable("center_mask_func: result depends on a branch", None, path)
    v = t[1]
    ok = v[0] == "set" and v[3] == X.TRUE and v[2][0] == "slice" and v[2][3] == X.NONE and v[1][0] == "call" and v[1][1] in (("attr", S("np"), "zeros"), ("attr", S("numpy"), "zeros")) and v[1][2][:1] == (S("num_cols"),)
    if ok:
        dt = dict(v[1][3]).get("dtype", v[1][2][1] if len(v[1][2]) > 1 else None)
        ok = dt in (S("bool"), ("attr", S("np"), "bool_"))
    if not ok:
        raise Untranslatable("center_mask_func: result is not a boolean np.zeros(num_cols) with one slice set to True: %s" % X.show(v)[:120], None, path)
    em = X.Emit(lambda x: {S("num_cols"): "N", S("num_low_freqs"): "L"}.get(x), path)
    out += "Definition cm_lo (N L : Z) : Z := %s.\nDefinition cm_hi (N L : Z) : Z := %s.\n" % (em.z(v[2][1]), em.z(v[2][2]))
    # ---- centered_disk_mask: (x - cx)^2 + (y - cy)^2 < r^2 on the index grids, r from the requested area ----
    t, _n = X.run_function(tree, path, "centered_disk_mask")
    t = X.prune_raises(X.drop_do(t))
    if t is None or t[0] != "ret":
        raise Untranslatable("centered_disk_mask: result depends on a branch", None, path)
    v = t[1]
    if v[0] == "call" and v[1][0] == "attr" and v[1][2] == "astype" and v[2] == (S("int"),):
        v = v[1][1]
    shape = S("shape")
    grid = ("call", ("attr", S("np"), "indices"), (shape,), ())
    area = [("bin", "*", ("call", ("attr", S("np"), "prod"), (shape,), ()), S("center_scale")), ("bin", "*", ("bin", "*", ("sub", shape, X.const(0)), ("sub", shape, X.const(1))), S("center_scale"))]
    radius = [("call", S("int"), (("call", ("attr", S("np"), "sqrt"), (("bin", "/", a_, ("attr", S("np"), "pi")),), ()),), ()) for a_ in area]
    leafmap = {("sub", shape, X.const(0)): "n", ("sub", shape, X.const(1)): "m", ("sub", grid, X.const(0)): "x", ("sub", grid, X.const(1)): "y"}
    for r_ in radius:
        leafmap[r_] = "r"
    em = X.Emit(lambda x: leafmap.get(x), path)
    out += "Definition disk_in (n m r x y : Z) : bool := %s.\n" % em.b(v)
    # ---- Magic: the number of ACS lines handed to center_mask_func is the request capped by the sampling budget ----
    hits, stopped = X.watch_calls(tree, path, "MagicMaskFunc.mask_func", ["center_mask_func"], opaque={"choose_acceleration", "_reshape_and_add_coil_axis", "_broadcast_mask"})
    hits = hits["center_mask_func"]
    if not hits:
        raise Untranslatable("MagicMaskFunc: no call of center_mask_func reached (%s)" % stopped, None, path)
    pair = ("call", ("attr", S("self"), "choose_acceleration"), (), ())
    ncols = ("sub", shape, X.const(-2))
    rnd = lambda e: ("call", S("int"), (("call", S("round"), (e,), ()),), ())
    leafmap = {("sub", pair, X.const(0)): "L0", rnd(("bin", "*", ncols, ("sub", pair, X.const(0)))): "L0", rnd(("bin", "/", ncols, ("sub", pair, X.const(1)))): "target"}
    em = X.Emit(lambda x: leafmap.get(x), path)
    caps = set()
    for conds, args, kw in hits:
        if len(args) != 2 or args[0] != ncols or kw:
            raise Untranslatable("MagicMaskFunc: center_mask_func is not called with (num_cols, number of lines)", None, path)
        caps.add(em.z(args[1]))
    if len(caps) != 1:
        raise Untranslatable("MagicMaskFunc: the cap differs between the fraction and the explicit-count branch: %s" % sorted(caps), None, path)
    out += "Definition magic_L (L0 target : Z) : Z := %s.\n" % caps.pop()
    return [pg.write_gen(ctx, "C06_gen", out)]


PRE = "From DV Require Import Base.Tactics.\nFrom G Require Import C06_gen C06_defs.\nOpen Scope Z_scope.\n"


def correspond(ctx):
    import numpy as np
    from .. import shims

    shims.install(ctx.repo)
    from direct.common.subsample import CartesianVerticalMaskFunc, centered_disk_mask

    corr = Corr()
    corr.rule = RULE
    cases, impls, terms = [], [], []
    top = 40 if not ctx.thorough else 90
    for N in range(1, top + 1):
        Ls = range(1, N + 1) if N <= 24 or ctx.thorough else sorted(set([1, 2, N // 2, N - 1, N] + [ctx.rng.randint(1, N) for _ in range(4)]))
        for L in Ls:
            if L < 1:
                continue
            try:
                m = CartesianVerticalMaskFunc.center_mask_func(N, L)
                impls.append(["ok", [int(i) for i in np.nonzero(m)[0]]])
            except Exception as e:  # noqa
                impls.append(["raises", type(e).__name__])
            cases.append({"fn": "center_mask_func", "N": N, "L": L})
            terms.append("center_cols %d %d" % (N, L))
    scales = [0.02, 0.05, 0.1, 0.2, 0.4]
    lim = 14 if not ctx.thorough else 24
    for n in range(1, lim + 1):
        for m_ in range(1, lim + 1):
            if not ctx.thorough and (n * 7 + m_ * 3) % 4 != 0:
                continue
            for sc in scales:
                r = int(math.sqrt(n * m_ * sc / math.pi))
                try:
                    d = centered_disk_mask((n, m_), sc)
                    impls.append(["ok", [[int(a), int(b)] for a, b in zip(*np.nonzero(d))]])
                except Exception as e:  # noqa
                    impls.append(["raises", type(e).__name__])
                cases.append({"fn": "centered_disk_mask", "shape": [n, m_], "scale": sc, "radius": r})
                terms.append("disk_cells %d %d %d" % (n, m_, r))
    vals = coqrun.eval_sharded("c06_cases", PRE, terms, ctx.work, gen_dir=ctx.gen_dir, shard=400)
    for c, im, mv in zip(cases, impls, vals):
        corr.dist("function", c["fn"])
        model = ["ok", [list(p) if isinstance(p, tuple) else p for p in mv]]
        nontriv = (c["fn"] == "center_mask_func" and 1 < c["L"] < c["N"]) or (c["fn"] != "center_mask_func" and c["radius"] >= 1)
        corr.compare(c, im, model, nontrivial=nontriv)
    return corr


def _line_cols(mask):
    """Columns sampled in every row of a (1, [..], rows, cols, 1) line mask, per frame."""
    import torch

    m = mask.squeeze(0).squeeze(-1)
    while m.dim() > 3:
        m = m.squeeze(0)
    if m.dim() == 2:
        m = m[None]
    return [[int(i) for i in torch.nonzero(fr.all(0)).flatten()] for fr in m], [bool((fr == fr[0:1]).all()) for fr in m]


def oracles(ctx, deep):
    import torch

    out, seen, runs = [], set(), 0

    def add(v):
        if v.key() not in seen:
            seen.add(v.key())
            out.append(v)

    rng = ctx.rng
    bases = [G.random_config(rng) for _ in range(ctx.n(260, 3000) * (2 if deep else 1))]
    # every generator x mode at its boundaries (one frame, odd widths)
    bases += [b[:5] for b in G.boundary_configs(rng, seeds=ctx.n(1, 4))]
    for base in bases:
        name, mode, shape, accel, cf = base
        # the seed the data pipeline passes is a tuple (file name characters); several (acceleration, centre fraction)
        # pairs make the seeded choice of the pair part of what the two calls must share
        seed = rng.randrange(10**6) if rng.random() < 0.6 else tuple(rng.randrange(256) for _ in range(rng.randint(1, 12)))
        runs += 1
        pairs = None
        if rng.random() < 0.3:
            multi = G.second_pair(rng, base)
            if isinstance(multi[3], list):
                pairs = (multi[3], multi[4])
        cfg = {"generator": name, "mode": mode, "shape": shape, "acceleration": pairs[0] if pairs else accel, "center_fraction": pairs[1] if pairs else cf, "seed": seed}
        try:
            mf = G.build(name, pairs[0] if pairs else accel, pairs[1] if pairs else cf, mode)
            chosen = []
            if pairs:
                # observe which pair each call draws (some generators reseed before drawing)
                orig_choose = mf.choose_acceleration

                def spy():
                    r_ = orig_choose()
                    chosen.append(r_)
                    return r_

                mf.choose_acceleration = spy
        except Exception as e:  # noqa
            add(Violation("generator-constructible", "%s cannot be built: %s" % (name, str(e)[:100]), {"config": cfg}, {"generator": name, "kind": "build"}))
            continue
        r = G.call(mf, shape, seed, False, seconds=8)
        a = G.call(mf, shape, seed, True, seconds=8)
        if r[0] != "ok" or a[0] != "ok":
            continue  # termination / errors are C04's subject
        if pairs:
            if len(chosen) != 2 or chosen[0] != chosen[1]:
                add(Violation("acs-same-choice", "%s (%s): the sampling-mask call and the ACS call with the same seed draw different (centre fraction, acceleration) pairs: %s" % (name, mode, chosen), {"config": cfg, "pairs_drawn": [list(map(float, c)) for c in chosen]}, {"generator": name, "kind": "acs-choice"}))
                continue
            cf, accel = chosen[0]
            cfg["pair_chosen_by_seed"] = [accel, cf]
        mask, acs = r[1], a[1]
        try:
            inter = acs & ~mask
        except Exception:
            add(Violation("acs-subset", "%s: ACS mask %s does not broadcast against the sampling mask %s" % (name, list(acs.shape), list(mask.shape)), {"config": cfg}, {"generator": name, "kind": "acs-shape"}))
            continue
        if bool(inter.any()):
            add(Violation("acs-subset", "%s (%s): the ACS mask is not contained in the sampling mask produced with the same arguments (%d cells)" % (name, mode, int(inter.sum())), {"config": cfg, "cells": int(inter.sum())}, {"generator": name, "kind": "acs-subset"}))
        rows, cols = shape[-3], shape[-2]
        if name in G.LINE or name in ("KtUniform", "KtGaussian1D"):
            frames, const = _line_cols(acs)
            L = G.num_low(name, cols, cf)
            if "Magic" in name:
                L = max(min(L, int(round(cols / accel))), 1)
            frac = cols * cf
            if not name.startswith("Cartesian") and abs(frac - math.floor(frac) - 0.5) < 1e-6:
                continue  # half-way products: the float rounding is not part of the property
            for fi, colsel in enumerate(frames):
                okc = len(colsel) == L and colsel == list(range(colsel[0], colsel[0] + L)) if colsel else L == 0
                centre = cols // 2
                if not okc or not const[fi] or (L >= 1 and not (colsel[0] <= centre <= colsel[-1])) or (L >= 1 and abs((centre - colsel[0]) - (colsel[-1] - centre)) > 1):
                    add(Violation("acs-lines", "%s (%s, width %d): ACS columns of frame %d are %s, expected %d contiguous columns around column %d, balanced to within one" % (name, mode, cols, fi, colsel, L, centre), {"config": cfg, "frame": fi, "observed": colsel, "expected_count": L}, {"generator": name, "kind": "acs-lines"}))
                    break
        elif cf != 0:
            m2 = acs.squeeze(0).squeeze(-1)
            while m2.dim() > 2:
                m2 = m2[0]
            cx, cy = rows // 2, cols // 2
            pts = {(int(x), int(y)) for x, y in torch.nonzero(m2)}
            bad = [(x, y) for (x, y) in pts if 0 <= 2 * cx - x < rows and 0 <= 2 * cy - y < cols and (2 * cx - x, 2 * cy - y) not in pts]
            r0 = int(math.sqrt(rows * cols * cf / math.pi))
            want = {(x, y) for x in range(rows) for y in range(cols) if (x - cx) ** 2 + (y - cy) ** 2 < r0 * r0}
            if bad or pts != want:
                add(Violation("acs-disc", "%s (%s, %dx%d, fraction %s): ACS is not the disc of radius %d around the centre sample (%d,%d), point-symmetric about it" % (name, mode, rows, cols, cf, r0, cx, cy), {"config": cfg, "asymmetric": bad[:5], "missing": sorted(want - pts)[:5], "extra": sorted(pts - want)[:5]}, {"generator": name, "kind": "acs-disc"}))
    # offset-equispaced masks: the ACS is capped by the sampling budget round(width / R), also where the request exceeds
    # it (there the sampling-mask call itself has no room for offsets and may raise; the ACS call still answers)
    for t in range(ctx.n(30, 200)):
        name = rng.choice(["FastMRIMagic", "CartesianMagic"])
        mode = rng.choice(["static", "dynamic", "multislice"])
        cols, rows = rng.randint(12, 80), rng.randint(4, 12)
        accel = rng.choice([3, 4, 6, 8])
        budget = int(round(cols / accel))
        want0 = rng.randint(max(budget, 2), min(cols - 1, 3 * budget + 2))
        cf = want0 if name.startswith("Cartesian") else rng.choice([0.3, 0.4, 0.55, 0.7])
        if not name.startswith("Cartesian") and abs(cols * cf - math.floor(cols * cf) - 0.5) < 1e-6:
            continue
        L = max(min(G.num_low(name, cols, cf), budget), 1)
        shape = ([rng.randint(1, 3)] if mode != "static" else []) + [rows, cols, 2]
        seed = rng.randrange(10**6)
        cfg = {"generator": name, "mode": mode, "shape": shape, "acceleration": accel, "center_fraction": cf, "seed": seed, "budget": budget}
        runs += 1
        try:
            mf = G.build(name, accel, cf, mode)
        except Exception:  # noqa
            continue
        a = G.call(mf, shape, seed, True, seconds=8)
        if a[0] != "ok":
            continue
        frames, const = _line_cols(a[1])
        centre = cols // 2
        for fi, colsel in enumerate(frames):
            okc = bool(colsel) and len(colsel) == L and colsel == list(range(colsel[0], colsel[0] + L))
            if not okc or not const[fi] or not (colsel[0] <= centre <= colsel[-1]) or abs((centre - colsel[0]) - (colsel[-1] - centre)) > 1:
                add(Violation("acs-lines", "%s (%s, width %d, R=%s, request %s): ACS columns of frame %d are %s, expected %d contiguous columns (request capped by the budget %d) around column %d" % (name, mode, cols, accel, cf, fi, colsel, L, budget, centre), {"config": cfg, "frame": fi, "observed": colsel, "expected_count": L}, {"generator": name, "kind": "acs-lines-capped"}))
                break
        r = G.call(mf, shape, seed, False, seconds=8)
        if r[0] == "ok" and bool((a[1] & ~r[1]).any()):
            add(Violation("acs-subset", "%s (%s): the ACS mask is not contained in the sampling mask produced with the same arguments" % (name, mode), {"config": cfg}, {"generator": name, "kind": "acs-subset"}))
    # the centre disc itself, also for grids of clinical size (640 x 368 and the like)
    import numpy as np
    from direct.common.subsample import centered_disk_mask

    for t in range(ctx.n(12, 60)):
        shape = rng.choice([(400, 368), (512, 512), (640, 368), (320, 320), (rng.randint(8, 700), rng.randint(8, 700)), (rng.randint(300, 700), rng.randint(300, 700))])
        cfr = rng.choice([0.01, 0.02, 0.04, 0.08])
        runs += 1
        try:
            d = np.asarray(centered_disk_mask(shape, cfr)).astype(bool)
        except Exception as e:  # noqa
            add(Violation("acs-disc", "centered_disk_mask(%s, %s) raises %s" % (shape, cfr, type(e).__name__), {"shape": list(shape), "fraction": cfr}, {"generator": "centered_disk_mask", "kind": "acs-disc"}))
            continue
        cx, cy = shape[0] // 2, shape[1] // 2
        r0 = int(math.sqrt(shape[0] * shape[1] * cfr / math.pi))
        X, Y = np.meshgrid(np.arange(shape[0], dtype=np.int64), np.arange(shape[1], dtype=np.int64), indexing="ij")
        ref = ((X - cx) ** 2 + (Y - cy) ** 2) < r0 * r0
        if d.shape != ref.shape or not np.array_equal(d, ref):
            extra = np.argwhere(d & ~ref)[:3].tolist() if d.shape == ref.shape else []
            add(Violation("acs-disc", "centered_disk_mask(%s, %s) is not the disc of radius %d around the centre sample (%d,%d): %d cells differ (e.g. %s)" % (shape, cfr, r0, cx, cy, int((d != ref).sum()) if d.shape == ref.shape else -1, extra), {"shape": list(shape), "fraction": cfr, "extra": extra}, {"generator": "centered_disk_mask", "kind": "acs-disc"}))
    # every generator with two (acceleration, centre fraction) pairs and the tuple seeds of the data pipeline: the two calls
    # draw the same pair, and the ACS is inside the sampling mask
    for name in G.ALL:
        for t in range(ctx.n(6, 40) * (2 if deep else 1)):
            base = G.random_config(rng, names=[name], small=True)
            multi = G.second_pair(rng, base)
            if not isinstance(multi[3], list):
                continue
            _, mode, shape, accs, cfs = multi
            seed = tuple(rng.randrange(256) for _ in range(rng.randint(1, 16))) if t % 3 else rng.randrange(10**6)
            cfg = {"generator": name, "mode": mode, "shape": shape, "acceleration": accs, "center_fraction": cfs, "seed": seed}
            runs += 1
            try:
                mf = G.build(name, accs, cfs, mode)
            except Exception:  # noqa
                continue
            chosen = []
            orig_choose = mf.choose_acceleration

            def spy2(orig_choose=orig_choose, chosen=chosen):
                r_ = orig_choose()
                chosen.append(r_)
                return r_

            mf.choose_acceleration = spy2
            r = G.call(mf, shape, seed, False, seconds=8)
            a = G.call(mf, shape, seed, True, seconds=8)
            if r[0] != "ok" or a[0] != "ok":
                continue
            if len(chosen) != 2 or chosen[0] != chosen[1]:
                add(Violation("acs-same-choice", "%s (%s): the sampling-mask call and the ACS call with seed %s draw different (centre fraction, acceleration) pairs: %s" % (name, mode, seed, chosen), {"config": cfg, "pairs_drawn": [list(map(float, c)) for c in chosen]}, {"generator": name, "kind": "acs-choice"}))
            try:
                if bool((a[1] & ~r[1]).any()):
                    add(Violation("acs-subset", "%s (%s): with two pairs and seed %s the ACS mask is not contained in the sampling mask" % (name, mode, seed), {"config": cfg}, {"generator": name, "kind": "acs-subset"}))
            except Exception:  # noqa
                pass
    ctx.oracle_runs = runs
    return out
