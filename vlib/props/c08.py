"""C08 — the training transform pipeline is scale-equivariant and self-consistent."""
import ast
import math


def _errors():
    """Exceptions a pipeline may raise: direct's own exceptions derive from BaseException."""
    from direct.exceptions import DirectException

    return (Exception, DirectException)

from .. import coqrun, py2gallina as pg, symex as X
from ..core import Corr, Untranslatable, Violation

ID = "C08"
LEVEL = "proof"
COQ_FILES = ["Tie/C08_defs.v", "Tie/C08_tie.v", "Props/C08_props.v"]
PROPS_FILES = ["C08_props.v"]
TRUSTED_BASE = [
    "vlib/symex.py (symbolic execution of the translated Python subset on the ast: the translator reads value / outcome trees, so local names, intermediates, helpers and the form of branches do not matter; its assumptions - pure expressions, opaque calls, no aliasing writes, try handlers not modelled - are listed in DESIGN.md 12.7; fail-closed)",
    "py2gallina unit 'stages': build_supervised_mri_transforms is regenerated on every run as a function from the truthiness of its parameters to a list of stages (one per constructor call, with the keys passed to it); the relative padding threshold of ComputeZeroPadding, the division of NormalizeModule and what CreateSamplingMask reads from the sample are regenerated as well; statements outside the fixed pattern make the translation fail closed",
    "coq/Model/C08.v (hand model): what each stage does to the sample, as a symbolic executor over terms; tied to the real transform classes by exact correspondence of the per-stage homogeneity degrees of every key (real Compose run stage by stage on x and 4x, compared bit-exactly)",
    "homogeneity contracts of the operations behind the terms (Proofs/C08.v, Section Sem: crop / rescale / pad / flips / coil compression are homogeneous, the padding threshold is relative, the mask generator reads only shapes, sensitivity maps are scale-free (C09), order statistics of the modulus and the reconstruction are absolutely homogeneous, safe_divide (c x) (c s) = safe_divide x s); validated by the same correspondence, not proved",
    "ESPIRiT, SVD coil compression and interpolation are exercised only where the correspondence reaches them (unit / RSS maps, nearest rescale)",
]
ASSUMPTIONS = ["c > 0", "a masking function is given and the scaling key is kspace or masked_kspace (with scaling key None nothing is normalised; with 'scaling_factor' the factor comes from the sample)", "NaN/Inf freedom is observed, not proved"]
RULE = "(configuration of build_mri_transforms, raw sample): the real pipeline run stage by stage on x and 4x; after every stage the degree of every tensor key (0: bit-identical, 1: exactly 4 times) compared with the degree of the Coq term of that key; non-trivial = at least 6 stages and a scaling key; distinct by configuration"

SRC = "direct/data/mri_transforms.py"
KEYS = {"KspaceKey.KSPACE": "Kspace", "KspaceKey.MASKED_KSPACE": "MaskedKspace", "TransformKey.KSPACE": "Kspace", "TransformKey.MASKED_KSPACE": "MaskedKspace", "TransformKey.TARGET": "Target",
        "TransformKey.SENSITIVITY_MAP": "SensMap", "TransformKey.SCALING_FACTOR": "ScalingFactor", "TransformKey.ACS_MASK": "AcsMask", "TransformKey.SAMPLING_MASK": "SamplingMask",
        "'sampling_mask'": "SamplingMask", "'acs_mask'": "AcsMask", "'padding'": "Padding", "'kspace'": "Kspace", "'masked_kspace'": "MaskedKspace", "'target'": "Target", "'sensitivity_map'": "SensMap", "'scaling_factor'": "ScalingFactor"}
SSL_KEYS = {"SSLTransformMaskPrefixes.INPUT_ + TransformKey.MASKED_KSPACE": "InputMaskedKspace", "SSLTransformMaskPrefixes.TARGET_ + TransformKey.MASKED_KSPACE": "TargetMaskedKspace", "'input_kspace'": "InputKspace"}
PYKEY = {"input_sampling_mask": "InputMask", "target_sampling_mask": "TargetMask", "input_masked_kspace": "InputMaskedKspace", "target_masked_kspace": "TargetMaskedKspace", "input_kspace": "InputKspace", "kspace": "Kspace", "masked_kspace": "MaskedKspace", "target": "Target", "sensitivity_map": "SensMap", "sampling_mask": "SamplingMask", "acs_mask": "AcsMask", "padding": "Padding", "scaling_factor": "ScalingFactor", "body_coil_image": "BodyCoil", "is_ssl": "IsSSL"}
KEY_IDX = {"InputMask": 11, "TargetMask": 12, "InputMaskedKspace": 13, "TargetMaskedKspace": 14, "InputKspace": 15, "Kspace": 0, "MaskedKspace": 1, "Target": 2, "SensMap": 3, "SamplingMask": 4, "AcsMask": 5, "Padding": 6, "ScalingFactor": 7, "BodyCoil": 8, "IsSSL": 9}
LINEAR = {"ToTensor": 0, "CropKspace": 1, "RescaleKspace": 2, "PadKspace": 3, "RandomRotation": 4, "RandomFlip": 5, "RandomReverse": 6, "CompressCoil": 7, "PadCoilDimension": 8}
COND = {"crop": "c_crop x", "rescale": "c_rescale x", "pad": "c_pad x", "random_rotation_probability > 0.0": "c_rot x", "random_flip_probability > 0.0": "c_flip x", "random_reverse_probability > 0.0": "c_reverse x",
        "padding_eps > 0.0": "c_zero_pad x", "mask_func": "c_mask x", "compress_coils": "c_compress x", "pad_coils": "c_pad_coils x", "estimate_body_coil_image and mask_func is not None": "(c_body x && c_mask x)",
        "estimate_sensitivity_maps": "c_sens x", "delete_acs_mask": "c_del_acs x", "delete_kspace": "c_del_kspace x"}


def _fail(why, node, path):
    raise Untranslatable("stages: " + why, getattr(node, "lineno", None), path)


def _key(node, path):
    t = ast.unparse(node)
    if t in KEYS:
        return KEYS[t]
    if t in SSL_KEYS:
        return SSL_KEYS[t]
    _fail("unknown sample key %s" % t, node, path)


def _kw(call, name, pos=None):
    for k in call.keywords:
        if k.arg == name:
            return k.value
    if pos is not None and len(call.args) > pos:
        return call.args[pos]
    return None


def _stage(call, path):
    """One constructor call -> Coq stage term."""
    if not isinstance(call, ast.Call):
        _fail("pipeline element is not a constructor call", call, path)
    cls = ast.unparse(call.func)
    if cls in LINEAR:
        keys = ["Kspace"]
        for kwname in ("keys_to_rotate", "keys_to_flip", "keys_to_reverse"):
            v = _kw(call, kwname)
            if v is not None:
                keys = [_key(e, path) for e in v.elts]
        for kwname in ("kspace_key", "key"):
            v = _kw(call, kwname)
            if v is not None:
                keys = [_key(v, path)]
        return "SLinear %d [%s]" % (LINEAR[cls], "; ".join(keys))
    if cls == "ComputeZeroPadding":
        return "SZeroPadCompute %s %s" % (_key(call.args[0], path), _key(call.args[1], path))
    if cls == "ApplyZeroPadding":
        return "SZeroPadApply %s %s" % (_key(call.args[0], path), _key(call.args[1], path))
    if cls == "CreateSamplingMask":
        acs = ast.unparse(_kw(call, "return_acs"))
        if acs not in COND and acs not in ("True", "False"):
            _fail("CreateSamplingMask: return_acs outside subset", call, path)
        seed = _kw(call, "use_seed")
        if seed is None or ast.unparse(seed) != "use_seed":
            _fail("CreateSamplingMask: use_seed is not forwarded", call, path)
        return "SCreateMask %s" % ({"True": "true", "False": "false"}.get(acs) or "(%s)" % COND[acs])
    if cls == "EstimateBodyCoilImage":
        return "SBodyCoil BodyCoil"
    if cls == "EstimateSensitivityMap":
        return "SSens %s SensMap" % _key(_kw(call, "kspace_key"), path)
    if cls == "DeleteKeys":
        v = _kw(call, "keys", 0)
        return "SDelete [%s]" % "; ".join(_key(e, path) for e in v.elts)
    if cls == "ApplyMask":
        return "SApplyMask %s %s %s" % (_key(_kw(call, "sampling_mask_key"), path), _key(_kw(call, "input_kspace_key"), path), _key(_kw(call, "target_kspace_key"), path))
    if cls == "ComputeScalingFactor":
        if ast.unparse(_kw(call, "normalize_key")) != "scaling_key" or ast.unparse(_kw(call, "percentile")) != "scale_percentile":
            _fail("ComputeScalingFactor: arguments outside subset", call, path)
        return "SScaling (c_scaling x) (c_percentile x) %s" % _key(_kw(call, "scaling_factor_key"), path)
    if cls == "Normalize":
        return "SNormalize %s [%s]" % (_key(_kw(call, "scaling_factor_key"), path), "; ".join(_key(e, path) for e in _kw(call, "keys_to_normalize").elts))
    if cls == "RenameKeys":
        olds, news = call.args[0].elts, call.args[1].elts
        if len(olds) != len(news):
            _fail("RenameKeys: lists of different length", call, path)
        return "SRename [%s]" % "; ".join("(%s, %s)" % (_key(o, path), _key(n, path)) for o, n in zip(olds, news))
    if cls == "ComputeImage":
        if ast.unparse(_kw(call, "type_reconstruction")) != "image_recon_type":
            _fail("ComputeImage: type_reconstruction is not the builder's image_recon_type", call, path)
        return "SImage %s %s (c_recon_sense x)" % (_key(_kw(call, "kspace_key"), path), _key(_kw(call, "target_key"), path))
    _fail("constructor %s outside subset" % cls, call, path)


def _elements(value, path):
    if isinstance(value, ast.List):
        return [_stage(e, path) for e in value.elts]
    _fail("pipeline extension is not a list literal", value, path)


def _block(stmts, path):
    """Statements that extend mri_transforms -> Coq list expression pieces."""
    pieces = []
    for s in stmts:
        u = ast.unparse(s)
        if isinstance(s, ast.Expr) and isinstance(s.value, ast.Call) and ast.unparse(s.value.func).startswith("logger."):
            continue
        if isinstance(s, ast.AugAssign) and ast.unparse(s.target) == "mri_transforms" and isinstance(s.op, ast.Add):
            pieces.append("[%s]" % "; ".join(_elements(s.value, path)))
        elif isinstance(s, ast.Expr) and isinstance(s.value, ast.Call) and ast.unparse(s.value.func) == "mri_transforms.append":
            pieces.append("[%s]" % _stage(s.value.args[0], path))
        elif isinstance(s, ast.If) and not s.orelse:
            cond = ast.unparse(s.test)
            inner = _block(s.body, path)
            if not inner:
                continue  # only a warning
            if cond not in COND:
                _fail("guard outside subset: %s" % cond, s, path)
            pieces.append("(if %s then %s else [])" % (COND[cond], " ++ ".join(inner)))
        else:
            _fail("statement outside subset: %s" % u[:70], s, path)
    return pieces


def generate(ctx):
    path = ctx.src(SRC)
    tree, _ = pg.parse_file(path)
    fn = pg.find_def(tree, "build_supervised_mri_transforms", path)
    body = pg.strip_doc(fn.body)
    # prologue: logger, the list with ToTensor; epilogue: return Compose(mri_transforms)
    start = None
    for i, s in enumerate(body):
        if isinstance(s, (ast.AnnAssign, ast.Assign)) and ast.unparse(s.targets[0] if isinstance(s, ast.Assign) else s.target) == "mri_transforms":
            start = i
            break
    if start is None or ast.unparse(body[-1]) != "return Compose(mri_transforms)":
        _fail("prologue / epilogue of build_supervised_mri_transforms outside subset", fn, path)
    for s in body[:start]:
        if not (isinstance(s, ast.Assign) and ast.unparse(s.targets[0]) == "logger"):
            _fail("statement before the pipeline list outside subset", s, path)
    first = body[start].value
    pieces = ["[%s]" % "; ".join(_elements(first, path))] + _block(body[start + 1 : -1], path)
    out = "From DV Require Import Model.C08.\nFrom Coq Require Import QArith String.\n"
    out += "Definition gen_stages (x : cfg) : list stage :=\n  %s.\n" % "\n  ++ ".join(pieces)
    # build_mri_transforms (supervised): forwards its parameters and appends the is_ssl flag
    fm = pg.find_def(tree, "build_mri_transforms", path)
    src = ast.unparse(fm)
    call = [n for n in ast.walk(fm) if isinstance(n, ast.Call) and ast.unparse(n.func) == "build_supervised_mri_transforms"]
    if len(call) != 1:
        _fail("build_mri_transforms does not call build_supervised_mri_transforms exactly once", fm, path)
    for k in call[0].keywords:
        v = ast.unparse(k.value)
        if k.arg in ("delete_acs_mask", "delete_kspace"):
            if v != "%s if transforms_type == TransformsType.SUPERVISED else False" % k.arg:
                _fail("build_mri_transforms: %s is not forwarded" % k.arg, call[0], path)
        elif v != k.arg:
            _fail("build_mri_transforms: parameter %s is not forwarded unchanged" % k.arg, call[0], path)
    if "mri_transforms += [AddBooleanKeysModule(['is_ssl'], [transforms_type != TransformsType.SUPERVISED])]" not in src:
        _fail("build_mri_transforms: is_ssl flag outside subset", fm, path)
    out += "Definition gen_supervised (x : cfg) : list stage := gen_stages x ++ [SFlag IsSSL].\n"
    # the self-supervised tail of build_mri_transforms
    fb = pg.strip_doc(fm.body)
    ret_idx = [i for i, st in enumerate(fb) if isinstance(st, ast.If) and ast.unparse(st.test) == "transforms_type == TransformsType.SUPERVISED" and ast.unparse(st.body[0]) == "return Compose(mri_transforms)"]
    if len(ret_idx) != 1 or ast.unparse(fb[-1]) != "return Compose(mri_transforms)":
        _fail("build_mri_transforms: supervised return / final return outside subset", fm, path)
    tail = fb[ret_idx[0] + 1 : -1]
    if not (isinstance(tail[0], ast.Assign) and ast.unparse(tail[0].targets[0]) == "mask_splitter_kwargs" and isinstance(tail[0].value, ast.Dict)):
        _fail("build_mri_transforms: mask_splitter_kwargs not found", fm, path)
    kw = {ast.literal_eval(k): ast.unparse(v) for k, v in zip(tail[0].value.keys, tail[0].value.values)}
    if kw.get("kspace_key") != "KspaceKey.MASKED_KSPACE" or kw.get("use_seed") != "use_seed" or sorted(kw) != ["acs_region", "keep_acs", "kspace_key", "ratio", "use_seed"]:
        _fail("build_mri_transforms: mask splitter arguments outside subset", tail[0], path)
    ssl_pieces = []
    for st in tail[1:]:
        if not (isinstance(st, ast.AugAssign) and ast.unparse(st.target) == "mri_transforms" and isinstance(st.value, ast.List)):
            _fail("build_mri_transforms: statement of the self-supervised tail outside subset", st, path)
        for el in st.value.elts:
            if isinstance(el, ast.IfExp):
                alts, node = [], el
                while isinstance(node, ast.IfExp):
                    alts.append(node.body)
                    node = node.orelse
                alts.append(node)
                names = sorted(ast.unparse(a.func) for a in alts)
                if names != ["GaussianMaskSplitter", "HalfMaskSplitterModule", "UniformMaskSplitter"] or not all("mask_splitter_kwargs" in ast.unparse(a) for a in alts):
                    _fail("build_mri_transforms: the three mask splitters are not built from mask_splitter_kwargs", el, path)
                ssl_pieces.append("SSplit SamplingMask MaskedKspace AcsMask")
            else:
                ssl_pieces.append(_stage(el, path))
    out += "Definition gen_ssl_tail (x : cfg) : list stage := [%s].\n" % "; ".join(ssl_pieces)
    # the splitter module: which keys it reads and writes
    sp, _ = pg.parse_file(ctx.src("direct/ssl/ssl.py"))
    fwd = ast.unparse(pg.find_def(sp, "MaskSplitter.forward", ctx.src("direct/ssl/ssl.py")))
    for needle in ("sampling_mask = sample['sampling_mask'].clone()", "kspace = sample[self.kspace_key].clone()", "acs_mask = sample['acs_mask'].clone() if self.keep_acs else None",
                   "sample[SSLTransformMaskPrefixes.INPUT_ + self.kspace_key], _ = apply_mask(kspace, input_mask)", "sample[SSLTransformMaskPrefixes.TARGET_ + self.kspace_key], _ = apply_mask(kspace, target_mask)",
                   "sample[SSLTransformMaskPrefixes.INPUT_ + TransformKey.SAMPLING_MASK] = input_mask", "sample[SSLTransformMaskPrefixes.TARGET_ + TransformKey.SAMPLING_MASK] = target_mask"):
        if needle not in fwd:
            _fail("MaskSplitter.forward: `%s` not found" % needle, None, ctx.src("direct/ssl/ssl.py"))
    # ComputeZeroPadding: relative threshold
    zp = pg.find_def(tree, "ComputeZeroPadding.__call__", path)
    tests = [n for n in ast.walk(zp) if isinstance(n, ast.Assign) and ast.unparse(n.targets[0]) == "padding" and isinstance(n.value, ast.Call)]
    cmpn = None
    for n in ast.walk(zp):
        if isinstance(n, ast.Compare) and ast.unparse(n.left) == "kspace":
            cmpn = n
    if cmpn is None or len(cmpn.ops) != 1 or not isinstance(cmpn.ops[0], ast.Lt):
        _fail("ComputeZeroPadding: threshold test not found", zp, path)

    def q(node):
        t = ast.unparse(node)
        if t == "kspace":
            return "a"
        if t == "torch.mean(kspace)":
            return "m"
        if t == "self.eps":
            return "eps"
        if isinstance(node, ast.BinOp) and isinstance(node.op, ast.Mult):
            return "(%s * %s)" % (q(node.left), q(node.right))
        if isinstance(node, ast.BinOp) and isinstance(node.op, ast.Add):
            return "(%s + %s)" % (q(node.left), q(node.right))
        _fail("ComputeZeroPadding: threshold expression outside subset: %s" % t, node, path)

    out += "Definition gen_pad_test (a m eps : Q) : Prop := (a < %s)%%Q.\n" % q(cmpn.comparators[0])
    zsrc = ast.unparse(zp)
    if "kspace = T.modulus(sample[self.kspace_key].clone()).sum(coil_dim)" not in zsrc:
        _fail("ComputeZeroPadding: the tested quantity is not the coil sum of the modulus", zp, path)
    # The three module pins below are read off a symbolic execution (vlib/symex.py): helpers, local names and the form of
    # the branches do not matter.
    S = lambda n: ("sym", n)
    me, sample = S("self"), S("sample")
    # ComputeImageModule: the SENSE-type reconstructions (and only they) read the sensitivity map
    t, _n = X.run_function(tree, path, "ComputeImageModule.forward")
    sens_read = ("sub", sample, X.const("sensitivity_map"))
    rtype = ("attr", me, "type_reconstruction")
    RT = lambda n: ("attr", S("ReconstructionType"), n)
    saw_sense = False
    for conds, lf in X.leaves(X.lift_ife(X.drop_do(t))):
        # which reconstruction types can reach this leaf: those not excluded by the tests on the path
        possible = {"IFFT", "COMPLEX", "COMPLEX_MOD", "RSS", "SENSE", "SENSE_MOD"}
        for c, pol in conds:
            named = None
            if c[0] == "cmp" and c[2] == rtype and c[1] == "==" and c[3][0] == "attr" and c[3][1] == S("ReconstructionType"):
                named = {c[3][2]}
            elif c[0] == "cmp" and c[2] == rtype and c[1] == "in" and c[3][0] in ("list", "tuple"):
                named = {x[2] for x in c[3][1] if x[0] == "attr"}
            if named is not None:
                possible = possible & named if pol else possible - named
        reads = bool(X.find_nodes(lf, lambda v: v == sens_read)) if lf[0] == "ret" else False
        sense_only = possible <= {"SENSE", "SENSE_MOD"}
        if reads and not sense_only:
            _fail("ComputeImageModule.forward: a reconstruction other than the SENSE types reads the sensitivity map (%s)" % sorted(possible), None, path)
        if possible & {"SENSE", "SENSE_MOD"} and lf[0] == "ret":
            if not reads or not sense_only:
                _fail("ComputeImageModule.forward: which reconstructions read the sensitivity map is outside the subset", None, path)
            if not any(c == ("cmp", "notin", X.const("sensitivity_map"), sample) and not pol for c, pol in conds) and not any(c == ("cmp", "in", X.const("sensitivity_map"), sample) and pol for c, pol in conds):
                _fail("ComputeImageModule.forward: the sensitivity map is read without testing that it is in the sample", None, path)
            saw_sense = True
    if not saw_sense:
        _fail("ComputeImageModule.forward: no SENSE-type branch found", None, path)
    # NormalizeModule: every key to normalise is divided by the (per-sample) scaling factor, the others are left alone
    hits, stopped = X.watch_calls(tree, path, "NormalizeModule.forward", ["safe_divide"])
    loops = hits["$loops"]
    if len(loops) != 1:
        _fail("NormalizeModule.forward outside subset: not one loop over the sample (%s)" % stopped, None, path)
    L = loops[0]
    d = L["depth"]
    key = ("bv", d)
    if L["iter"] in (("call", ("attr", sample, "items"), (), ()),):
        key = ("sub", ("bv", d), X.const(0))
    elif L["iter"] not in (("call", ("attr", sample, "keys"), (), ()), sample):
        _fail("NormalizeModule.forward outside subset: the loop is not over the keys of the sample", None, path)
    sf = X.parse_expr("sample.get(self.scaling_factor_key, None)")
    hs = ("havoc", "sample", d)
    per_sample = lambda v: v[0] == "call" and v[1] == ("attr", sf, "reshape") and v[2][:1] == (X.const(-1),) and len(v[2]) == 2 and v[2][1][0] == "star"
    ok_div = ok_skip = False
    for kind, conds, env in L["paths"]:
        listed = [pol for c, pol in conds if c in (("cmp", "notin", key, ("attr", me, "keys_to_normalize")), ("cmp", "in", key, ("attr", me, "keys_to_normalize")))]
        neg = [c[1] == "notin" for c, pol in conds if c[0] == "cmp" and c[3] == ("attr", me, "keys_to_normalize")]
        if len(listed) != 1:
            _fail("NormalizeModule.forward outside subset: a path does not decide whether the key is to be normalised", None, path)
        is_listed = (not listed[0]) if neg[0] else listed[0]
        v = env.get("sample")
        if is_listed:
            good = v is not None and v[0] == "set" and v[1] == hs and v[2] == key and v[3][0] == "call" and v[3][1] == ("attr", S("T"), "safe_divide") and v[3][2][0] == ("sub", hs, key) and per_sample(v[3][2][1])
            if not good:
                _fail("NormalizeModule.forward outside subset: a key to normalise is not divided by the scaling factor of its sample: %s" % (X.show(v)[:120] if v else None), None, path)
            ok_div = True
        else:
            if v != hs:
                _fail("NormalizeModule.forward outside subset: a key that is not to be normalised is changed", None, path)
            ok_skip = True
    if not (ok_div and ok_skip):
        _fail("NormalizeModule.forward outside subset", None, path)
    # CreateSamplingMask: what is read from the sample; the seed is derived from the file name alone
    t, _n = X.run_function(tree, path, "CreateSamplingMask.__call__")
    hits, stopped = X.watch_calls(tree, path, "CreateSamplingMask.__call__", ["mask_func"])
    reads = set()
    for v in X.find_nodes(t, lambda v: (v[0] == "sub" and v[1] == sample and X.is_const(v[2])) or (v[0] == "cmp" and v[1] in ("in", "notin") and v[3] == sample and X.is_const(v[2]))):
        reads.add(v[2][1])
    reads.discard("sampling_mask")
    reads.discard("acs_mask")
    kshape = ("attr", ("sub", sample, X.const("kspace")), "shape")
    uses = X.find_nodes(t, lambda v: v == ("sub", sample, X.const("kspace")))
    shapes = X.find_nodes(t, lambda v: v == kshape)
    if len(uses) != len(shapes):
        _fail("CreateSamplingMask reads more than the shape of the k-space", None, path)
    want_seed = X.parse_expr("tuple(map(ord, str(sample['filename']))) if self.use_seed else None")
    if not hits["mask_func"]:
        _fail("CreateSamplingMask: the mask function is never called (%s)" % stopped, None, path)
    for conds, args, kw in hits["mask_func"]:
        sd = dict(kw).get("seed")
        use = [pol for c, pol in conds if c == ("attr", me, "use_seed")]
        path_form = (use == [True] and sd == want_seed[2]) or (use == [False] and sd == X.NONE)
        if sd != want_seed and not path_form:
            _fail("CreateSamplingMask: the seed is not derived from the file name alone: %s" % (X.show(sd)[:100] if sd else None), None, path)
    out += "Open Scope string_scope.\nDefinition gen_mask_reads : list string := [%s].\n" % "; ".join('"%s"' % r for r in sorted(reads))
    return [pg.write_gen(ctx, "C08_gen", out)]


# --------------------------------------------------------------------------------------------------- correspondence
PRE = "From DV Require Import Base.Tactics Model.C08.\nFrom G Require Import C08_gen C08_defs.\n"
FLAGS = ["crop", "rescale", "pad", "rot", "flip", "reverse", "zero_pad", "mask", "compress", "pad_coils", "body", "sens", "del_acs", "del_kspace"]


def gen_cases(ctx):
    rng = ctx.rng
    cases = []
    for _ in range(ctx.n(120, 1500)):
        c = {f: rng.random() < 0.5 for f in FLAGS}
        c["mask"] = rng.random() < 0.85
        c["rot"] = c["flip"] = c["reverse"] = False  # SystemRandom-driven augmentations: not reproducible across two runs
        c["three"] = rng.random() < 0.15
        c["rescale"] = c["rescale"] and rng.random() < 0.3 and not c["three"]  # 2-D rescale of 3-D data is a separate option
        if c["crop"] and rng.random() < 0.85:
            c["pad"] = False  # the mask is generated for the crop shape: crop followed by pad is rejected by the pipeline
        if c["three"]:
            c["pad"] = False
        c["scaling"] = rng.choice(["masked_kspace", "masked_kspace", "kspace", None])
        c["percentile"] = rng.random() < 0.7
        c["coils"] = rng.randint(1, 5)
        c["h"], c["w"] = rng.randint(8, 20), rng.randint(8, 20)
        c["sens_type"] = rng.choice(["rss_estimate", "rss_estimate", "unit"])
        c["recon"] = rng.choice(["rss", "complex", "complex_mod", "sense", "sense_mod"]) if c["sens"] else rng.choice(["rss", "rss", "complex", "complex_mod", "sense"])
        c["seed"] = rng.randrange(10**6)
        c["full_mask"] = rng.random() < 0.12
        c["ssl"] = rng.random() < 0.25
        c["two_pairs"] = rng.random() < 0.3
        c["slices"] = rng.choice([2, 3, 4])
        # optional Gaussian weighting of the ACS region before the maps are estimated (None / 0 switch it off)
        c["sens_gauss"] = rng.choice([None, None, 0.3, 0.7, 2.0]) if c["sens"] else None
        cases.append(c)
    return cases


def cfg_term(c):
    sk = {"masked_kspace": "(SKData MaskedKspace)", "kspace": "(SKData Kspace)", None: "SKNone", "scaling_factor": "SKGiven"}[c["scaling"]]
    b = lambda v: "true" if v else "false"  # noqa: E731
    return "(Build_cfg %s %s %s %s)" % (" ".join(b(c[f]) for f in FLAGS), sk, b(c["percentile"]), b(c["recon"] in ("sense", "sense_mod")))


def build_pipeline(c, supervised=True, **extra):
    from .. import shims

    shims.install()
    from direct.common.subsample import build_masking_function
    from direct.data import mri_transforms as M
    from direct.data.transforms import fft2, ifft2

    # acceleration 1 samples everything: masked k-space and k-space then hold the same values
    if c.get("two_pairs") and not c.get("full_mask"):
        # which pair a sample gets is part of what the file name decides, for the sampling mask and for the ACS mask alike
        mf = build_masking_function("FastMRIRandom", accelerations=[3, 2], center_fractions=[0.25, 0.4]) if c["mask"] else None
    else:
        mf = build_masking_function("FastMRIRandom", accelerations=[1 if c.get("full_mask") else 3], center_fractions=[0.25]) if c["mask"] else None
    kw = dict(forward_operator=fft2, backward_operator=ifft2, mask_func=mf,
              crop=(c["h"] - 2, c["w"] - 3) if c["crop"] else None, rescale=(c["h"], c["w"] + 2) if c["rescale"] else None, pad=(c["h"] + 3, c["w"] + 4) if c["pad"] else None,
              padding_eps=0.0001 if c["zero_pad"] else 0.0, estimate_body_coil_image=c["body"], estimate_sensitivity_maps=c["sens"], sensitivity_maps_type=M.SensitivityMapType(c["sens_type"]),
              delete_acs_mask=c["del_acs"], delete_kspace=c["del_kspace"], image_recon_type=M.ReconstructionType(c["recon"]), compress_coils=max(1, c["coils"] - 1) if c["compress"] else None,
              pad_coils=c["coils"] + 2 if c["pad_coils"] else None, scaling_key=c["scaling"], scale_percentile=0.99 if c["percentile"] else None, use_seed=True,
              sensitivity_maps_gaussian=c.get("sens_gauss"))
    kw.update(extra)
    return M.build_mri_transforms(**kw)


def _ssl_kwargs(c):
    if not c.get("ssl"):
        return {}
    from direct.data import mri_transforms as M
    from direct.ssl.ssl import MaskSplitterType

    return dict(transforms_type=M.TransformsType.SSL_SSDU, mask_split_ratio=0.4, mask_split_type=MaskSplitterType(c.get("split", "gaussian")), mask_split_keep_acs=bool(c.get("keep_acs")))


def raw_sample(c, scale=1.0, name="file_a.h5", slice_no=3):
    import numpy as np

    r = np.random.RandomState(c["seed"])
    shape = (c["coils"],) + ((c.get("slices", 3),) if c["three"] else ()) + (c["h"], c["w"])
    k = (r.randn(*shape) + 1j * r.randn(*shape)).astype(np.complex64)
    k[..., : c["w"] // 5] = 0  # a zero-padded border
    # coils far from the anatomy receive little signal: gains over four orders of magnitude
    gains = np.concatenate([[1.0], 10.0 ** (-4.0 * r.rand(c["coils"] - 1))]).astype(np.float32)
    k = k * gains.reshape((-1,) + (1,) * (k.ndim - 1))
    return {"kspace": k * np.float32(scale), "filename": name, "slice_no": slice_no}


def staged(pipeline, sample):
    """Run the Compose stage by stage; returns the list of samples after each stage (tensors cloned) or the exception."""
    import torch

    out = []
    s = sample
    for t in pipeline.transforms:
        s = t(s)
        out.append({str(getattr(k, "value", k)): (v.clone() if torch.is_tensor(v) else v) for k, v in s.items()})
    return out


def empirical_degrees(a, b, factor):
    import torch

    degs = {}
    for k, v in a.items():
        if k not in PYKEY or not torch.is_tensor(v):
            continue
        w = b.get(k)
        if w is None or w.shape != v.shape:
            degs[PYKEY[k]] = -2
        elif v.dtype == torch.bool:
            degs[PYKEY[k]] = 0 if torch.equal(v, w) else -2
        else:
            same, scaled = torch.equal(v, w), torch.equal(v * factor, w)
            degs[PYKEY[k]] = 0 if same and not scaled else 1 if scaled and not same else (0 if same else -2)  # all-zero tensors count as degree 0
            if same and scaled:
                degs[PYKEY[k]] = -1  # identically zero: any degree
    return degs


def correspond(ctx):
    import torch

    torch.set_num_threads(2)
    corr = Corr()
    corr.rule = RULE
    cases = gen_cases(ctx)
    impls, terms, keep = [], [], []
    for c in cases:
        try:
            p = build_pipeline(c, **_ssl_kwargs(c))
            a = staged(p, raw_sample(c, 1.0))
            b = staged(p, raw_sample(c, 4.0))
            impl = [sorted((KEY_IDX[k], d) for k, d in empirical_degrees(x, y, 4.0).items()) for x, y in zip(a, b)]
        except _errors() as e:  # noqa
            impl = ("raises", type(e).__name__, str(e)[:100])
        impls.append(impl)
        keep.append(c)
        terms.append("deg_trace (%s %s)" % ("gen_ssl" if c["ssl"] else "gen_supervised", cfg_term(c)))
    vals = coqrun.eval_sharded("c08_cases", PRE, terms, ctx.work, gen_dir=ctx.gen_dir, shard=200)
    ctx._c08 = []
    for c, im, mv in zip(keep, impls, vals):
        ok, trace = mv[0], mv[1]
        corr.dist("scaling_key", str(c["scaling"]))
        corr.dist("mask", c["mask"])
        short = {k: c[k] for k in FLAGS + ["scaling", "percentile", "coils", "h", "w", "three", "sens_type", "recon", "seed", "ssl"]}
        corr.dist("pipeline", "ssl" if c["ssl"] else "supervised")
        if isinstance(im, tuple):
            # the real pipeline also rejects configurations for reasons the model does not know (geometry of rescale / pad
            # for this sample, SVD of a rank-deficient matrix): counted, not compared; a model failure must be an impl failure
            corr.dist("verdict", "impl-raises(%s)/model-%s" % (im[1], "fails" if not ok else "runs"))
            corr.count(short, False)
            continue
        corr.dist("verdict", "both-run" if ok else "impl-runs/model-fails")
        model = [sorted((int(k), int(d)) for k, d in st) for st in trace]
        # identically-zero tensors (degree -1) are compatible with any model degree
        impl_n = [[(k, d) for k, d in st] for st in im]
        model_n = []
        for st_i, st_m in zip(impl_n, model):
            wild = {k for k, d in st_i if d == -1}
            model_n.append([(k, (-1 if k in wild else d)) for k, d in st_m])
        if len(model) != len(impl_n):
            model_n = model
        corr.compare(short, impl_n if ok else ["runs"], model_n if ok else ["fails"], nontrivial=len(im) >= 6 and c["scaling"] is not None)
    return corr


# --------------------------------------------------------------------------------------------------- oracles
def oracles(ctx, deep):
    import numpy as np
    import torch

    torch.set_num_threads(2)
    out, seen, runs = [], set(), 0

    def add(v):
        if v.key() not in seen:
            seen.add(v.key())
            out.append(v)

    from .. import shims

    shims.install(ctx.repo)
    from direct.data import mri_transforms as M
    from direct.data import transforms as T
    from direct.data.transforms import ifft2

    def per_sample_crop(c, short):
        # the same pipeline object serves every sample of a data set: a later sample of another matrix size must be
        # treated according to its own size (crop given by the sample's reconstruction size, 3-D volumes of other depth)
        try:
            # 2-D data: the crop is named by the sample (reconstruction size); 3-D data: an in-plane crop tuple, the
            # volumes differ in their number of slices
            by_key = c["crop"] and not c["three"]
            kw2 = dict(crop="reconstruction_size") if by_key else {}
            p2 = build_pipeline(c, **kw2)
            outs2 = []
            for (dh, dw, ds, nm) in ((0, 0, 0, "file_a.h5"), (4, 2, 2, "file_b.h5"), (2, 6, 1, "file_c.h5")):
                if c["three"] and c["crop"]:
                    dh = dw = 0
                c2 = dict(c, h=c["h"] + dh, w=c["w"] + dw, slices=c.get("slices", 3) + ds)
                smp = raw_sample(c2, 1.0, nm, 1)
                rs = (c2["h"] - 2, c2["w"] - 3)
                if by_key:
                    smp["reconstruction_size"] = rs + (1,)
                o = {str(getattr(k, "value", k)): v for k, v in p2(smp).items()}
                want = rs if c["crop"] else (c2["h"], c2["w"])
                got = tuple(o["masked_kspace"].shape[-3:-1])
                if c["three"] and o["masked_kspace"].shape[1] != c2["slices"]:
                    add(Violation("crop-shape", "a pipeline that has served other volumes returns %d slices for a volume of %d slices (2-D crop)" % (o["masked_kspace"].shape[1], c2["slices"]), {"config": short, "slices": c2["slices"], "earlier_samples": len(outs2)}, {"kind": "crop-per-sample-slices"}))
                if got != tuple(want):
                    add(Violation("crop-shape", "a pipeline that has served other samples returns spatial shape %s for a sample whose %s is %s" % (list(got), "reconstruction size" if c["crop"] else "matrix size", list(want)), {"config": short, "sample_shape": [c2["h"], c2["w"]], "earlier_samples": len(outs2)}, {"kind": "crop-per-sample"}))
                outs2.append(got)
        except _errors():  # noqa
            pass

    base_cfg = {f: False for f in FLAGS}
    base_cfg.update(mask=True, crop=True, sens=True, zero_pad=True, scaling="masked_kspace", percentile=True, coils=2, h=14, w=13, sens_type="rss_estimate", recon="rss", seed=7, full_mask=False, two_pairs=False, slices=2, ssl=False)
    for three in (False, True):
        cf = dict(base_cfg, three=three)
        per_sample_crop(cf, {k: v for k, v in cf.items() if v})
        runs += 1
    rng = ctx.rng
    cases = gen_cases(ctx)
    if deep:
        cases = cases + gen_cases(ctx)
    for c in cases:
        if not c["mask"] or c["scaling"] is None:
            continue
        ssl = rng.random() < 0.25
        short = {k: c[k] for k in FLAGS + ["scaling", "percentile", "coils", "h", "w", "three", "sens_type", "recon", "seed", "full_mask"]}
        short["ssl"] = ssl
        short["sens_gauss"] = c.get("sens_gauss")
        extra = {}
        if ssl:
            extra = dict(transforms_type=M.TransformsType.SSL_SSDU, mask_split_ratio=0.4)
        try:
            p = build_pipeline(c, **extra)
            base = p(raw_sample(c, 1.0))
        except _errors() as e:  # noqa
            # configurations the builder rejects (e.g. sensitivity estimation without ACS) are not claimed
            continue
        runs += 1
        kexp = rng.choice([-30, -24, -16, -8, -3, -1, 1, 2, 5, 8, 20])  # also magnitudes far from one (raw scanner units)
        creal = rng.choice([0.37, 1.9, 123.4])
        # image-domain zero padding leaves regions without signal, where RSS-estimated maps (and SENSE-type images built on
        # them) are quotients of rounding noise: there only dyadic factors (which commute with every float operation) apply
        # (the same holds for SVD coil compression: the singular vectors are determined up to a sign / a rotation in
        # degenerate subspaces, and which one LAPACK returns depends on the rounding of its input)
        factors = ((2.0**kexp, True),) if (c["pad"] or c["compress"]) else ((2.0**kexp, True), (creal, False))
        for factor, exact in factors:
            try:
                other = p(raw_sample(c, factor))
            except _errors() as e:  # noqa
                add(Violation("pipeline-raises", "the pipeline accepts a sample but raises %s when it is multiplied by %g" % (type(e).__name__, factor), {"config": short, "factor": factor}, {"kind": "raises-scaled"}))
                continue
            for k, v in base.items():
                ks = str(getattr(k, "value", k))
                w = {str(getattr(k2, "value", k2)): v2 for k2, v2 in other.items()}.get(ks)
                if not torch.is_tensor(v):
                    continue
                if w is None or w.shape != v.shape:
                    add(Violation("scale-equivariant", "output key %s changes shape / disappears when the input is multiplied by %g" % (ks, factor), {"config": short, "factor": factor, "key": ks}, {"kind": "shape", "key": ks}))
                    continue
                if not bool(torch.isfinite(v.float()).all()):
                    add(Violation("finite-output", "output %s contains NaN/Inf" % ks, {"config": short, "key": ks}, {"kind": "nonfinite", "key": ks}))
                    continue
                # the body-coil image is not among the keys the supervised builder normalises (see DESIGN.md): degree 1
                want = v * factor if ks in ("scaling_factor", "body_coil_image") else v
                if v.dtype == torch.bool:
                    good = torch.equal(v, w)
                elif exact:
                    good = torch.equal(want, w)
                else:
                    good = bool(torch.allclose(want, w, rtol=2e-4, atol=2e-5 * max(float(want.abs().max()), 1e-30)))
                if not good:
                    add(Violation("scale-equivariant", "multiplying the raw k-space by %g changes output %s (%s comparison; max diff %.3g)" % (factor, ks, "bit-exact" if exact else "1e-4 relative", float((want.float() - w.float()).abs().max())), {"config": short, "factor": factor, "key": ks}, {"kind": "value", "key": ks}))
        # the same sample once more through the same pipeline object: the earlier calls must have left nothing behind
        try:
            again = p(raw_sample(c, 1.0))
            for k, v in base.items():
                ks = str(getattr(k, "value", k))
                w = {str(getattr(k2, "value", k2)): v2 for k2, v2 in again.items()}.get(ks)
                if torch.is_tensor(v) and (w is None or w.shape != v.shape or not torch.equal(torch.nan_to_num(v.float()), torch.nan_to_num(w.float()))):
                    add(Violation("pipeline-object-history", "the same sample through the same pipeline object a second time (after %d other calls) gives another %s" % (len(factors), ks), {"config": dict(short, sens_gauss=c.get("sens_gauss")), "key": ks}, {"kind": "history", "key": ks}))
        except _errors() as e:  # noqa
            add(Violation("pipeline-raises", "the pipeline raises %s for a sample it has served before" % type(e).__name__, {"config": short}, {"kind": "raises-again"}))
        # self-consistency of the outputs
        b = {str(getattr(k, "value", k)): v for k, v in base.items()}
        if not ssl:
            if "kspace" in b and "masked_kspace" in b and "sampling_mask" in b:
                ref = torch.where(b["sampling_mask"] == 0, torch.zeros(1), b["kspace"])
                if not torch.equal(ref, b["masked_kspace"]):
                    add(Violation("masked-is-mask-times-kspace", "masked_kspace differs from sampling_mask x normalised k-space (max %.3g)" % float((ref - b["masked_kspace"]).abs().max()), {"config": short}, {"kind": "masked"}))
            if "kspace" in b and "target" in b:
                dim = (1, 2) if not c["three"] else (2, 3)
                try:
                    # written out here, independently of ComputeImageModule
                    img = T.ifft2(b["kspace"], dim=dim)
                    vcx = torch.view_as_complex
                    if c["recon"] == "rss":
                        ref = (img**2).sum(-1).sum(0).sqrt()
                    elif c["recon"] in ("complex", "complex_mod"):
                        ref = img.sum(0)
                    else:
                        if "sensitivity_map" not in b:
                            raise KeyError("sensitivity_map")
                        ref = torch.view_as_real((vcx(b["sensitivity_map"].contiguous()).conj() * vcx(img.contiguous())).sum(0))
                    if c["recon"] in ("complex_mod", "sense_mod"):
                        ref = (ref**2).sum(-1).sqrt()
                    if ref.shape != b["target"].shape or not torch.allclose(ref, b["target"], rtol=1e-4, atol=1e-5 * max(1.0, float(ref.abs().max()))):
                        add(Violation("target-from-normalised", "target (%s) differs from the reconstruction of the normalised fully sampled k-space (max diff %.3g)" % (c["recon"], float((ref - b["target"]).abs().max()) if ref.shape == b["target"].shape else -1), {"config": short}, {"kind": "target", "recon": c["recon"]}))
                except (KeyError, RuntimeError):  # noqa
                    pass
            if c["crop"] and not c["rescale"] and not c["pad"] and "masked_kspace" in b:
                want = (c["h"] - 2, c["w"] - 3)
                if tuple(b["masked_kspace"].shape[-3:-1]) != want:
                    add(Violation("crop-shape", "masked_kspace has spatial shape %s, requested crop %s" % (list(b["masked_kspace"].shape[-3:-1]), list(want)), {"config": short}, {"kind": "crop"}))
        if not ssl and not c["rescale"] and not c["pad"] and not c["compress"]:
            per_sample_crop(c, short)
        # all slices of a file get the same mask; another file may get another one
        try:
            key = "sampling_mask" if not ssl else None
            if key:
                m1 = {str(getattr(k, "value", k)): v for k, v in p(raw_sample(c, 1.0, "file_a.h5", 3)).items()}[key]
                c2 = dict(c, seed=c["seed"] + 1)
                m2 = {str(getattr(k, "value", k)): v for k, v in p(raw_sample(c2, 1.0, "file_a.h5", 9)).items()}[key]
                if not c["zero_pad"] and not torch.equal(m1, m2):
                    add(Violation("mask-per-file", "two slices of the same file name receive different sampling masks", {"config": short}, {"kind": "mask-file"}))
        except _errors():  # noqa
            pass
    ctx.oracle_runs = runs
    return out
