"""C09 — estimated and refined sensitivity maps are normalised and finite."""
import ast
import functools
from fractions import Fraction

from .. import coqrun, py2gallina as pg, symex as X
from ..core import Corr, Untranslatable, Violation

ID = "C09"
LEVEL = "proof"
COQ_FILES = ["Tie/C09_defs.v", "Tie/C09_tie.v", "Props/C09_props.v"]
PROPS_FILES = ["C09_props.v"]
TRUSTED_BASE = [
    "vlib/symex.py (symbolic execution of the translated Python subset on the ast: the translator reads value / outcome trees, so local names, intermediates, helpers and the form of branches do not matter; its assumptions - pure expressions, opaque calls, no aliasing writes, try handlers not modelled - are listed in DESIGN.md 12.7; fail-closed)",
    "py2gallina unit 'sens norm' (structure of the RSS-estimate branch and of the renormalisation tail of EstimateSensitivityMapModule.forward and of MRIModelEngine.compute_sensitivity_map: sqrt of the sum over complex and coil axes of squares, safe_divide by it)",
    "Coq's classical real numbers (Reals): sqrt with sqrt x * sqrt x = x for x >= 0; the theorems are about exact real arithmetic - float under/overflow of the squares and rounding (sum = 1 only to 1e-4) are observed by oracles, not proved",
    "torch broadcasting / unsqueeze / sum over axes: the maps are normalised independently at every spatial location (harness flattens to locations)",
    "simulate_sensitivity_maps and the ESPIRiT calibration are only exercised (finite, unit sum) by oracles",
]
ASSUMPTIONS = ["exact real arithmetic", "safe_divide yields 0 where the divisor is 0 (C02)"]
RULE = "RSS-estimate and engine renormalisation on coil vectors whose root-sum-of-squares is a power of two (exact in binary), zero coils, one coil, empty ACS, 2-D and 3-D; compared exactly with the real-number model evaluated over Q with an exact square root; non-trivial = at least one non-zero coil; distinct by configuration"


NORM = "torch.sqrt((sensitivity_map ** 2).sum(self.%s).sum(self.%s))"


S = lambda n: ("sym", n)
TMOD = S("T")


def _meth(o, m, *args):
    return ("call", ("attr", o, m), tuple(args), ())


def _norm_of(x, coil, cplx):
    """sqrt of the squares summed over the complex and the coil axis, broadcast back (both spellings of sqrt)."""
    ss = _meth(_meth(("bin", "**", x, X.const(2)), "sum", cplx), "sum", coil)
    return [_meth(_meth(r, "unsqueeze", coil), "unsqueeze", cplx) for r in (("call", ("attr", S("torch"), "sqrt"), (ss,), ()), _meth(ss, "sqrt"))]


def _normalised(v, coil, cplx, what, path):
    """v is safe_divide(x, norm(x)); returns x."""
    if not (v[0] == "call" and v[1] in (("attr", TMOD, "safe_divide"), S("safe_divide")) and len(v[2]) == 2 and not v[3]):
        raise Untranslatable("%s: the result is not a safe_divide: %s" % (what, X.show(v)[:100]), None, path)
    x, n = v[2]
    if n not in _norm_of(x, coil, cplx):
        raise Untranslatable("%s: the divisor is not the root-sum-of-squares over coils of what is divided: %s" % (what, X.show(n)[:140]), None, path)
    return x


def generate(ctx):
    """Every way out of the two map computations is `normalise` of Model/C09.v applied to something (symbolic execution,
    vlib/symex.py: named intermediates, helpers and the order of independent statements do not matter)."""
    path = ctx.src("direct/data/mri_transforms.py")
    tree, _ = pg.parse_file(path)
    me = S("self")
    coil, cplx = ("attr", me, "coil_dim"), ("attr", me, "complex_dim")
    t, _n = X.run_function(tree, path, "EstimateSensitivityMapModule.forward", opaque={"estimate_acs_image"})
    t = X.lift_ife(X.prune_raises(X.drop_do(t)))
    seen = set()
    for conds, lf in X.leaves(t):
        v = lf[1]
        if not (v[0] == "set" and v[1] == S("sample") and v[2] == X.const("sensitivity_map")):
            raise Untranslatable("EstimateSensitivityMapModule.forward: does not return the sample with 'sensitivity_map' set: %s" % X.show(v)[:80], None, path)
        x = _normalised(v[3], coil, cplx, "EstimateSensitivityMapModule.forward", path)
        kind = [c[3] for c, pol in conds if pol and c[0] == "cmp" and c[1] == "==" and c[2] == ("attr", me, "type_of_map")]
        kind = kind[-1][2] if kind and kind[-1][0] == "attr" else "other"
        if kind == "RSS_ESTIMATE":
            # the estimate itself: the ACS image divided by its root-sum-of-squares over coils
            acs = ("call", ("attr", me, "estimate_acs_image"), (S("sample"),), ())
            rss = ("call", ("attr", TMOD, "root_sum_of_squares"), (acs, coil), ())
            if x != ("call", ("attr", TMOD, "safe_divide"), (acs, _meth(_meth(rss, "unsqueeze", coil), "unsqueeze", cplx)), ()):
                raise Untranslatable("EstimateSensitivityMapModule.forward: RSS estimate is not acs / rss(acs): %s" % X.show(x)[:140], None, path)
        elif kind == "UNIT":
            y = x[1][1] if x[0] == "call" and x[1][0] == "attr" and x[1][2] == "to" else x
            ok = y[0] == "set" and y[2] == ("tuple", (X.const(Ellipsis), X.const(0))) and y[3] in (X.const(1.0), X.const(1)) and "zeros" in X.show(y[1])
            if not ok:
                raise Untranslatable("EstimateSensitivityMapModule.forward: unit map is not zeros with the real part set to one: %s" % X.show(x)[:120], None, path)
        seen.add(kind)
    if not {"RSS_ESTIMATE", "UNIT"} <= seen:
        raise Untranslatable("EstimateSensitivityMapModule.forward: RSS-estimate / unit branches not found (%s)" % sorted(seen), None, path)
    path2 = ctx.src("direct/nn/mri_models.py")
    tree2, _ = pg.parse_file(path2)
    t2, _n = X.run_function(tree2, path2, "MRIModelEngine.compute_sensitivity_map")
    t2 = X.lift_ife(X.prune_raises(X.drop_do(t2)))
    for conds, lf in X.leaves(t2):
        _normalised(lf[1], ("attr", me, "_coil_dim"), ("attr", me, "_complex_dim"), "MRIModelEngine.compute_sensitivity_map", path2)
    # safe_divide and root_sum_of_squares themselves: C02's translator reads their value trees; run it here as well
    from . import c02

    c02.generate(ctx)
    out = "From Coq Require Import Reals.\nFrom DV Require Import Model.C09.\n"
    out += "(* structure recognised in the source: every stage is `normalise` of Model/C09.v *)\n"
    out += "Definition rss_estimate_stage := normalise.\nDefinition pipeline_tail_stage := normalise.\nDefinition engine_tail_stage := normalise.\n"
    out += "Definition rss_estimate_map (acs : list (R * R)) : list (R * R) := pipeline_tail_stage (rss_estimate_stage acs).\n"
    out += "Definition engine_map (refined : list (R * R)) : list (R * R) := engine_tail_stage refined.\n"
    out += "Definition unit_map (coils : nat) : list (R * R) := pipeline_tail_stage (repeat (1%R, 0%R) coils).\n"
    return [pg.write_gen(ctx, "C09_gen", out)]


PRE = "From DV Require Import Base.Tactics Model.C09.\nFrom Coq Require Import QArith.\nFrom G Require Import C09_defs.\n"


def _vec(rng, coils):
    """Coil vector (list of (re, im)) whose root-sum-of-squares is a power of two, or zero."""
    kind = rng.choice(["zero", "one", "four", "four", "one"])
    m = rng.choice([0.25, 0.5, 1, 2, 4])
    if kind == "zero" or coils == 0:
        return [(0.0, 0.0)] * coils
    v = [(0.0, 0.0)] * coils
    if kind == "one" or coils < 4:
        i = rng.randrange(coils)
        v[i] = (m * rng.choice([1, -1]), 0.0) if rng.random() < 0.5 else (0.0, m * rng.choice([1, -1]))
        return v
    idx = rng.sample(range(coils), 4)
    for i in idx:
        v[i] = (m * rng.choice([1, -1]), 0.0) if rng.random() < 0.5 else (0.0, m * rng.choice([1, -1]))
    return v


def correspond(ctx):
    import torch
    from .. import shims

    shims.install(ctx.repo)
    from direct.data import mri_transforms as M
    from direct.data import transforms as T
    from direct.nn.mri_models import MRIModelEngine

    corr = Corr()
    corr.rule = RULE
    rng = ctx.rng
    terms, impls, cases = [], [], []
    eng = MRIModelEngine.__new__(MRIModelEngine)
    eng._coil_dim, eng._complex_dim, eng.models, eng.ndim = 1, -1, {}, 2
    for _ in range(ctx.n(80, 800)):
        coils = rng.randint(1, 5)
        which = rng.choice(["engine", "rss"])
        h, w = (rng.choice([1, 2, 4]), rng.choice([1, 2, 4])) if which == "rss" else (rng.randint(1, 3), rng.randint(1, 3))
        vecs = [[_vec(rng, coils) for _ in range(w)] for _ in range(h)]
        # image-domain tensor (N=1, coil, h, w, 2)
        img = torch.tensor([[[[list(vecs[i][j][c]) for j in range(w)] for i in range(h)] for c in range(coils)]], dtype=torch.float32)
        if which == "engine":
            out = eng.compute_sensitivity_map(img.clone())
            fn = "engine_q"
        else:
            # make k-space whose backward transform is exactly img, ACS = everything
            k = T.fft2(img, dim=(2, 3), centered=False, normalized=False)
            mod = M.EstimateSensitivityMapModule(kspace_key="kspace", backward_operator=functools.partial(T.ifft2, centered=False, normalized=False), type_of_map=M.SensitivityMapType.RSS_ESTIMATE)
            out = mod({"kspace": k, "acs_mask": torch.ones(1, 1, h, w, 1, dtype=torch.bool)})["sensitivity_map"]
            if not torch.equal(T.ifft2(k, dim=(2, 3), centered=False, normalized=False), img):
                continue  # the round trip through the FFT is not exact for this input: nothing exact to compare
            fn = "rss_q"
        for i in range(h):
            for j in range(w):
                got = [[Fraction(float(out[0, c, i, j, 0])).limit_denominator(1 << 20), Fraction(float(out[0, c, i, j, 1])).limit_denominator(1 << 20)] for c in range(coils)]
                impls.append([[str(a), str(b)] for a, b in got])
                q = lambda v: "(%d # %d)" % (Fraction(v).numerator, Fraction(v).denominator) if Fraction(v) >= 0 else "(-%d # %d)" % (-Fraction(v).numerator, Fraction(v).denominator)
                terms.append("map qpair (%s [%s])" % (fn, "; ".join("(%s, %s)" % (q(a), q(b)) for a, b in vecs[i][j])))
                cases.append({"stage": which, "coils": coils, "vector": vecs[i][j]})
    vals = coqrun.eval_sharded("c09_cases", PRE, terms, ctx.work, gen_dir=ctx.gen_dir, shard=400)
    for c, im, mv in zip(cases, impls, vals):
        model = [[str(Fraction(p[0], p[1])), str(Fraction(p[2][0], p[2][1]))] for p in mv]
        corr.dist("stage", c["stage"])
        corr.dist("coils", c["coils"])
        corr.compare(c, im, model, nontrivial=any(a != 0 or b != 0 for a, b in c["vector"]))
    return corr


def oracles(ctx, deep):
    import torch
    from .. import shims

    shims.install(ctx.repo)
    from direct.data import mri_transforms as M
    from direct.data import transforms as T
    from direct.data.sens import simulate_sensitivity_maps
    from direct.nn.mri_models import MRIModelEngine

    out, seen, runs = [], set(), 0

    def add(v):
        if v.key() not in seen:
            seen.add(v.key())
            out.append(v)

    rng = ctx.rng

    def check(sm, what, cfg, coil_dim=1, signal=None):
        if not bool(torch.isfinite(sm).all()):
            add(Violation("maps-finite", "%s contains NaN/Inf for %s" % (what, cfg), {"config": cfg, "stage": what}, {"stage": what, "kind": "nonfinite"}))
            return
        s = (sm ** 2).sum(-1).sum(coil_dim)
        bad = ~((s - 1).abs() < 1e-4) & ~(s == 0)
        if signal is not None and bool(((s == 0) & signal).any()):
            # zero is only allowed where there is no signal
            add(Violation("maps-normalised", "%s: the map is zero at %d locations where the autocalibration image has signal, for %s" % (what, int(((s == 0) & signal).sum()), cfg), {"config": cfg, "stage": what}, {"stage": what, "kind": "zero-on-signal"}))
        if bool(bad.any()):
            add(Violation("maps-normalised", "%s: sum over coils of squared magnitudes is neither 1 nor 0 at %d locations (e.g. %.6g) for %s" % (what, int(bad.sum()), float(s[bad][0]), cfg), {"config": cfg, "stage": what, "example": float(s[bad][0])}, {"stage": what, "kind": "sum"}))

    eng = MRIModelEngine.__new__(MRIModelEngine)
    eng._coil_dim, eng._complex_dim, eng.models, eng.ndim = 1, -1, {}, 2
    for _ in range(ctx.n(120, 1200) * (2 if deep else 1)):
        three = rng.random() < 0.25
        coils = rng.randint(1, 6)
        sp = [rng.randint(1, 3)] * (1 if three else 0) + [rng.randint(2, 10), rng.randint(2, 10)]
        g = torch.Generator().manual_seed(rng.randrange(1 << 30))
        scale = rng.choice([1.0, 1.0, 1e-6, 1e3, 1e-12])
        k = torch.randn(1, coils, *sp, 2, generator=g) * scale
        # zero coils, zero-padded borders
        if coils > 1 and rng.random() < 0.4:
            k[:, rng.randrange(coils)] = 0
        if rng.random() < 0.3:
            k[..., : sp[-1] // 2, :] = 0
        acs_kind = rng.choice(["center", "center", "empty", "full"])
        acs = torch.zeros(1, 1, *sp, 1, dtype=torch.bool)
        if acs_kind == "full":
            acs[:] = True
        elif acs_kind == "center":
            acs[..., sp[-1] // 2 - 1 : sp[-1] // 2 + 1, :] = True
        sigma = rng.choice([None, None, 0.5, 2.0, 0, 0.0])  # 0 means "no weighting", like None
        cfg = {"coils": coils, "spatial": sp, "scale": scale, "acs": acs_kind, "gaussian_sigma": sigma}
        runs += 1
        try:
            for tp in (M.SensitivityMapType.RSS_ESTIMATE, M.SensitivityMapType.UNIT):
                mod = M.EstimateSensitivityMapModule(kspace_key="kspace", backward_operator=T.ifft2, type_of_map=tp, gaussian_sigma=sigma)
                sm = mod({"kspace": k.clone(), "acs_mask": acs})["sensitivity_map"]
                signal = None
                if tp == M.SensitivityMapType.RSS_ESTIMATE and not sigma and scale >= 1e-6:
                    dim = mod.spatial_dims.TWO_D if k.ndim == 5 else mod.spatial_dims.THREE_D
                    img = T.ifft2(k * acs, dim=dim)
                    rss = (img**2).sum(-1).sum(1).sqrt()
                    signal = rss > 1e-3 * float(rss.max()) if float(rss.max()) > 0 else None
                check(sm, "EstimateSensitivityMapModule(%s)" % tp.value, cfg, signal=signal)
                if tuple(sm.shape) != tuple(k.shape):
                    add(Violation("maps-shape", "sensitivity map shape %s differs from k-space %s" % (list(sm.shape), list(k.shape)), {"config": cfg}, {"stage": "shape"}))
            if not three:
                # including magnitudes whose squares underflow: the coil norm is then exactly zero, the entries are not
                raw = torch.randn(1, coils, *sp, 2, generator=g) * rng.choice([1.0, 1e-8, 1e4, 1e-25, 1e-30])
                if rng.random() < 0.3:
                    raw[:, :, : sp[0] // 2] = 0
                check(eng.compute_sensitivity_map(raw), "MRIModelEngine.compute_sensitivity_map", cfg)
        except Exception as e:  # noqa
            add(Violation("maps-raise", "%s: %s for %s" % (type(e).__name__, str(e)[:100], cfg), {"config": cfg}, {"stage": "raises"}))
    import numpy as np

    for _ in range(ctx.n(10, 60)):
        coils = rng.randint(1, 6)
        shape = (rng.randint(2, 12), rng.randint(2, 12))
        sm = simulate_sensitivity_maps(shape, coils, seed=rng.randrange(1000))
        runs += 1
        s = (np.abs(sm) ** 2).sum(0)
        if not np.isfinite(sm).all() or np.abs(s - 1).max() > 1e-6:
            add(Violation("maps-normalised", "simulate_sensitivity_maps(%s, %d) is not normalised / finite" % (shape, coils), {"shape": list(shape), "coils": coils}, {"stage": "simulate", "kind": "sum"}))
    ctx.oracle_runs = runs
    return out
