"""C20 — every shipped configuration and registered model name resolves and validates."""
import ast
import glob
import os
import shutil
import tempfile
import time

from .. import coqrun, py2gallina as pg
from ..core import Corr, Untranslatable, Violation

ID = "C20"
LEVEL = "proof"
COQ_FILES = ["Tie/C20_tie.v", "Props/C20_props.v"]
PROPS_FILES = ["C20_props.v"]
TRUSTED_BASE = [
    "vlib/symex.py (symbolic execution of the translated Python subset on the ast: the translator reads value / outcome trees, so local names, intermediates, helpers and the form of branches do not matter; its assumptions - pure expressions, opaque calls, no aliasing writes, try handlers not modelled - are listed in DESIGN.md 12.7; fail-closed)",
    "py2gallina unit 'config': AST scan of direct/ (names defined or imported per module, dataclass fields and the kind of their defaults, parameters of build_mri_transforms), PyYAML reading of projects/**/*.yaml, and a structural check that the four name-resolution functions of direct/environment.py have the string form modelled in coq/Model/C20.v",
    "getattr(importlib.import_module(m), name) succeeds iff `name` is defined or imported at the top level of module m (the registry); OmegaConf's structured merge is modelled only for unknown keys of the model sections (types / enums are left to the correspondence with the real OmegaConf)",
    "the statement is finite: it is about the configurations shipped at the current working tree (bounded by that set, decided by vm_compute and lifted with forallb_forall)",
    "instantiation of models / engines / masking functions / transform pipelines on the CPU is an oracle run on the implementation (all 87 in the thorough tier, a time-boxed sample in the quick tier); Calgary-Campinas mask files are synthetic (no network)",
]
ASSUMPTIONS = ["Python 3.12 / torch 2.14 as installed (the 'supported versions' available in this sandbox)"]
RULE = "every shipped YAML plus mutated copies (unknown model key, renamed model / engine / dataset / masking name): the verdict (resolves-and-validates or not) of the real loader is compared with the Coq model's; non-trivial = mutated configuration or configuration with additional models; distinct by (file, mutation)"

# how names are resolved: the (module path, class name) handed to str_to_class, as expressions of the function's inputs
ENV_CALLS = {
    "load_model_config_from_name": ("str_to_class", ["f\"direct.nn.{model_name.split('.')[0].lower()}.config\"", "(model_name + 'Config').split('.')[-1]"]),
    "load_model_from_name": ("str_to_class", ["f\"direct.nn.{'.'.join([_.lower() for _ in model_name.split('.')[:-1]])}\"", "model_name.split('.')[-1]"]),
    "load_dataset_config": ("str_to_class", ["'direct.data.datasets_config'", "dataset_name + 'Config'"]),
}


def _nq(s):
    """Quote-insensitive form (ast.unparse quotes f-strings differently across Python versions)."""
    return s.replace('"', "").replace("'", "")


def _s(x):
    return '"%s"' % x.replace('"', '""')


def _sl(l):
    return "[" + "; ".join(_s(x) for x in l) + "]"


def _module_names(path):
    tree = ast.parse(open(path).read())
    names = []
    for n in tree.body:
        if isinstance(n, (ast.ClassDef, ast.FunctionDef)):
            names.append(n.name)
        elif isinstance(n, ast.ImportFrom):
            names += [a.asname or a.name for a in n.names]
        elif isinstance(n, ast.Assign):
            names += [t.id for t in n.targets if isinstance(t, ast.Name)]
    return tree, names


def _dataclasses(tree):
    out = {}
    for n in tree.body:
        if isinstance(n, ast.ClassDef) and any(ast.unparse(d).startswith("dataclass") for d in n.decorator_list):
            fields = []
            for s in n.body:
                if isinstance(s, ast.AnnAssign) and isinstance(s.target, ast.Name):
                    kind = 0
                    if s.value is None:
                        kind = 1
                    elif ast.unparse(s.value) == "MISSING":
                        kind = 1
                    elif isinstance(s.value, ast.Call):
                        f = ast.unparse(s.value.func)
                        if f == "field":
                            kind = 2
                        elif f.endswith("Config"):
                            kind = 3
                        else:
                            kind = 4
                    fields.append((s.target.id, kind, ast.unparse(s.annotation)))
            out[n.name] = ([ast.unparse(b) for b in n.bases], fields)
    return out


def _str_norm(t):
    """One identity about Python strings, applied bottom-up to a value tree: for a one-character separator `sep` and a
    literal `lit` that does not contain it, `(a + lit).split(sep)[-1]` is `a.split(sep)[-1] + lit` (the last piece of
    `a` is what follows its last separator; appending text without a separator only extends that piece)."""
    if not isinstance(t, tuple):
        return t
    t = tuple(_str_norm(x) for x in t)
    if (len(t) == 3 and t[0] == "sub" and t[2] == ("const", -1) and isinstance(t[1], tuple) and len(t[1]) == 4 and t[1][0] == "call" and t[1][3] == ()
            and isinstance(t[1][1], tuple) and len(t[1][1]) == 3 and t[1][1][0] == "attr" and t[1][1][2] == "split" and len(t[1][2]) == 1):
        recv, sep = t[1][1][1], t[1][2][0]
        if (isinstance(recv, tuple) and len(recv) == 4 and recv[0] == "bin" and recv[1] == "+" and isinstance(recv[3], tuple) and recv[3][0] == "const" and isinstance(recv[3][1], str)
                and isinstance(sep, tuple) and sep[0] == "const" and isinstance(sep[1], str) and len(sep[1]) == 1 and sep[1] not in recv[3][1]):
            return ("bin", "+", ("sub", ("call", ("attr", recv[2], "split"), (sep,), ()), ("const", -1)), recv[3])
    return t


def scan(ctx):
    repo = ctx.repo
    # 1. resolution functions have the modelled form
    path = os.path.join(repo, "direct/environment.py")
    tree, _ = pg.parse_file(path)
    from .. import symex as X

    for fn, (callee, want) in ENV_CALLS.items():
        hits, stopped = X.watch_calls(tree, path, fn, [callee])
        got = {tuple(X.show(_str_norm(a)) for a in args) + tuple("%s=%s" % (k_, X.show(_str_norm(v))) for k_, v in kw) for _c, args, kw in hits[callee]}
        exp = tuple(X.show(_str_norm(X.parse_expr(w))) for w in want)
        if got != {exp}:
            raise Untranslatable("%s: %s is not called (only) with %s: %s (%s)" % (fn, callee, exp, sorted(got), stopped), None, path)
    # setup_engine: the engine class is looked up in direct.nn.<first part of the model name, lower case>.<the same>_engine,
    # under the configured engine name or <last part of the model name>Engine
    hits, stopped = X.watch_calls(tree, path, "setup_engine", ["str_to_class"])
    short = "cfg.model.model_name.split('.')[0]"
    mod = X.show(X.parse_expr("f\"direct.nn.{%s.lower()}.{%s.lower()}_engine\"" % (short, short)))
    names = {X.show(X.parse_expr("cfg.model.engine_name")), X.show(X.parse_expr("cfg.model.model_name.split('.')[-1] + 'Engine'")), X.show(X.parse_expr("cfg.model.engine_name if cfg.model.engine_name else cfg.model.model_name.split('.')[-1] + 'Engine'")), X.show(X.parse_expr("cfg.model.engine_name or cfg.model.model_name.split('.')[-1] + 'Engine'"))}
    seen_names = set()
    for conds, args, kw in hits["str_to_class"]:
        if len(args) != 2 or kw or X.show(args[0]) != mod or X.show(args[1]) not in names:
            raise Untranslatable("setup_engine: engine class looked up outside the modelled form: %s" % [X.show(a) for a in args], None, path)
        given = [pol for c, pol in conds if X.show(c) == "cfg.model.engine_name"]
        if X.show(args[1]) == "cfg.model.engine_name" and given != [True]:
            raise Untranslatable("setup_engine: the configured engine name is used without being set", None, path)
        if X.show(args[1]).endswith("'Engine')") and not X.show(args[1]).startswith("(cfg.model.engine_name if") and not X.show(args[1]).startswith("(cfg.model.engine_name or") and given != [False]:
            raise Untranslatable("setup_engine: the default engine name is used although one is configured", None, path)
        seen_names.add(X.show(args[1]))
    if not hits["str_to_class"]:
        raise Untranslatable("setup_engine: no engine lookup reached (%s)" % stopped, None, path)
    # 2. registry and dataclasses
    registry, classes = {}, {}
    files = glob.glob(os.path.join(repo, "direct/nn/**/*.py"), recursive=True) + [os.path.join(repo, p) for p in ("direct/data/datasets_config.py", "direct/data/datasets.py", "direct/common/subsample.py", "direct/common/subsample_config.py", "direct/data/transforms.py", "direct/config/defaults.py", "direct/config/__init__.py")]
    for f in sorted(files):
        mod = os.path.relpath(f, repo)[:-3].replace("/", ".")
        if mod.endswith(".__init__"):
            mod = mod[: -len(".__init__")]
        try:
            t, names = _module_names(f)
        except SyntaxError as e:
            raise Untranslatable("cannot parse %s: %s" % (f, e), None, f)
        registry[mod] = sorted(set(names))
        for cname, v in _dataclasses(t).items():
            classes[(mod, cname)] = v
    return registry, classes


def _all_fields(classes, mod, cname, depth=0):
    """Field names of a dataclass including inherited ones (bases looked up by class name anywhere)."""
    if depth > 6:
        return []
    key = (mod, cname) if (mod, cname) in classes else next((k for k in classes if k[1] == cname), None)
    if key is None:
        return []
    bases, fields = classes[key]
    out = [f for f, _, _ in fields]
    for b in bases:
        out += _all_fields(classes, key[0], b.split(".")[-1], depth + 1)
    return out


def read_yaml(path):
    import yaml

    with open(path) as f:
        y = yaml.safe_load(f)
    model = y.get("model", {}) or {}
    comps = str(model.get("model_name", "")).split(".")
    add = []
    for k, v in (y.get("additional_models") or {}).items():
        add.append((str(v.get("model_name", "")).split("."), sorted(v.keys())))
    dsets, masks = [], []
    for key in ("training", "validation"):
        for d in ((y.get(key) or {}).get("datasets") or []):
            dsets.append(str(d.get("name", "")))
            m = (d.get("transforms") or {}).get("masking")
            if m and m.get("name"):
                masks.append(str(m["name"]))
    inf = (y.get("inference") or {}).get("dataset")
    if inf:
        dsets.append(str(inf.get("name", "")))
        m = (inf.get("transforms") or {}).get("masking")
        if m and m.get("name"):
            masks.append(str(m["name"]))
    ph = y.get("physics") or {}
    ops = [str(ph.get("forward_operator", "fft2")).split("(")[0], str(ph.get("backward_operator", "ifft2")).split("(")[0]]
    return {"model": comps, "engine": str(model.get("engine_name") or ""), "keys": sorted(model.keys()), "additional": add, "datasets": sorted(set(dsets)), "maskings": sorted(set(masks)), "operators": ops}


def ycfg_term(name, y):
    add = "[" + "; ".join("(%s, %s)" % (_sl(a), _sl(k)) for a, k in y["additional"]) + "]"
    return "{| y_file := %s; y_model := %s; y_engine := %s; y_model_keys := %s; y_additional := %s; y_datasets := %s; y_maskings := %s; y_operators := %s |}" % (
        _s(name), _sl(y["model"]), _s(y["engine"]), _sl(y["keys"]), add, _sl(y["datasets"]), _sl(y["maskings"]), _sl(y["operators"]))


def generate(ctx):
    registry, classes = scan(ctx)
    out = "From Coq Require Import String List.\nImport ListNotations.\nFrom DV Require Import Model.C20.\nLocal Open Scope nat_scope.\nLocal Open Scope string_scope.\n"
    out += "Definition registry_now : registry := [\n%s].\n" % ";\n".join("  (%s, %s)" % (_s(m), _sl(n)) for m, n in sorted(registry.items()))
    # config fields per config class, keyed "module:Class"
    cf = []
    for (mod, cname) in sorted(classes):
        if mod.endswith(".config") and mod.startswith("direct.nn."):
            cf.append((mod + ":" + cname, sorted(set(_all_fields(classes, mod, cname)))))
    out += "Definition config_fields_now : list (string * list string) := [\n%s].\n" % ";\n".join("  (%s, %s)" % (_s(k), _sl(v)) for k, v in cf)
    # dataclass defaults of the typed schema
    dd = []
    for (mod, cname), (bases, fields) in sorted(classes.items()):
        for f, kind, ann in fields:
            dd.append("(%s, %s, %d)" % (_s(mod + ":" + cname), _s(f), kind))
    out += "Definition field_defaults_now : list (string * string * nat) := [\n  %s].\n" % ";\n  ".join(dd)
    # shipped configurations
    ys = sorted(glob.glob(os.path.join(ctx.repo, "projects/**/*.yaml"), recursive=True))
    terms = []
    ctx._yamls = {}
    for p in ys:
        rel = os.path.relpath(p, os.path.join(ctx.repo, "projects"))
        try:
            y = read_yaml(p)
        except Exception as e:  # noqa
            raise Untranslatable("cannot read %s: %s" % (rel, e), None, p)
        ctx._yamls[rel] = y
        terms.append(ycfg_term(rel, y))
    out += "Definition shipped : list ycfg := [\n  %s].\n" % ";\n  ".join(terms)
    # transform schema keys vs builder parameters
    tpath = os.path.join(ctx.repo, "direct/data/mri_transforms.py")
    ttree, _ = pg.parse_file(tpath)
    bfn = pg.find_def(ttree, "build_mri_transforms", tpath)
    params = [a.arg for a in bfn.args.args + bfn.args.kwonlyargs]
    out += "Definition transform_builder_params : list string := %s.\n" % _sl(params)

    def leaves(mod, cname, depth=0):
        key = next((k for k in classes if k[1] == cname), None)
        if key is None or depth > 4:
            return []
        res = []
        for f, kind, ann in classes[key][1]:
            sub = ann.replace("Optional[", "").rstrip("]")
            if any(k[1] == sub for k in classes) and sub.endswith("Config"):
                if f == "masking":
                    continue
                res += leaves(mod, sub, depth + 1)
            else:
                res.append(f)
        for b in classes[key][0]:
            res += leaves(mod, b.split(".")[-1], depth + 1)
        return res

    out += "Definition transform_schema_leaves : list string := %s.\n" % _sl(sorted(set(leaves("direct.data.datasets_config", "TransformsConfig"))))
    ctx._registry, ctx._classes = registry, classes
    return [pg.write_gen(ctx, "C20_gen", out)]


# ------------------------------------------------------------------------------------------------
PRE = "From Coq Require Import String List.\nImport ListNotations.\nFrom DV Require Import Model.C20.\nFrom G Require Import C20_gen.\nLocal Open Scope string_scope.\n"


def _mutations(rng, rel, y):
    """Mutated copies of a configuration (as edits of the YAML text) with the expected-failure kind."""
    muts = []
    kind = rng.choice(["unknown-model-key", "model-name", "engine-name", "dataset-name", "masking-name"])
    return kind


def _apply_mutation(text, y, kind):
    import re

    if kind == "unknown-model-key":
        return re.sub(r"(?m)^model:\s*$", "model:\n    verif_unknown_key: 1", text, count=1)
    if kind == "model-name":
        return text.replace("model_name: " + ".".join(y["model"]), "model_name: " + ".".join(y["model"][:-1] + [y["model"][-1] + "X"]), 1)
    if kind == "engine-name":
        if y["engine"]:
            return text.replace("engine_name: " + y["engine"], "engine_name: " + y["engine"] + "X", 1)
        return re.sub(r"(?m)^model:\s*$", "model:\n    engine_name: NoSuchEngine", text, count=1)
    if kind == "dataset-name" and y["datasets"]:
        return re.sub(r"name:\s*%s\b" % re.escape(y["datasets"][0]), "name: %sX" % y["datasets"][0], text, count=1)
    if kind == "masking-name" and y["maskings"]:
        return re.sub(r"name:\s*%s\b" % re.escape(y["maskings"][0]), "name: %sX" % y["maskings"][0], text, count=1)
    return None


def correspond(ctx):
    from .. import cfgharness as C, shims

    shims.install(ctx.repo)
    corr = Corr()
    corr.rule = RULE
    cache = tempfile.mkdtemp(prefix="c20_", dir=ctx.work)
    rng = ctx.rng
    cases, impls, terms = [], [], []
    root = os.path.join(ctx.repo, "projects")
    rels = sorted(ctx._yamls)
    results = {}
    for rel in rels:
        y = ctx._yamls[rel]
        r = C.resolve(os.path.join(root, rel), cache, instantiate=False)
        results[rel] = r
        cases.append({"file": rel, "mutation": None})
        # the model decides name resolution and unknown model keys; other failures (types, enum values, missing values,
        # instantiation) are left to the oracles
        impls.append(_verdict(r))
        terms.append("config_ok registry_now config_fields_now (%s)" % ycfg_term(rel, y))
    nmut = ctx.n(40, 300)
    for _ in range(nmut):
        rel = rng.choice(rels)
        y = ctx._yamls[rel]
        kind = rng.choice(["unknown-model-key", "model-name", "engine-name", "dataset-name", "masking-name"])
        text = open(os.path.join(root, rel)).read()
        mt = _apply_mutation(text, y, kind)
        if mt is None or mt == text:
            continue
        mp = os.path.join(ctx.work, "mut.yaml")
        with open(mp, "w") as f:
            f.write(mt)
        try:
            y2 = read_yaml(mp)
        except Exception:
            continue
        r = C.resolve(mp, cache, instantiate=False)
        if results[rel][0] != "ok":
            continue  # the base file already fails: a mutation verdict would be ambiguous
        cases.append({"file": rel, "mutation": kind})
        impls.append(_verdict(r))
        terms.append("config_ok registry_now config_fields_now (%s)" % ycfg_term(rel, y2))
    vals = coqrun.eval_sharded("c20_cases", PRE, terms, ctx.work, gen_dir=ctx.gen_dir, shard=60)
    for c, im, mv in zip(cases, impls, vals):
        corr.dist("mutation", c["mutation"])
        if im == "other":
            corr.count(c, False)  # failure kind outside the model (types / values): judged by the oracles
            continue
        corr.compare(c, im, bool(mv), nontrivial=c["mutation"] is not None)
    ctx._c20 = results
    shutil.rmtree(cache, ignore_errors=True)
    return corr


def _verdict(r):
    """True: resolves and has no unknown model key; False: name resolution / unknown key failure; "other": fails later."""
    if r[0] == "ok":
        return True
    stage, exc, msg = r[1], r[2], r[3]
    if exc == "SystemExit" or exc in ("AttributeError", "ModuleNotFoundError") or (exc == "ConfigKeyError" and stage == "models"):
        return False
    if exc == "ConfigKeyError" and "Key 'verif_unknown_key'" in msg:
        return False
    return "other"


def oracles(ctx, deep):
    from .. import cfgharness as C, shims

    shims.install(ctx.repo)
    out, seen, runs = [], set(), 0

    def add(v):
        if v.key() not in seen:
            seen.add(v.key())
            out.append(v)

    cache = tempfile.mkdtemp(prefix="c20o_", dir=ctx.work)
    root = os.path.join(ctx.repo, "projects")
    rels = sorted(glob.glob(os.path.join(root, "**/*.yaml"), recursive=True))
    res = getattr(ctx, "_c20", None) or {}
    # 1. parse / merge / resolve / build transforms and masking functions for every shipped configuration
    import re as _re

    groups = {}
    for p in rels:
        rel = os.path.relpath(p, root)
        r = res.get(rel) or C.resolve(p, cache, instantiate=False)
        runs += 1
        if r[0] != "ok":
            sig = _re.sub(r"\d+(\.\d+)?", "N", r[3].split("\n")[0])[:80]
            groups.setdefault((r[1].split(":")[0], r[2], sig), []).append((rel, r))
    for (stage, exc, sig), items in sorted(groups.items()):
        rel, r = items[0]
        add(Violation("config-resolves", "%d shipped configuration(s), e.g. projects/%s: %s at stage %s: %s" % (len(items), rel, exc, stage, r[3].replace("\n", " ")[:160]), {"files": ["projects/" + x for x, _ in items], "stage": stage, "exception": exc, "message": r[3]}, {"stage": stage, "exception": exc, "signature": sig}))
    # 2. instantiate model + engine (time-boxed in the quick tier; one per model class first)
    budget = 1e9 if (ctx.thorough or deep) else 75.0
    t0 = time.time()
    done_models = set()
    order = sorted(rels, key=lambda p: os.path.getsize(p))
    for p in order:
        rel = os.path.relpath(p, root)
        if (res.get(rel) or ("ok",))[0] != "ok":
            continue
        try:
            y = read_yaml(p)
        except Exception:
            continue
        # one per (model class, engine, set of additional models): a configuration without additional models takes a
        # different path through the environment set-up than one with a sensitivity model
        key = (".".join(y["model"]), y["engine"], tuple(sorted(".".join(a) for a, _ in y["additional"])))
        if key in done_models and not (ctx.thorough or deep):
            continue
        if time.time() - t0 > budget:
            break
        done_models.add(key)
        r = C.resolve(p, cache, instantiate=True)
        runs += 1
        if r[0] != "ok":
            add(Violation("config-instantiates", "projects/%s: %s at stage %s: %s" % (rel, r[2], r[1], r[3].replace("\n", " ")[:160]), {"file": "projects/" + rel, "stage": r[1], "exception": r[2], "message": r[3]}, {"file": rel, "stage": r[1].split(":")[0], "exception": r[2]}))
    # 3. the typed schema itself and every model's default configuration can be constructed
    try:
        from omegaconf import OmegaConf
        from direct.config.defaults import DefaultConfig

        OmegaConf.structured(DefaultConfig)
        runs += 1
    except Exception as e:  # noqa
        add(Violation("defaults-constructible", "the typed default configuration cannot be constructed: %s: %s" % (type(e).__name__, str(e)[:160]), {"exception": type(e).__name__}, {"kind": "defaults"}))
    import importlib

    for mod in sorted(m for m in (getattr(ctx, "_registry", None) or {}) if m.startswith("direct.nn.") and m.endswith(".config")):
        try:
            M = importlib.import_module(mod)
            for nm in ctx._registry[mod]:
                obj = getattr(M, nm)
                if isinstance(obj, type) and nm.endswith("Config") and obj.__module__ == mod:
                    from omegaconf import OmegaConf

                    OmegaConf.structured(obj)
                    runs += 1
        except Exception as e:  # noqa
            add(Violation("defaults-constructible", "%s: default configuration cannot be constructed: %s: %s" % (mod, type(e).__name__, str(e)[:160]), {"module": mod, "exception": type(e).__name__}, {"kind": "defaults", "module": mod}))
    # 4. the default configuration of every model class can be instantiated into its model, and its defaults are values of
    #    the declared field types (an Enum member as default of a str-typed field is stored as 'EnumName.MEMBER')
    try:
        import inspect
        import pkgutil
        import re as _re2

        import direct.nn as NN
        from direct.config.defaults import ModelConfig
        from direct.data.transforms import fft2, ifft2
        from omegaconf import OmegaConf

        for pkg in sorted(m.name for m in pkgutil.iter_modules(NN.__path__) if m.ispkg):
            try:
                cm = importlib.import_module("direct.nn.%s.config" % pkg)
            except ModuleNotFoundError:
                continue
            for nm, obj in sorted(vars(cm).items()):
                if not (isinstance(obj, type) and issubclass(obj, ModelConfig) and obj is not ModelConfig and obj.__module__ == cm.__name__):
                    continue
                mname, cls, modname = nm[: -len("Config")], None, None
                for sub in pkgutil.iter_modules(importlib.import_module("direct.nn.%s" % pkg).__path__):
                    if sub.name.endswith("config") or sub.name.endswith("engine"):
                        continue
                    mod = importlib.import_module("direct.nn.%s.%s" % (pkg, sub.name))
                    if hasattr(mod, mname):
                        cls, modname = getattr(mod, mname), sub.name
                        break
                if cls is None:
                    continue
                runs += 1
                site = {"kind": "default-model", "config": nm}
                try:
                    cfg = OmegaConf.structured(obj)
                    cfg.model_name = "%s.%s.%s" % (pkg, modname, mname)
                    kw = {k: v for k, v in cfg.items() if k not in ("model_name", "engine_name")}
                except Exception as e:  # noqa
                    add(Violation("default-model-instantiates", "%s: default configuration cannot be read: %s: %s" % (nm, type(e).__name__, str(e)[:160]), {"config_class": nm, "exception": type(e).__name__}, site))
                    continue
                bad = sorted(k for k, v in kw.items() if isinstance(v, str) and _re2.match(r"^[A-Z][A-Za-z]*\.[A-Z_0-9]+$", v))
                if bad:
                    add(Violation("default-well-typed", "%s: string-typed field(s) %s default to an Enum member, which the typed schema stores as %s" % (nm, bad, [kw[b] for b in bad]), {"config_class": nm, "fields": bad, "stored": [kw[b] for b in bad]}, {"kind": "default-type", "config": nm}))
                if "forward_operator" in inspect.signature(cls.__init__).parameters:
                    kw.update(forward_operator=fft2, backward_operator=ifft2)
                try:
                    cls(**kw)
                except Exception as e:  # noqa
                    add(Violation("default-model-instantiates", "%s: %s(**default configuration) raises %s: %s" % (nm, mname, type(e).__name__, str(e)[:160]), {"config_class": nm, "model": "%s.%s.%s" % (pkg, modname, mname), "exception": type(e).__name__, "message": str(e)[:300]}, site))
    except Exception as e:  # noqa
        add(Violation("default-model-instantiates", "enumeration of model configurations failed: %s: %s" % (type(e).__name__, str(e)[:160]), {"exception": type(e).__name__}, {"kind": "default-model-enum"}))
    # 5. every masking-function name, configured through the typed MaskingConfig (as an inference section is), can be built
    #    and called: line counts for the Cartesian generators, fractions for the others
    try:
        import inspect as _insp

        import direct.common.subsample as SUB
        from direct.common.subsample_config import MaskingConfig
        from omegaconf import OmegaConf

        C.resolve  # the Calgary-Campinas stub is installed by cfgharness
        from ..cfgharness import _stub_calgary

        cache2 = tempfile.mkdtemp(prefix="c20m_", dir=ctx.work)
        _stub_calgary(cache2)
        abstract = {"Base", "CartesianVertical", "CIRCUS", "KtBase"}  # bases without a sampling scheme of their own
        names = sorted(n[: -len("MaskFunc")] for n, o in vars(SUB).items() if isinstance(o, type) and n.endswith("MaskFunc") and o.__module__ == SUB.__name__ and n[: -len("MaskFunc")] not in abstract)
        for nm in names:
            runs += 1
            cf = [4] if nm.startswith("Cartesian") else [0.1]  # a count of centre lines / a fraction (feasible for width 64 at R = 4)
            acc = [5] if nm == "CalgaryCampinas" else [4]
            shape = (1, 3, 32, 64, 2) if nm.startswith("Kt") else ((218, 170, 2) if nm == "CalgaryCampinas" else (1, 32, 64, 2))
            site = {"kind": "masking-name", "name": nm}
            try:
                cfgm = OmegaConf.merge(OmegaConf.structured(MaskingConfig), {"name": nm, "accelerations": acc, "center_fractions": cf})
                mf = SUB.build_masking_function(**cfgm)
                mf(shape, seed=1)
            except Exception as e:  # noqa
                add(Violation("masking-name-instantiates", "masking function %s configured through the typed schema (accelerations %s, center_fractions %s) raises %s: %s" % (nm, acc, cf, type(e).__name__, str(e)[:140]), {"name": nm, "accelerations": acc, "center_fractions": cf, "exception": type(e).__name__, "message": str(e)[:300]}, site))
        shutil.rmtree(cache2, ignore_errors=True)
    except Exception as e:  # noqa
        add(Violation("masking-name-instantiates", "enumeration of masking functions failed: %s: %s" % (type(e).__name__, str(e)[:160]), {"exception": type(e).__name__}, {"kind": "masking-enum"}))
    shutil.rmtree(cache, ignore_errors=True)
    ctx.oracle_runs = runs
    return out
