"""C12 — datasets map every index to exactly one slice of one volume, reproducibly."""
import ast
import os
import shutil

from .. import coqrun, py2gallina as pg, symex as X
from ..core import Corr, Untranslatable, Violation

ID = "C12"
LEVEL = "proof"
COQ_FILES = ["Tie/C12_defs.v", "Tie/C12_tie.v", "Props/C12_props.v"]
PROPS_FILES = ["C12_props.v"]
TRUSTED_BASE = [
    "vlib/symex.py (symbolic execution of the translated Python subset on the ast: the translator reads value / outcome trees, so local names, intermediates, helpers and the form of branches do not matter; its assumptions - pure expressions, opaque calls, no aliasing writes, try handlers not modelled - are listed in DESIGN.md 12.7; fail-closed)",
    "py2gallina unit 'datasets' (context-window arithmetic of H5SliceData.get_slice_data, range bookkeeping of parse_filenames_data, ConcatDataset.cumsum/__getitem__ arithmetic)",
    "hand-written model coq/Model/C12.v (admissible slices of a step-1 slice filter, parse fold, window spec, bisect_right), tied by exact correspondence on generated h5 trees",
    "h5py: file[key][a:b] is list slicing; bisect.bisect_right; numpy concatenate/zeros",
]
ASSUMPTIONS = [
    "slice filters have step 1 (slice(a, b) with integer or None bounds)",
    "reproducibility of the synthetic datasets (FakeMRIBlobsDataset, SheppLoganDataset) is exercised by oracles on the implementation; numpy RandomState / sklearn make_blobs are oracles",
]
RULE = "h5 trees (1-5 files, 1-7 slices) x slice filter x context 0-3, every index compared; concat of 1-5 datasets with negative indices; non-trivial = filter or context active, or >= 2 members; distinct by configuration"


def _find_method(tree, cls, name, path):
    return pg.find_def(tree, "%s.%s" % (cls, name), path)


def _own_depth(v):
    """depth of the element bound by a map / filter value: the smallest bound depth its body mentions that its iterable does not"""
    body = v[1] if v[0] == "map" else v[2]
    it = v[2] if v[0] == "map" else v[3]
    inner = {u[1] for u in X.find_nodes(("x", it), lambda u: u[0] == "bv")}
    mine = sorted({u[1] for u in X.find_nodes(("x", body) if v[0] == "map" else ("x", body, v[1]), lambda u: u[0] == "bv")} - inner)
    return mine[-1] if mine else 0


def _inner_depth(v):
    return _own_depth(v)


def _subst1(body, depth, repl):
    return X._subst_value(body, {("bv", depth): repl})


def generate(ctx):
    out = ""
    path = ctx.src("direct/data/h5_data.py")
    tree, _ = pg.parse_file(path)
    # ---------------- get_slice_data: context window (value trees of a symbolic execution, vlib/symex.py) ----------------
    S = lambda n: ("sym", n)
    me = S("self")
    ctxv = ("attr", me, "kspace_context")
    sl = S("slice_no")
    t, _n = X.run_function(tree, path, "H5SliceData.get_slice_data")
    t = X.lift_ife(X.prune_raises(X.drop_do(t)))
    dsets = [v for v in X.find_nodes(t, lambda v: v[0] == "sub" and v[2] == S("key") and v[1][0] == "call" and v[1][1] == ("attr", S("h5py"), "File"))]
    if len(set(dsets)) != 1:
        raise Untranslatable("get_slice_data: not one dataset data[key] read from the file", None, path)
    ds = dsets[0]
    file_n = {("sub", ("attr", ds, "shape"), X.const(0)), ("call", S("len"), (ds,), ())}
    filt_n = ("call", ("attr", me, "get_num_slices"), (S("filename"),), ())
    sig = "(s c n len : Z)"
    found = {}
    seen_paths = set()
    for conds, lf in X.leaves(t):
        v = lf[1]
        if not (v[0] == "tuple" and len(v[1]) == 2):
            raise Untranslatable("get_slice_data: does not return (data, extra data)", None, path)
        v = v[1][0]
        zero_ctx = [pol for c, pol in conds if c == ("cmp", "==", ctxv, X.const(0))]
        if len(set(zero_ctx)) != 1:
            raise Untranslatable("get_slice_data: the path does not decide `kspace_context == 0`", None, path)
        if zero_ctx[0]:
            if v != ("sub", ds, sl):
                raise Untranslatable("get_slice_data: context-0 branch is not data[key][slice_no]", None, path)
            continue
        if not (v[0] == "call" and v[1] == ("attr", S("np"), "swapaxes") and v[2][1:] == (X.const(0), X.const(1))):
            raise Untranslatable("get_slice_data: the window is not returned with the slice axis moved to the second place", None, path)
        v = v[2][0]
        # peel the zero-fills: concatenate([zeros(shape{[0] := k}), x]) in front, concatenate([x, zeros(..)]) behind
        fills = []
        while v[0] == "call" and v[1] == ("attr", S("np"), "concatenate") and X.arg(v, 1, "axis") == X.const(0) and v[2] and v[2][0][0] == "list" and len(v[2][0][1]) == 2:
            a_, b_ = v[2][0][1]
            def zlen(z):
                """length along the slice axis of np.zeros(shape, ..): shape is the window's with entry 0 replaced, or [k, *rest]"""
                if not (z[0] == "call" and z[1] == ("attr", S("np"), "zeros") and z[2]):
                    return None
                sh = z[2][0]
                if sh[0] == "set" and sh[2] == X.const(0):
                    return sh[3]
                if sh[0] in ("list", "tuple") and len(sh[1]) >= 1 and all(x[0] == "star" for x in sh[1][1:]):
                    return sh[1][0]
                return None

            if zlen(a_) is not None and zlen(b_) is None:
                fills.append(("pre", zlen(a_)))
                v = b_
            elif zlen(b_) is not None and zlen(a_) is None:
                fills.append(("post", zlen(b_)))
                v = a_
            else:
                raise Untranslatable("get_slice_data: unexpected concatenate", None, path)
        window = v
        idx = window[2] if window[0] == "sub" and window[1] == ds else None
        if idx is not None and idx[0] == "tuple" and len(idx[1]) == 1:
            idx = idx[1][0]
        if not (idx is not None and idx[0] == "slice" and idx[3] == X.NONE and X.NONE not in (idx[1], idx[2])):
            raise Untranslatable("get_slice_data: expected curr_data = data[key][lo:hi]: %s" % X.show(window)[:100], None, path)
        ns = [u for u in X.find_nodes(idx, lambda u: u in file_n or u == filt_n)]
        src = "filtered_n" if filt_n in ns else "file_n"
        nval = ns[0] if ns else None
        wlen = {("sub", ("attr", window, "shape"), X.const(0)), ("call", S("len"), (window,), ())}
        leaf = lambda u: "s" if u == sl else "c" if u == ctxv else "n" if (u == nval or u in file_n or u == filt_n) else "len" if u in wlen else None
        em = X.Emit(leaf, path)
        found.setdefault("src", set()).add(src)
        found.setdefault("lo", set()).add(em.z(idx[1]))
        found.setdefault("hi", set()).add(em.z(idx[2]))
        # the tests on this path: guard (window shorter than 2c+1), then the two sides
        tests = [(c, pol) for c, pol in conds if c != ("cmp", "==", ctxv, X.const(0)) and X.find_nodes(c, lambda u: u == sl or u in wlen)]
        guard = [(c, pol) for c, pol in tests if X.find_nodes(c, lambda u: u in wlen)]
        sides = [(c, pol) for c, pol in tests if not X.find_nodes(c, lambda u: u in wlen)]
        if len(guard) != 1:
            raise Untranslatable("get_slice_data: expected the zero-fill guard", None, path)
        found.setdefault("guard", set()).add(em.b(guard[0][0]))
        kinds = [k_ for k_, _l in fills]
        if not guard[0][1]:
            if fills or sides:
                raise Untranslatable("get_slice_data: zero-fill outside the guard", None, path)
            continue
        if len(sides) != 2 or kinds != [k_ for k_, (c, pol) in zip(("post", "pre"), reversed(sides)) if pol][:len(kinds)] and sorted(kinds) != sorted(k_ for k_, (c, pol) in zip(("pre", "post"), sides) if pol):
            raise Untranslatable("get_slice_data: expected a leading then a trailing zero-fill, each under its own test", None, path)
        for (k_, (c, pol)) in zip(("pre", "post"), sides):
            found.setdefault(k_ + "_cond", set()).add(em.b(c))
            if pol != (k_ in kinds):
                raise Untranslatable("get_slice_data: the %s zero-fill does not follow its test" % k_, None, path)
        for k_, ln in fills:
            found.setdefault(k_ + "_len", set()).add(em.z(ln))
        seen_paths.add((sides[0][1], sides[1][1]))
    for k_ in ("src", "lo", "hi", "guard", "pre_cond", "pre_len", "post_cond", "post_len"):
        if len(found.get(k_, ())) != 1:
            raise Untranslatable("get_slice_data: %s not determined uniquely over the paths: %s" % (k_, sorted(found.get(k_, ()))), None, path)
    one = lambda k_: next(iter(found[k_]))
    out += "Definition w_num_slices (file_n filtered_n : Z) : Z := %s.\n" % one("src")
    out += "Definition w_lo %s : Z := %s.\nDefinition w_hi %s : Z := %s.\n" % (sig, one("lo"), sig, one("hi"))
    out += "Definition w_guard %s : bool := %s.\n" % (sig, one("guard"))
    for kind in ("pre", "post"):
        out += "Definition w_%s_cond %s : bool := %s.\nDefinition w_%s_len %s : Z := %s.\n" % (kind, sig, one(kind + "_cond"), kind, sig, one(kind + "_len"))

    # ---------------- parse_filenames_data: range bookkeeping, from one generic iteration of its loop ----------------
    hits, stopped = X.watch_calls(tree, path, "H5SliceData.parse_filenames_data", [], opaque={"verify_extra_h5_integrity"})
    loops = hits["$loops"]
    if len(loops) != 1 or loops[0].get("tree") is None or loops[0]["iter"] != S("filenames"):
        raise Untranslatable("parse_filenames_data: not one loop over (enumerate of) filenames (%s)" % stopped, None, path)
    L = loops[0]
    d = L["depth"]
    fname = ("bv", d)
    nsl = X.parse_expr("h5py.File(F, 'r')['kspace'].shape[0]", {"F": fname})
    adm = X.parse_expr("range(*filter_slice.indices(N))", {"N": nsl})
    curs = [n for n in L["assigned"] if L["before"].get(n) == X.const(0)]
    store = lambda c: c[0] == "call" and c[1] == S("$store")
    tr = X.drop_do(L["tree"], keep=store)
    forms = set()
    seen_kinds = set()
    ends = {tuple(c): e for kind, c, e in L["paths"] if kind == "end"}
    for conds, lf in X.leaves(tr):
        if lf[0] == "raise":
            continue
        if lf[0] != "ret":
            raise Untranslatable("parse_filenames_data: an iteration ends otherwise than by falling through", None, path)
        effs = [c[1] for c in conds if c[0] == "do"]
        tests = tuple(c for c in conds if c[0] != "do")
        env = ends.get(tests)
        if env is None or len(effs) != 2:
            raise Untranslatable("parse_filenames_data: an iteration does not make exactly two stores (data, volume_indices)", None, path)
        (t1, op1, data), (t2, op2, rng) = effs[0][2], effs[1][2]
        if t1 != ("attr", me, "data") or op1 != X.const("+=") or t2 != ("sub", ("attr", me, "volume_indices"), fname) or op2 != X.const("="):
            raise Untranslatable("parse_filenames_data: the stores are not `self.data += ..` then `self.volume_indices[filename] = ..`", None, path)
        # what is appended: (filename, i) for the admissible i of range(n), in order
        base = data
        if base[0] == "map" and base[2][0] == "filter" and base[2][2] == ("bv", _inner_depth(base[2])):
            inner = base[2]
            base = ("filter", inner[1], _subst1(base[1], _own_depth(base), inner[2]), inner[3])
        elif base[0] == "map" and base[2][0] == "map" and base[2][1] == ("bv", _inner_depth(base[2])):
            base = ("map", base[1], base[2][2])
        filtered = [pol for c, pol in tests if c == S("filter_slice")]
        src = base[3] if base[0] == "filter" else base[2] if base[0] == "map" else None
        if src != ("call", S("range"), (nsl,), ()):
            raise Untranslatable("parse_filenames_data: what is appended does not run over range(number of slices of the file): %s" % X.show(data)[:140], None, path)
        elt_depth = _own_depth(base)
        body = base[2] if base[0] == "filter" else base[1]
        if body != ("tuple", (fname, ("bv", elt_depth))):
            raise Untranslatable("parse_filenames_data: the entries appended are not (filename, slice number)", None, path)
        if base[0] == "filter":
            if base[1] != ("cmp", "in", ("bv", elt_depth), adm):
                raise Untranslatable("parse_filenames_data: the slice filter is not `i in range(*filter_slice.indices(n))`", None, path)
            counts = {("call", S("len"), (adm,), ())}
            seen_kinds.add("filtered")
        else:
            counts = {nsl, ("call", S("len"), (("call", S("range"), (nsl,), ()),), ())}
            seen_kinds.add("all")
        kept = data[2] if data[0] == "map" else None
        if kept is not None:
            counts.add(("call", S("len"), (kept,), ()))
        counts.add(("call", S("len"), (data,), ()))
        if len(curs) != 1:
            raise Untranslatable("parse_filenames_data: not one running position starting at 0", None, path)
        H = ("havoc", curs[0], d)
        leaf = lambda u: "cur" if u == H else "k" if u in counts else None
        em = X.Emit(leaf, path)
        if not (rng[0] == "call" and rng[1] == S("range") and len(rng[2]) == 2 and not rng[3]):
            raise Untranslatable("parse_filenames_data: volume_indices entry is not a range(lo, hi)", None, path)
        forms.add((em.z(rng[2][0]), em.z(rng[2][1]), em.z(env[curs[0]])))
    if seen_kinds != {"all", "filtered"} or len(forms) != 1:
        raise Untranslatable("parse_filenames_data: range bookkeeping differs between the filtered and the unfiltered branch: %s" % sorted(forms), None, path)
    lo_e, hi_e, next_e = forms.pop()
    out += "Definition p_lo (cur k : Z) : Z := %s.\nDefinition p_hi (cur k : Z) : Z := %s.\n" % (lo_e, hi_e)
    out += "Definition p_next (cur k : Z) : Z := %s.\n" % next_e

    # ---------------- ConcatDataset (value trees / loop records of a symbolic execution) ----------------
    path2 = ctx.src("direct/data/datasets.py")
    tree2, _ = pg.parse_file(path2)
    idx = S("idx")
    length = {("call", S("len"), (me,), ()), ("call", ("attr", me, "__len__"), (), ())}
    csz = ("attr", me, "cumulative_sizes")
    t, _n = X.run_function(tree2, path2, "ConcatDataset.__getitem__", opaque={"__len__"})
    t = X.lift_ife(X.drop_do(t))
    negs, norms, samples = set(), set(), set()
    for conds, lf in X.leaves(t):
        neg = [pol for c, pol in conds if c == ("cmp", "<", idx, X.const(0))]
        if len(set(neg)) != 1:
            raise Untranslatable("ConcatDataset.__getitem__: the path does not decide `idx < 0`", None, path2)
        guards = [(c, pol) for c, pol in conds if c != ("cmp", "<", idx, X.const(0)) and X.find_nodes(c, lambda u: u in length)]
        em = X.Emit(lambda u: "idx" if u == idx else "len" if u in length else None, path2)
        if lf[0] == "raise":
            if not neg[0] or len(guards) != 1:
                raise Untranslatable("ConcatDataset.__getitem__: raises outside the negative-index guard", None, path2)
            c, pol = guards[0]
            negs.add(em.b(c) if pol else "(negb %s)" % em.b(c))
            continue
        v = lf[1]
        # self.datasets[j][sample] with j = bisect_right(cumulative_sizes, normalised idx)
        if not (v[0] == "sub" and v[1][0] == "sub" and v[1][1] == ("attr", me, "datasets")):
            raise Untranslatable("ConcatDataset.__getitem__: return outside subset: %s" % X.show(v)[:100], None, path2)
        j, sample = v[1][2], v[2]
        if j == X.const(0):
            # `if dataset_idx == 0: return self.datasets[0][..]`: the member index is the one the path tested
            tested = [c[2] for c, pol in conds if pol and c[0] == "cmp" and c[1] == "==" and c[3] == X.const(0) and c[2][0] == "call"]
            if len(tested) == 1:
                j = tested[0]
        if not (j[0] == "call" and j[1] == ("attr", S("bisect"), "bisect_right") and len(j[2]) == 2 and j[2][0] == csz and not j[3]):
            raise Untranslatable("ConcatDataset.__getitem__: expected bisect_right on cumulative_sizes", None, path2)
        nidx = j[2][1]
        if neg[0]:
            norms.add(em.z(nidx))
        elif nidx != idx:
            raise Untranslatable("ConcatDataset.__getitem__: a non-negative index is changed before the lookup", None, path2)
        # the local index: idx itself in the first member, else idx minus the cumulative size before the member
        first = [pol for c, pol in conds if c == ("cmp", "==", j, X.const(0))]
        prev = ("sub", csz, ("bin", "-", j, X.const(1)))
        em2 = X.Emit(lambda u: "idx" if u == nidx else "j" if u == j else "prev" if u == prev else None, path2)
        if first:
            samples.add(("path", first[0], em2.z(sample)))
        else:
            samples.add(("expr", None, em2.z(sample)))
    if len(negs) != 1 or len(norms) != 1:
        raise Untranslatable("ConcatDataset.__getitem__: negative-index prologue outside subset", None, path2)
    out += "Definition cd_neg_raises (idx len : Z) : bool := %s.\nDefinition cd_norm (idx len : Z) : Z := %s.\n" % (negs.pop(), norms.pop())
    exprs = {e for k_, _p, e in samples if k_ == "expr"}
    paths_ = {(p_, e) for k_, p_, e in samples if k_ == "path"}
    if len(exprs) == 1 and not paths_:
        sample_e = exprs.pop()
    elif not exprs and {p_ for p_, _e in paths_} == {True, False} and len(paths_) == 2:
        d_ = dict(paths_)
        sample_e = "(if (j =? 0) then %s else %s)" % (d_[True], d_[False])
    else:
        raise Untranslatable("ConcatDataset.__getitem__: expected sample_idx assignment", None, path2)
    out += "Definition cd_sample (idx j prev : Z) : Z := %s.\n" % sample_e
    # cumsum: running totals of the member lengths
    hits, stopped = X.watch_calls(tree2, path2, "ConcatDataset.cumsum", [])
    seq = S("sequence")
    t, _n = X.run_function(tree2, path2, "ConcatDataset.cumsum")
    t = X.prune_raises(X.drop_do(t))
    acc = X.parse_expr("list(itertools.accumulate(len(e) for e in sequence))")
    if t is not None and t[0] == "ret" and X.show(t[1]).replace("bv2", "bv1") in (X.show(acc).replace("bv2", "bv1"), X.show(X.parse_expr("list(itertools.accumulate(map(len, sequence)))")).replace("bv2", "bv1")):
        # itertools.accumulate of the lengths: each entry is the previous total plus the length
        out += "Definition cs_entry (total length : Z) : Z := (total + length).\nDefinition cs_next (total length : Z) : Z := (total + length).\n"
    else:
        loops = hits["$loops"]
        if len(loops) != 1 or loops[0]["iter"] != seq:
            raise Untranslatable("ConcatDataset.cumsum outside subset (%s)" % stopped, None, path2)
        L = loops[0]
        d = L["depth"]
        ends = [e_ for kind, c_, e_ in L["paths"] if kind == "end"]
        lists = [n for n in L["assigned"] if L["before"].get(n) == ("list", ())]
        totals = [n for n in L["assigned"] if L["before"].get(n) == X.const(0)]
        if len(ends) != 1 or len(lists) != 1 or len(totals) != 1:
            raise Untranslatable("ConcatDataset.cumsum loop outside subset", None, path2)
        e_ = ends[0]
        ln, tn = lists[0], totals[0]
        em = X.Emit(lambda u: "total" if u == ("havoc", tn, d) else "length" if u == ("call", S("len"), (("bv", d),), ()) else None, path2)
        app = e_[ln]
        if not (app[0] == "appended" and app[1] == ("havoc", ln, d)):
            raise Untranslatable("ConcatDataset.cumsum: expected append", None, path2)
        if t is None or t[0] != "ret" or t[1] != ("after", ln, d):
            raise Untranslatable("ConcatDataset.cumsum: does not return the list it builds", None, path2)
        out += "Definition cs_entry (total length : Z) : Z := %s.\nDefinition cs_next (total length : Z) : Z := %s.\n" % (em.z(app[2]), em.z(e_[tn]))
    return [pg.write_gen(ctx, "C12_gen", out)]


# ------------------------------------------------------------------------------------------------
PRE = "From DV Require Import Base.Tactics Model.C12.\nFrom G Require Import C12_gen C12_defs.\nOpen Scope nat_scope.\n"


def _write_tree(root, files):
    import h5py
    import numpy as np

    shutil.rmtree(root, ignore_errors=True)
    os.makedirs(root)
    names = []
    for i, n in enumerate(files):
        name = os.path.join(root, "vol_%02d.h5" % i)
        with h5py.File(name, "w") as f:
            k = np.zeros((n, 1, 1, 2), dtype=np.float32)
            for s in range(n):
                k[s] = (i + 1) * 100 + s + 1
            f.create_dataset("kspace", data=k)
        names.append(name)
    return names


def _flt_obj(flt):
    return None if flt is None else slice(flt[0], flt[1])


def _flt_lit(flt):
    if flt is None:
        return "None"
    f = lambda v: "None" if v is None else "(Some (%d)%%Z)" % v
    return "(Some (%s, %s))" % (f(flt[0]), f(flt[1]))


def gen_cases(ctx):
    rng = ctx.rng
    cases = [([3], None, 1), ([5, 2], (1, None), 1), ([1, 1, 4], (None, -1), 2), ([3, 4], None, 0)]
    for _ in range(ctx.n(60, 700)):
        files = [rng.randint(1, 7) for _ in range(rng.randint(1, 5))]
        flt = rng.choice([None, None, (1, None), (None, -1), (1, -1), (2, 5), (0, 3), (-3, None), (4, 2)])
        c = rng.choice([0, 0, 1, 1, 2, 3])
        cases.append((files, flt, c))
    return cases


def impl_dataset(root, files, flt, c):
    from direct.data.h5_data import H5SliceData

    names = _write_tree(root, files)
    ds = H5SliceData(root, filenames_filter=names, slice_data=_flt_obj(flt), kspace_context=c)
    return ds, names


def correspond(ctx):
    import numpy as np
    from .. import shims

    shims.install(ctx.repo)
    corr = Corr()
    corr.rule = RULE
    root = os.path.join(ctx.work, "h5")
    cases = gen_cases(ctx)
    terms, impls = [], []
    for (files, flt, c) in cases:
        try:
            ds, names = impl_dataset(root, files, flt, c)
            idx_of = {n: i for i, n in enumerate(names)}
            data = [[idx_of[str(f)], int(s)] for f, s in ds.data]
            ranges = [[ds.volume_indices[k].start, ds.volume_indices[k].stop] for k in ds.volume_indices]
            items = []
            order = list(range(len(ds)))
            ctx.rng.shuffle(order)
            got = {}
            for i in order + order[:3]:
                smp = ds[i]
                k = smp["kspace"]
                # (coil, [depth,] h, w): decode slice ids
                if c == 0:
                    ids = [int(round(float(np.real(k).reshape(-1)[0])))]
                else:
                    ids = [int(round(float(np.real(k[0, d]).reshape(-1)[0]))) for d in range(k.shape[1])]
                fno = idx_of[smp["filename"]]
                dec = [None if v == 0 else (v - (fno + 1) * 100 - 1) for v in ids]
                rec = [fno, int(smp["slice_no"]), [(-1 if d is None else d) for d in dec]]
                if i in got and got[i] != rec:
                    rec = ["unstable", got[i], rec]
                got[i] = rec
            items = [got[i] for i in range(len(ds))]
            impls.append(["ok", data, ranges, items])
        except Exception as e:  # noqa
            impls.append(["raises", type(e).__name__ + ": " + str(e)[:80]])
        terms.append("run_case %s %s %d" % (coqrun.lit(files), _flt_lit(flt), c))
    vals = coqrun.eval_sharded("c12_cases", PRE, terms, ctx.work, gen_dir=ctx.gen_dir, shard=120)
    for (files, flt, c), im, mv in zip(cases, impls, vals):
        d, r, it = mv
        model = ["ok", [list(x) for x in d], [list(x) for x in r], [[a, b, [(-1 if w is None else w["Some"]) for w in win]] for (a, b, win) in it]]
        corr.dist("files", len(files))
        corr.dist("filter", flt)
        corr.dist("context", c)
        corr.compare({"files": files, "filter": flt, "context": c}, im, model, nontrivial=(flt is not None or c > 0))
    corr.merge(_correspond_concat(ctx))
    shutil.rmtree(root, ignore_errors=True)
    return corr


class _Member:
    def __init__(self, tag, n):
        self.tag, self.n = tag, n

    def __len__(self):
        return self.n

    def __getitem__(self, i):
        if not (0 <= i < self.n):
            raise IndexError((self.tag, i))
        return (self.tag, i)


def _correspond_concat(ctx):
    from direct.data.datasets import ConcatDataset

    corr = Corr()
    rng = ctx.rng
    cases, impls, terms = [], [], []
    for _ in range(ctx.n(150, 2000)):
        sizes = [rng.choice([0, 1, 1, 2, 3, 5]) for _ in range(rng.randint(1, 5))]
        total = sum(sizes)
        idx = rng.randint(-total - 2, total + 1)
        try:
            cd = ConcatDataset([_Member(t, n) for t, n in enumerate(sizes)])
            got = cd[idx]
            im = ["ok", [int(got[0]), int(got[1])]]
        except Exception as e:  # noqa
            im = ["raises"]
        cases.append({"sizes": sizes, "idx": idx})
        impls.append(im)
        terms.append("concat_getitem_gen %s (%d)%%Z" % (coqrun.lit(sizes), idx))
    vals = coqrun.eval_sharded("c12_concat", PRE, terms, ctx.work, gen_dir=ctx.gen_dir, shard=400)
    for case, im, mv in zip(cases, impls, vals):
        model = ["raises"] if mv is None else ["ok", list(mv["Some"])]
        corr.dist("concat_members", len(case["sizes"]))
        corr.dist("concat_idx_sign", "neg" if case["idx"] < 0 else "nonneg")
        corr.compare(case, im, model, nontrivial=len(case["sizes"]) >= 2)
    return corr


# ------------------------------------------------------------------------------------------------
def oracles(ctx, deep):
    import numpy as np
    from .. import shims

    shims.install(ctx.repo)
    out, seen, runs = [], set(), 0

    def add(v):
        if v.key() not in seen:
            seen.add(v.key())
            out.append(v)

    root = os.path.join(ctx.work, "h5o")
    rng = ctx.rng
    for _ in range(ctx.n(40, 400) * (3 if deep else 1)):
        files = [rng.randint(1, 6) for _ in range(rng.randint(1, 4))]
        flt = rng.choice([None, None, (1, None), (None, -1), (1, -1), (2, 5)])
        c = rng.choice([0, 1, 1, 2, 3])
        runs += 1
        try:
            ds, names = impl_dataset(root, files, flt, c)
        except Exception as e:  # noqa
            add(Violation("dataset-constructible", "H5SliceData raises %s" % type(e).__name__, {"files": files, "filter": flt, "context": c, "error": str(e)[:200]}, {"kind": "construct"}))
            continue
        idx_of = {n: i for i, n in enumerate(names)}
        # ranges partition 0..len-1, ordered
        cur = 0
        okp = True
        for k in ds.volume_indices:
            r = ds.volume_indices[k]
            if r.start != cur or r.stop < r.start:
                okp = False
            cur = r.stop
        if not okp or cur != len(ds):
            add(Violation("ranges-partition", "volume_indices do not partition 0..len-1 in order", {"files": files, "filter": flt, "ranges": [[r.start, r.stop] for r in ds.volume_indices.values()], "len": len(ds)}, {"kind": "ranges"}))
        for fname, r in ds.volume_indices.items():
            n = files[idx_of[str(fname)]]
            adm = list(range(*_flt_obj(flt).indices(n))) if flt is not None else list(range(n))
            for off, i in enumerate(r):
                try:
                    smp = ds[i]
                except Exception as e:  # noqa
                    add(Violation("item-designated", "__getitem__(%d) raises %s" % (i, type(e).__name__), {"files": files, "filter": flt, "context": c, "index": i, "error": str(e)[:200]}, {"kind": "getitem-raises", "filtered": flt is not None, "context": c > 0}))
                    continue
                fno = idx_of[str(fname)]
                s = adm[off] if off < len(adm) else None
                if smp["filename"] != str(fname) or smp["slice_no"] != s:
                    add(Violation("item-designated", "item %d is (%s, %s), its range designates (%s, %s)" % (i, smp["filename"], smp["slice_no"], fname, s), {"files": files, "filter": flt, "context": c, "index": i}, {"kind": "item", "filtered": flt is not None}))
                    continue
                k = smp["kspace"]
                want = [(fno + 1) * 100 + (s - c + j) + 1 if 0 <= s - c + j < n else 0 for j in range(2 * c + 1)] if c else [(fno + 1) * 100 + s + 1]
                try:
                    got = [int(round(float(np.real(k[0, d]).reshape(-1)[0]))) for d in range(k.shape[1])] if c else [int(round(float(np.real(k).reshape(-1)[0])))]
                except Exception:
                    got = None
                if got != want:
                    short = n < 2 * c + 1
                    add(Violation("context-window", "context window of slice %d (file with %d slices, context %d%s) is %s, expected %s" % (s, n, c, ", filter %s" % (flt,) if flt else "", got, want), {"files": files, "filter": flt, "context": c, "index": i, "observed": got, "expected": want}, {"kind": "window", "filtered": flt is not None}))
    shutil.rmtree(root, ignore_errors=True)
    runs += _synthetic_oracles(ctx, add, deep)
    runs += _concat_oracles(ctx, add, deep)
    runs += _seed_zero_oracles(ctx, add)
    ctx.oracle_runs = runs
    return out


def _concat_oracles(ctx, add, deep):
    """Through dataset concatenation every index (also negative) designates the item of the member that contains it."""
    from direct.data.datasets import ConcatDataset

    runs = 0
    rng = ctx.rng
    for _ in range(ctx.n(120, 1200) * (3 if deep else 1)):
        sizes = [rng.choice([0, 0, 1, 2, 3, 5]) for _ in range(rng.randint(1, 5))]
        total = sum(sizes)
        if total == 0:
            continue
        flat = [(m, k) for m, n in enumerate(sizes) for k in range(n)]
        runs += 1
        try:
            cd = ConcatDataset([_Member(t, n) for t, n in enumerate(sizes)])
            if len(cd) != total:
                add(Violation("concat-length", "ConcatDataset of member sizes %s has length %d" % (sizes, len(cd)), {"sizes": sizes, "observed": len(cd)}, {"kind": "concat-len"}))
                continue
            for idx in range(-total, total):
                want = flat[idx]
                try:
                    got = tuple(int(v) for v in cd[idx])
                except Exception as e:  # noqa
                    got = ("raises", type(e).__name__)
                if got != want:
                    add(Violation("concat-item", "ConcatDataset(member sizes %s)[%d] is %s, expected item %d of member %d" % (sizes, idx, got, want[1], want[0]), {"sizes": sizes, "index": idx, "observed": list(got), "expected": list(want)}, {"kind": "concat-item", "has_empty_member": 0 in sizes}))
                    break
        except Exception as e:  # noqa
            add(Violation("concat-item", "ConcatDataset(member sizes %s) raises %s" % (sizes, type(e).__name__), {"sizes": sizes}, {"kind": "concat-raises"}))
    return runs


def _seed_zero_oracles(ctx, add):
    """A per-item seed may legally be 0: the seeded generators must treat it like any other seed."""
    import numpy as np
    from direct.data.datasets import FakeMRIBlobsDataset
    from direct.data.fake import FakeMRIData
    from direct.data.sens import simulate_sensitivity_maps

    runs = 0
    for seed in (0, 1, 7):
        outs = []
        for g in (3, 99):
            np.random.seed(g)
            outs.append(simulate_sensitivity_maps((6, 5), 3, seed=seed))
        runs += 1
        if not np.array_equal(outs[0], outs[1]):
            add(Violation("same-index-twice", "simulate_sensitivity_maps(seed=%d) depends on the global numpy stream" % seed, {"function": "simulate_sensitivity_maps", "seed": seed}, {"dataset": "sens", "kind": "seed-value", "seed_is_zero": seed == 0}))
        outs = []
        for g in (3, 99):
            np.random.seed(g)
            outs.append(FakeMRIData(ndim=2)(sample_size=1, num_coils=3, spatial_shape=(8, 10), seed=seed)[0]["kspace"])
        runs += 1
        if not np.array_equal(outs[0], outs[1]):
            add(Violation("same-index-twice", "FakeMRIData(seed=%d) depends on the global numpy stream" % seed, {"function": "FakeMRIData.__call__", "seed": seed}, {"dataset": "FakeMRIData", "kind": "seed-value", "seed_is_zero": seed == 0}))
    # a dataset whose per-item seeds contain 0 (dataset seed 131, 40 items -> item 12), accessed in two different orders
    try:
        ds = FakeMRIBlobsDataset(sample_size=40, num_coils=3, spatial_shape=(8, 10), seed=131)
        zero = [i for i, d in enumerate(ds.data) if int(d[2]) == 0]
        for i in zero[:1]:
            np.random.seed(5)
            a = ds[i]
            _ = ds[(i + 1) % len(ds)]
            np.random.seed(77)
            b = ds[i]
            runs += 1
            if not _same(a, b):
                add(Violation("same-index-twice", "FakeMRIBlobsDataset(seed=131)[%d] (per-item seed 0) differs between two accesses" % i, {"dataset": "FakeMRIBlobsDataset", "seed": 131, "index": i}, {"dataset": "FakeMRIBlobsDataset", "kind": "seed-value", "seed_is_zero": True}))
    except Exception:
        pass
    return runs


def _same(a, b):
    import numpy as np

    if isinstance(a, dict):
        return a.keys() == b.keys() and all(_same(a[k], b[k]) for k in a)
    if isinstance(a, np.ndarray):
        return a.shape == b.shape and np.array_equal(a, b, equal_nan=True)
    if isinstance(a, (list, tuple)):
        return len(a) == len(b) and all(_same(x, y) for x, y in zip(a, b))
    return a == b


def _synthetic_oracles(ctx, add, deep):
    import numpy as np
    from direct.data.datasets import FakeMRIBlobsDataset, SheppLoganDataset, SheppLoganProtonDataset

    runs = 0
    rng = ctx.rng
    for trial in range(ctx.n(6, 40)):
        three = trial % 2 == 1
        shape = (rng.randint(2, 3), 8, 10) if three else (8, 10)
        coils = rng.choice([1, 2, 3])
        seed = rng.randint(0, 1000)
        kw = dict(sample_size=rng.randint(1, 3), num_coils=coils, spatial_shape=shape, seed=seed)
        try:
            ds1 = FakeMRIBlobsDataset(**kw)
            ds2 = FakeMRIBlobsDataset(**kw)
            n = len(ds1)
            order = list(range(n))
            rng.shuffle(order)
            first = {}
            for i in order:
                np.random.seed(rng.randint(0, 10**6))  # global stream state must not matter
                first[i] = ds1[i]
            runs += 1
            for i in range(n):
                np.random.seed(rng.randint(0, 10**6))
                again = ds1[i]
                other = ds2[i]
                if not _same(first[i], again):
                    add(Violation("same-index-twice", "FakeMRIBlobsDataset: loading index %d twice gives different data" % i, {"dataset": "FakeMRIBlobsDataset", "kwargs": {k: (list(v) if isinstance(v, tuple) else v) for k, v in kw.items()}, "index": i}, {"dataset": "FakeMRIBlobsDataset", "kind": "twice"}))
                    break
                if not _same(first[i], other):
                    add(Violation("same-seed-same-data", "FakeMRIBlobsDataset: two datasets built with the same seed differ at index %d" % i, {"dataset": "FakeMRIBlobsDataset", "kwargs": {k: (list(v) if isinstance(v, tuple) else v) for k, v in kw.items()}, "index": i}, {"dataset": "FakeMRIBlobsDataset", "kind": "rebuilt"}))
                    break
            # ranges
            cur = 0
            for r in ds1.volume_indices.values():
                if r.start != cur:
                    add(Violation("ranges-partition", "FakeMRIBlobsDataset ranges not contiguous", {"kwargs": str(kw)}, {"kind": "ranges", "dataset": "FakeMRIBlobsDataset"}))
                cur = r.stop
            if cur != n:
                add(Violation("ranges-partition", "FakeMRIBlobsDataset ranges do not cover the dataset", {"kwargs": str(kw)}, {"kind": "ranges", "dataset": "FakeMRIBlobsDataset"}))
        except Exception as e:  # noqa
            add(Violation("dataset-constructible", "FakeMRIBlobsDataset raises %s: %s" % (type(e).__name__, str(e)[:120]), {"kwargs": str(kw)}, {"kind": "construct", "dataset": "FakeMRIBlobsDataset"}))
    for trial in range(ctx.n(3, 12)):
        seed = rng.randint(0, 1000)
        kw = dict(shape=(8, 10, rng.randint(2, 4)), num_coils=rng.choice([1, 2, 3]), seed=seed)
        try:
            ds1 = SheppLoganProtonDataset(**kw)
            ds2 = SheppLoganProtonDataset(**kw)
            runs += 1
            for i in range(len(ds1)):
                np.random.seed(rng.randint(0, 10**6))
                a = ds1[i]
                np.random.seed(rng.randint(0, 10**6))
                b = ds1[i]
                c2 = ds2[i]
                if not _same(a, b) or not _same(a, c2):
                    add(Violation("same-index-twice", "SheppLoganDataset: index %d not reproducible" % i, {"dataset": "SheppLogan", "kwargs": str(kw), "index": i, "slice_seed": int(ds1.seed[i])}, {"dataset": "SheppLoganDataset", "kind": "twice"}))
                    break
        except Exception as e:  # noqa
            add(Violation("dataset-constructible", "SheppLoganProtonDataset raises %s: %s" % (type(e).__name__, str(e)[:120]), {"kwargs": str(kw)}, {"kind": "construct", "dataset": "SheppLogan"}))
    return runs
