"""C01 — Fourier operators are exact inverse pairs and equal the reference DFT."""
import ast
import itertools

from .. import coqrun, py2gallina as pg, symex as X
from ..core import Corr, Untranslatable, Violation

ID = "C01"
LEVEL = "proof"
COQ_FILES = ["Tie/C01_defs.v", "Tie/C01_tie.v", "Props/C01_props.v", "Props/C01_dft_props.v"]
PROPS_FILES = ["C01_props.v", "C01_dft_props.v"]
TRUSTED_BASE = [
    "vlib/symex.py (symbolic execution of the translated Python subset on the ast: the translator reads value / outcome trees, so local names, intermediates, helpers and the form of branches do not matter; its assumptions - pure expressions, opaque calls, no aliasing writes, try handlers not modelled - are listed in DESIGN.md 12.7; fail-closed)",
    "py2gallina unit 'shifts' (roll_one_dim narrow/cat arithmetic, fftshift / ifftshift amounts) and unit 'fft skeleton' (operation sequence of fft2 / ifft2 under the three flags)",
    "torch.fft.fftn / ifftn compute the textbook N-d DFT with the requested normalisation and are inverse to each other (contract; validated numerically against a float64 evaluation of the textbook centred DFT for lengths 1-9, and exactly for lengths 1, 2, 4 against the Gaussian-integer model evaluated in Coq)",
    "torch narrow / cat act on every 1-D fibre along `dim` (validated by exact correspondence on iota tensors of rank 1-5)",
    "MathComp 1.15 (algC, primitive roots); float32 rounding is outside the exact model",
]
ASSUMPTIONS = ["exact arithmetic for the DFT identities (rounding error of float32 FFTs is not bounded by a theorem)", "half precision is rejected by the code and not modelled"]
RULE = "roll / fftshift / ifftshift on iota tensors (rank 1-5, axis lengths 1-7, all axis subsets incl. dim=None, negative and oversized shifts) compared exactly; centred DFT on Gaussian-integer input for axis lengths 1, 2, 4 compared exactly; non-trivial = some transformed axis longer than 1; distinct by (function, shape, arguments)"


def _sym(n):
    return ("sym", n)


def _call_parts(v, path, what):
    """(function value, positional args, keyword dict) of a call value."""
    if v[0] != "call":
        raise Untranslatable("%s: expected a call, found %s" % (what, X.show(v)[:80]), None, path)
    return v[1], list(v[2]), dict(v[3])


def _emit_tree(t, leaf, em, path, what):
    """Gallina `if` tree over the path conditions of an outcome tree (raises must have been pruned)."""
    if t[0] == "if":
        return "(if %s then %s else %s)" % (em.b(t[1]), _emit_tree(t[2], leaf, em, path, what), _emit_tree(t[3], leaf, em, path, what))
    if t[0] == "ret":
        return leaf(t[1])
    raise Untranslatable("%s: outcome outside subset: %s" % (what, t[0]), None, path)


def generate(ctx):
    """Every function is executed symbolically (vlib/symex.py): what is translated is the value each function returns in
    terms of its parameters, so local names, named intermediates, guard clauses versus else-branches, comprehensions
    versus loops and private helpers do not matter; the arithmetic is emitted as it stands and left to `lia`."""
    path = ctx.src("direct/data/transforms.py")
    tree, _ = pg.parse_file(path)
    out = ""
    data, dim = _sym("data"), _sym("dim")
    # ---------------- roll_one_dim: the input itself (no-op) or a cat of narrows of the input along dim ----------------
    t, _n = X.run_function(tree, path, "roll_one_dim")
    t = X.prune_raises(X.drop_do(t))
    if t is None:
        raise Untranslatable("roll_one_dim: always raises", None, path)
    sizes = {("call", ("attr", data, "size"), (dim,), ()), ("sub", ("attr", data, "shape"), dim)}

    def leaf_rd(v):
        if v == _sym("shift"):
            return "s"
        if v in sizes:
            return "n"
        return None

    em = X.Emit(leaf_rd, path)

    def segs(v):
        if v == data:
            return "[]"
        f, args, kw = _call_parts(v, path, "roll_one_dim result")
        if f != ("attr", _sym("torch"), "cat") or not args or args[0][0] not in ("tuple", "list") or (args[1:] + [kw.get("dim")])[0] != dim:
            raise Untranslatable("roll_one_dim: result is neither the input nor torch.cat(pieces, dim): %s" % X.show(v)[:100], None, path)
        pieces = []
        for pc in args[0][1]:
            f2, a2, k2 = _call_parts(pc, path, "roll_one_dim piece")
            if f2 == ("attr", data, "narrow") and len(a2) == 3 and a2[0] == dim and not k2:
                pieces.append("(%s, %s)" % (em.z(a2[1]), em.z(a2[2])))
            elif f2 == ("attr", _sym("torch"), "narrow") and len(a2) == 4 and a2[0] == data and a2[1] == dim and not k2:
                pieces.append("(%s, %s)" % (em.z(a2[2]), em.z(a2[3])))
            else:
                raise Untranslatable("roll_one_dim: piece is not a narrow of the input along dim: %s" % X.show(pc)[:100], None, path)
        return "[" + "; ".join(pieces) + "]"

    out += "Definition r_noop (s n : Z) : bool := %s.\n" % _emit_tree(t, lambda v: "true" if v == data else "false", em, path, "roll_one_dim")
    out += "Definition r_segments (s n : Z) : list (Z * Z) := %s.\n" % _emit_tree(t, segs, em, path, "roll_one_dim")
    # ---------------- roll: roll_one_dim folded over zip(shift, dim), in order ----------------
    t, _n = X.run_function(tree, path, "roll", opaque={"roll_one_dim"})
    t = X.prune_raises(X.drop_do(t))
    want = ("ret", ("fold", 0, (("call", _sym("roll_one_dim"), (("ba", 1, 0), ("sub", ("bv", 1), X.const(0)), ("sub", ("bv", 1), X.const(1))), ()),), (data,), ("call", _sym("zip"), (_sym("shift"), dim), ())))
    if t != want:
        raise Untranslatable("roll: not roll_one_dim folded over zip(shift, dim): %s" % (X.show(t[1]) if t and t[0] == "ret" else t,), None, path)
    # ---------------- fftshift / ifftshift: roll by f(size) along each axis; all axes when dim is None ----------------
    for name in ("fftshift", "ifftshift"):
        t, _n = X.run_function(tree, path, name, opaque={"roll"})
        t = X.prune_raises(X.drop_do(t))
        amounts, defaults = set(), set()
        for conds, lf in X.leaves(t):
            f, args, kw = _call_parts(lf[1], path, name)
            if f != _sym("roll") or (args[:1] + [kw.get("data")])[0] != data:
                raise Untranslatable("%s: result is not roll(data, ..)" % name, None, path)
            shift_v = args[1] if len(args) > 1 else kw.get("shift")
            dims_v = args[2] if len(args) > 2 else kw.get("dim")
            is_none = [pol if c == ("cmp", "is", dim, X.NONE) else (not pol) if c == ("cmp", "isnot", dim, X.NONE) else None for c, pol in conds]
            if len(is_none) != 1 or is_none[0] is None:
                raise Untranslatable("%s: branches other than `dim is None`" % name, None, path)
            if is_none[0]:
                rng = ("call", _sym("range"), (("call", ("attr", data, "dim"), (), ()),), ())
                rng2 = ("call", _sym("range"), (("call", _sym("len"), (("attr", data, "shape"),), ()),), ())
                if not (dims_v and dims_v[0] == "map" and dims_v[2] in (rng, rng2)):
                    raise Untranslatable("%s: default axes are not a list over range(data.dim()): %s" % (name, X.show(dims_v)[:100]), None, path)
                d = _bound_depth(dims_v[1])
                defaults.add(X.Emit(lambda v: "i" if v == ("bv", d) else None, path).z(dims_v[1]))
            elif dims_v != dim:
                raise Untranslatable("%s: the axes passed on are not `dim`" % name, None, path)
            if not (shift_v and shift_v[0] == "map" and shift_v[2] == dims_v):
                raise Untranslatable("%s: shifts are not computed per axis of the axes rolled: %s" % (name, X.show(shift_v)[:100]), None, path)
            d = _bound_depth(shift_v[1])
            sz = {("sub", ("attr", data, "shape"), ("bv", d)), ("call", ("attr", data, "size"), (("bv", d),), ())}
            amounts.add(X.Emit(lambda v: "n" if v in sz else None, path).z(shift_v[1]))
        if len(amounts) != 1 or len(defaults) != 1:
            raise Untranslatable("%s: the shift amount / default axes differ between branches" % name, None, path)
        out += "Definition %s_amount (n : Z) : Z := %s.\n" % (name, amounts.pop())
        out += "Definition %s_default_axis (i : Z) : Z := %s.\n" % (name, defaults.pop())
    # ---------------- fft2 / ifft2: per (centered, complex_input) the sequence of operations applied to the input ----------------
    out += "From DV Require Import Model.C01_ops.\n"
    prim = {"fftshift", "ifftshift", "verify_fft_dtype_possible", "assert_complex", "view_as_complex", "view_as_real"}
    for name in ("fft2", "ifft2"):
        t, _n = X.run_function(tree, path, name, opaque=prim)
        t = X.prune_raises(X.drop_do(t))
        rows = {}
        for c in (True, False):
            for ci in (True, False):
                rows[(c, ci)] = "[%s]" % "; ".join(_fft_ops(_select(t, {"centered": c, "complex_input": ci}, name, path), name, path))
        out += "Definition %s_tab (c ci : bool) : list fop := if c then (if ci then %s else %s) else (if ci then %s else %s).\n" % (name, rows[(True, True)], rows[(True, False)], rows[(False, True)], rows[(False, False)])
    return [pg.write_gen(ctx, "C01_gen", out)]


def _bound_depth(v):
    """Depth of the (single) bound element a map body refers to."""
    found = set()

    def walk(x):
        if isinstance(x, tuple):
            if len(x) == 2 and x[0] in ("bv", "bi"):
                found.add(x[1])
            for y in x:
                walk(y)

    walk(v)
    return min(found) if found else 1


def _select(t, flags, name, path):
    """The leaf of an outcome tree reached for the given values of the boolean flag parameters."""
    while t[0] == "if":
        c, pol = t[1], True
        if c[0] == "un" and c[1] == "not":
            c, pol = c[2], False
        if c[0] != "sym" or c[1] not in flags:
            raise Untranslatable("%s: branches on something other than centered / complex_input (and argument guards): %s" % (name, X.show(t[1])[:80]), None, path)
        t = t[2] if flags[c[1]] == pol else t[3]
    if t[0] != "ret":
        raise Untranslatable("%s: outcome outside subset" % name, None, path)
    return t[1]


def _fft_ops(v, name, path):
    """The chain of operations applied to `data`, innermost first."""
    ops = []
    dim = _sym("dim")
    while v != _sym("data"):
        f, args, kw = _call_parts(v, path, name)
        if f in (_sym("view_as_real"), _sym("view_as_complex")) and len(args) == 1 and not kw:
            ops.append("ViewReal" if f[1] == "view_as_real" else "ViewComplex")
        elif f in (_sym("fftshift"), _sym("ifftshift")) and len(args) >= 1 and (args[1:] + [kw.get("dim")])[0] == dim:
            ops.append("FShift" if f[1] == "fftshift" else "IShift")
        elif f in (("attr", ("attr", _sym("torch"), "fft"), "fftn"), ("attr", ("attr", _sym("torch"), "fft"), "ifftn")) and len(args) == 1 and kw.get("dim") == dim:
            norm = kw.get("norm")
            ok = norm is not None and norm[0] == "ife" and norm[1] == _sym("normalized") and norm[2] == X.const("ortho") and norm[3] in (X.NONE, X.const("backward"))
            if not ok:
                raise Untranslatable("%s: norm is not 'ortho' if normalized else None: %s" % (name, X.show(norm)[:60] if norm else None), None, path)
            ops.append("Fwd" if f[2] == "fftn" else "Bwd")
        else:
            raise Untranslatable("%s: operation outside subset: %s" % (name, X.show(v)[:100]), None, path)
        v = args[0]
    return list(reversed(ops))


# ------------------------------------------------------------------------------------------------
PRE = "From DV Require Import Base.Tactics Base.NList Base.Rot Model.C01 Model.C01_ops.\nFrom G Require Import C01_gen C01_defs.\nOpen Scope Z_scope.\n"


def _iota(shape):
    import torch

    n = 1
    for s in shape:
        n *= s
    return torch.arange(1, n + 1, dtype=torch.float32).reshape(shape)


def _tolist(t):
    def conv(x):
        return [conv(y) for y in x] if isinstance(x, list) else int(x)

    return conv(t.tolist())


def gen_cases(ctx):
    rng = ctx.rng
    cases = []
    for _ in range(ctx.n(220, 3000)):
        r = rng.choice([1, 2, 2, 3, 3, 4, 5])
        shape = [rng.choice([1, 2, 3, 3, 4, 5, 6, 7]) for _ in range(r)]
        while _prod(shape) > 600:
            shape[rng.randrange(r)] = 1
        fn = rng.choice(["roll", "fftshift", "ifftshift", "fftshift", "ifftshift"])
        if fn == "roll":
            k = rng.randint(1, min(3, r))
            dims = [rng.randrange(r) for _ in range(k)]
            shifts = [rng.randint(-9, 12) for _ in range(k)]
            cases.append((fn, shape, (shifts, dims)))
        else:
            if rng.random() < 0.15:
                dims = None
            else:
                dims = [rng.randrange(r) for _ in range(rng.randint(1, min(3, r)))]
            cases.append((fn, shape, (dims,)))
    return cases


def _prod(l):
    p = 1
    for x in l:
        p *= x
    return p


def run_impl(case):
    from direct.data import transforms as T

    fn, shape, args = case
    x = _iota(shape)
    try:
        if fn == "roll":
            return ["ok", _tolist(T.roll(x, args[0], args[1]))]
        if fn == "fftshift":
            return ["ok", _tolist(T.fftshift(x, dim=args[0]))]
        if fn == "ifftshift":
            return ["ok", _tolist(T.ifftshift(x, dim=args[0]))]
    except Exception as e:  # noqa
        return ["raises", type(e).__name__]


def model_term(case):
    fn, shape, args = case
    r = len(shape)
    x = coqrun.lit(_tolist(_iota(shape)))
    if fn == "roll":
        pairs = list(zip(args[0], args[1]))
    else:
        dims = list(range(r)) if args[0] is None else args[0]
        pairs = [("%s_amount %d" % (fn, shape[d]), d) for d in dims]
    term = "(%s : nl %d Z)" % (x, r)
    for s, d in pairs:
        sv = "(%s)" % s if isinstance(s, str) else coqrun.lit(s)
        term = "(@deep Z %d %d (@roll1_gen (nl %d Z) %s) %s)" % (d, r - d, r - d - 1, sv, term)
    return term


def correspond(ctx):
    from .. import shims

    shims.install(ctx.repo)
    corr = Corr()
    corr.rule = RULE
    cases = gen_cases(ctx)
    impl = [run_impl(c) for c in cases]
    vals = coqrun.eval_sharded("c01_cases", PRE, [model_term(c) for c in cases], ctx.work, gen_dir=ctx.gen_dir, shard=120)
    for case, im, mv in zip(cases, impl, vals):
        fn, shape, args = case
        corr.dist("function", fn)
        corr.dist("rank", len(shape))
        corr.compare({"fn": fn, "shape": shape, "args": args}, im, ["ok", mv], nontrivial=any(n > 1 for n in shape))
    corr.merge(_correspond_dft(ctx))
    return corr


def _correspond_dft(ctx):
    """Exact: centred, un-normalised fft2 on Gaussian-integer input, transformed axis lengths in {1, 2, 4}."""
    import torch
    from direct.data import transforms as T

    corr = Corr()
    rng = ctx.rng
    cases, impls, terms = [], [], []
    for _ in range(ctx.n(60, 600)):
        h, w = rng.choice([1, 2, 4]), rng.choice([1, 2, 4])
        c = rng.randint(1, 2)
        vals = [[[[rng.randint(-5, 5), rng.randint(-5, 5)] for _ in range(w)] for _ in range(h)] for _ in range(c)]
        x = torch.tensor(vals, dtype=torch.float32)
        inverse = rng.random() < 0.3
        try:
            if inverse:
                y = T.ifft2(x, dim=(1, 2), centered=True, normalized=False) * (h * w)
            else:
                y = T.fft2(x, dim=(1, 2), centered=True, normalized=False)
            yr = torch.round(y)
            if float((y - yr).abs().max()) > 1e-3:
                impls.append(["inexact", float((y - yr).abs().max())])
            else:
                impls.append(["ok", _tolist(yr)])
        except Exception as e:  # noqa
            impls.append(["raises", type(e).__name__])
        cases.append({"shape": [c, h, w], "inverse": inverse, "values": vals})
        lit = "[" + "; ".join("[" + "; ".join("[" + "; ".join("(%d, %d)" % (p[0], p[1]) for p in row) + "]" for row in coil) + "]" for coil in vals) + "]"
        terms.append("map (cdft2_zi %s) %s" % ("true" if inverse else "false", lit))
    vals = coqrun.eval_sharded("c01_dft", PRE, terms, ctx.work, gen_dir=ctx.gen_dir, shard=200)
    for case, im, mv in zip(cases, impls, vals):
        model = ["ok", [[[[p[0], p[1]] for p in row] for row in coil] for coil in mv]]
        corr.dist("dft_shape", case["shape"][1:])
        corr.compare(case, im, model, nontrivial=case["shape"][1] * case["shape"][2] > 1)
    return corr


# ------------------------------------------------------------------------------------------------
def _ref_cdft(x, dims, centered, normalized, inverse):
    """Textbook (shifted) DFT in float64: X[k] = sum_m x[m] w^((m-c)(k-c)), w = exp(-+2 pi i / n), c = n // 2."""
    import numpy as np

    y = np.asarray(x, dtype=np.complex128)
    for d in dims:
        n = y.shape[d]
        c = n // 2 if centered else 0
        m = np.arange(n)
        sign = 1.0 if inverse else -1.0
        W = np.exp(sign * 2j * np.pi * np.outer(m - c, m - c) / n)  # W[k, m]
        if normalized:
            W = W / np.sqrt(n)
        elif inverse:
            W = W / n
        y = np.moveaxis(np.tensordot(W, y, axes=([1], [d])), 0, d)
    return y


def oracles(ctx, deep):
    import numpy as np
    import torch
    from .. import shims

    shims.install(ctx.repo)
    from direct.data import transforms as T

    out, seen, runs = [], set(), 0

    def add(v):
        if v.key() not in seen:
            seen.add(v.key())
            out.append(v)

    rng = ctx.rng
    # shift helpers vs the reference shift, and mutual inverses
    for n in range(1, 10):
        for r, d in ((1, 0), (2, 0), (2, 1), (3, 1)):
            shape = [2] * r
            shape[d] = n
            x = _iota(shape)
            runs += 1
            try:
                a = T.fftshift(x, dim=[d]).numpy()
                b = T.ifftshift(x, dim=[d]).numpy()
                ra = np.fft.fftshift(x.numpy(), axes=[d])
                rb = np.fft.ifftshift(x.numpy(), axes=[d])
                if not np.array_equal(a, ra) or not np.array_equal(b, rb):
                    add(Violation("shift-reference", "fftshift/ifftshift differ from the reference shift for length %d (axis %d of rank %d)" % (n, d, r), {"n": n, "axis": d, "fftshift": a.tolist(), "reference": ra.tolist(), "ifftshift": b.tolist(), "reference_i": rb.tolist()}, {"kind": "shift", "odd": n % 2 == 1}))
                if not torch.equal(T.ifftshift(T.fftshift(x, dim=[d]), dim=[d]), x) or not torch.equal(T.fftshift(T.ifftshift(x, dim=[d]), dim=[d]), x):
                    add(Violation("shift-inverse", "ifftshift(fftshift(x)) != x for length %d" % n, {"n": n, "axis": d}, {"kind": "shift-inverse", "odd": n % 2 == 1}))
            except Exception as e:  # noqa
                add(Violation("shift-raises", "fftshift/ifftshift raise %s for length %d" % (type(e).__name__, n), {"n": n, "axis": d}, {"kind": "raises"}))
    for _ in range(ctx.n(120, 1200)):
        r = rng.choice([2, 3, 4])
        shape = [rng.randint(1, 6) for _ in range(r)]
        k = rng.randint(1, r)
        dims = rng.sample(range(r), k)
        x = _iota(shape)
        runs += 1
        try:
            a, b = T.fftshift(x, dim=dims).numpy(), T.ifftshift(x, dim=dims).numpy()
            ra, rb = np.fft.fftshift(x.numpy(), axes=dims), np.fft.ifftshift(x.numpy(), axes=dims)
            sh = [rng.randint(-7, 9) for _ in dims]
            c = T.roll(x, sh, dims).numpy()
            rc = np.roll(x.numpy(), sh, axis=dims)
            if not np.array_equal(a, ra) or not np.array_equal(b, rb) or not np.array_equal(c, rc):
                add(Violation("shift-reference", "roll / fftshift / ifftshift over axes %s of a tensor of shape %s differ from the reference" % (dims, shape), {"shape": shape, "axes": dims, "shifts": sh}, {"kind": "shift-multi", "sorted_axes": dims == sorted(dims)}))
        except Exception as e:  # noqa
            add(Violation("shift-raises", "shift helpers raise %s for axes %s, shape %s" % (type(e).__name__, dims, shape), {"shape": shape, "axes": dims}, {"kind": "raises-multi"}))
    # transforms: inverse pair, energy, reference DFT
    lens = list(range(1, 10)) if not deep else list(range(1, 13))
    trials = ctx.n(260, 2500) * (2 if deep else 1)
    for t in range(trials):
        rank = rng.choice([3, 3, 4, 4, 5, 6])  # including the complex axis
        three = rng.random() < 0.25 and rank >= 5
        nd = 3 if three else 2
        spatial = [rng.choice(lens) for _ in range(nd)]
        lead = [rng.randint(1, 2) for _ in range(rank - 1 - nd)]
        # transformed axes anywhere among the non-complex axes
        axes_all = list(range(rank - 1))
        dims = tuple(rng.sample(axes_all, nd)) if len(axes_all) >= nd else None  # any order of the axes
        if dims is None:
            continue
        shape = [rng.randint(1, 2) for _ in range(rank - 1)]
        for a, n in zip(dims, spatial):
            shape[a] = n
        centered, normalized, complex_input = rng.random() < 0.6, rng.random() < 0.6, rng.random() < 0.7
        g = torch.Generator().manual_seed(rng.randrange(1 << 30))
        xr = torch.randn(*shape, 2, generator=g)
        x = xr if complex_input else torch.view_as_complex(xr)
        cfg = {"shape": shape, "dim": list(dims), "centered": centered, "normalized": normalized, "complex_input": complex_input}
        runs += 1
        try:
            y = T.fft2(x, dim=dims, centered=centered, normalized=normalized, complex_input=complex_input)
            back = T.ifft2(y, dim=dims, centered=centered, normalized=normalized, complex_input=complex_input)
            forth = T.fft2(T.ifft2(x, dim=dims, centered=centered, normalized=normalized, complex_input=complex_input), dim=dims, centered=centered, normalized=normalized, complex_input=complex_input)
        except Exception as e:  # noqa
            add(Violation("fft-raises", "fft2/ifft2 raise %s: %s for %s" % (type(e).__name__, str(e)[:80], cfg), {"config": cfg}, {"kind": "raises"}))
            continue
        tol = 2e-4 * max(1.0, float(xr.abs().max())) * max(spatial)
        xc = torch.view_as_complex(xr)
        yc = torch.view_as_complex(y.contiguous()) if complex_input else y
        bc = torch.view_as_complex(back.contiguous()) if complex_input else back
        fc = torch.view_as_complex(forth.contiguous()) if complex_input else forth
        odd = any(n % 2 for n in spatial)
        site = {"kind": "fft", "centered": centered, "odd_length": odd}
        if bc.shape != xc.shape or float((bc - xc).abs().max()) > tol or float((fc - xc).abs().max()) > tol:
            add(Violation("inverse-pair", "ifft2(fft2(x)) != x (max error %.3g) for %s" % (float((bc - xc).abs().max()) if bc.shape == xc.shape else -1, cfg), {"config": cfg, "seed_note": "x = randn(shape, 2) with the run's generator"}, site))
        ref = _ref_cdft(xc.numpy(), dims, centered, normalized, False)
        err = float(np.abs(yc.numpy() - ref).max())
        if err > tol * (1 if normalized else max(1, _prod(spatial)) ** 0.5):
            add(Violation("reference-dft", "fft2 differs from the textbook %sDFT by %.3g for %s" % ("shifted " if centered else "", err, cfg), {"config": cfg, "max_abs_err": err}, site))
        refi = _ref_cdft(xc.numpy(), dims, centered, normalized, True)
        yi = T.ifft2(x, dim=dims, centered=centered, normalized=normalized, complex_input=complex_input)
        yic = torch.view_as_complex(yi.contiguous()) if complex_input else yi
        erri = float(np.abs(yic.numpy() - refi).max())
        if erri > tol:
            add(Violation("reference-dft", "ifft2 differs from the textbook inverse %sDFT by %.3g for %s" % ("shifted " if centered else "", erri, cfg), {"config": cfg, "max_abs_err": erri}, site))
        if normalized:
            e0, e1 = float((xc.abs() ** 2).sum()), float((yc.abs() ** 2).sum())
            if abs(e0 - e1) > 1e-3 * max(1.0, e0):
                add(Violation("energy", "normalised fft2 changes the energy: %.6g -> %.6g for %s" % (e0, e1, cfg), {"config": cfg}, site))
    # the shift helpers on their own, for every dtype and way of naming the axes (None, negative, unsorted)
    for t in range(ctx.n(60, 600)):
        nd = rng.randint(1, 4)
        shape = [rng.randint(1, 6) for _ in range(nd)]
        kind = rng.choice(["float", "complex", "int"])
        gnp = np.random.RandomState(rng.randrange(1 << 30))
        arr = gnp.randint(-9, 10, size=shape).astype(np.float32)
        if kind == "complex":
            arr = (arr + 1j * gnp.randint(-9, 10, size=shape)).astype(np.complex64)
        elif kind == "int":
            arr = arr.astype(np.int64)
        axes_choice = rng.choice(["none", "negative", "positive"])
        if axes_choice == "none":
            dim_arg, np_axes = None, None
        else:
            k = rng.randint(1, nd)
            ax = rng.sample(range(nd), k)
            dim_arg = tuple((a - nd) if axes_choice == "negative" else a for a in ax)
            np_axes = tuple(ax)
        x = torch.from_numpy(arr.copy())
        runs += 1
        for nm, fn, ref in (("fftshift", T.fftshift, np.fft.fftshift), ("ifftshift", T.ifftshift, np.fft.ifftshift)):
            cfg = {"function": nm, "shape": shape, "dtype": kind, "dim": list(dim_arg) if dim_arg is not None else None}
            try:
                got = fn(x.clone(), dim=dim_arg).numpy()
            except Exception as e:  # noqa
                add(Violation("shift-reference", "%s raises %s for %s" % (nm, type(e).__name__, cfg), {"config": cfg}, {"fn": nm, "kind": "raises"}))
                continue
            want = ref(arr, axes=np_axes)
            if got.shape != want.shape or not np.array_equal(got, want):
                add(Violation("shift-reference", "%s differs from the reference index map for %s" % (nm, cfg), {"config": cfg, "input": arr.tolist() if arr.size <= 24 and kind != "complex" else None}, {"fn": nm, "kind": "value"}))
    ctx.oracle_runs = runs
    return out
