"""C11 — self-supervised mask splitting is a partition that honours ratio and ACS."""
import ast
import math

from .. import coqrun, maskgen as G, py2gallina as pg, symex as X
from ..core import Corr, Untranslatable, Violation

ID = "C11"
LEVEL = "proof"
COQ_FILES = ["Tie/C11_defs.v", "Tie/C11_tie.v", "Props/C11_props.v"]
PROPS_FILES = ["C11_props.v"]
TRUSTED_BASE = [
    "vlib/symex.py (symbolic execution of the translated Python subset on the ast: the translator reads value / outcome trees, so local names, intermediates, helpers and the form of branches do not matter; its assumptions - pure expressions, opaque calls, no aliasing writes, try handlers not modelled - are listed in DESIGN.md 12.7; fail-closed)",
    "py2gallina unit 'ssl' (per-cell boolean expressions of MaskSplitter._gaussian_split / _uniform_split / _half_split: mask & ~acs, clearing of the protected region, input = mask & ~target, | acs; the count expressions handed to the fill routines; the Cython kernel's loop condition from the .pyx)",
    "fill routines as oracles with a contract: gaussian_fill returns need = count + 1 distinct cells inside the eligible set when it returns (C04 rejection-loop theorem), uniform_fill (rng.choice without replacement) returns exactly count distinct eligible cells; both validated by driving the real routines",
    "torch slicing `t[a:b, c:d] = False` marks the cells with a <= row < b and c <= col < d (non-negative bounds)",
    "apply_mask restricts k-space to a mask (C03)",
]
ASSUMPTIONS = ["acs_mask is a subset of the sampling mask when keep_acs is on (C06)", "protected region no larger than the mask (non-negative slice bounds)"]
RULE = "(splitter, direction, mask kind, ratio, protected region, keep_acs, batch, seed) through the real MaskSplitter modules; input/target compared exactly with the regenerated per-cell algebra applied to the fill routine's output; non-trivial = non-empty target and non-empty input; distinct by configuration"

S = lambda n: ("sym", n)
ME, MASK, ACS = S("self"), S("mask"), S("acs_mask")
KEEP = ("attr", ME, "keep_acs")
RATIO = ("call", ("attr", ME, "_choose_ratio"), (), ())
_half = lambda ax: ("bin", "//", ("sub", ("attr", MASK, "shape"), X.const(ax)), X.const(2))
_reg = lambda ax: ("bin", "//", ("sub", ("attr", ME, "acs_region"), X.const(ax)), X.const(2))
REGION = ("tuple", tuple(("slice", ("bin", "-", _half(ax), _reg(ax)), ("bin", "+", _half(ax), _reg(ax)), X.NONE) for ax in (0, 1)))


def deep(v):
    """v without the wrappers that move or copy a tensor without changing its values (.clone(), .cpu(), .to(..), .numpy(),
    .astype(int), torch.tensor(x, dtype=..)), and with slice(a, b) objects written as slices."""
    if not isinstance(v, tuple):
        return v
    if v and v[0] == "call":
        f = v[1]
        if f[0] == "attr" and f[2] in ("clone", "cpu", "to", "numpy", "astype", "contiguous", "detach"):
            return deep(f[1])
        if f == ("attr", S("torch"), "tensor") and len(v[2]) == 1:
            return deep(v[2][0])
        if f == S("slice") and 1 <= len(v[2]) <= 3 and not v[3]:
            a_ = [deep(x) for x in v[2]]
            lo, hi, st = (X.NONE, a_[0], X.NONE) if len(a_) == 1 else (a_[0], a_[1], a_[2] if len(a_) == 3 else X.NONE)
            return ("slice", lo, hi, st)
    return tuple(deep(x) if isinstance(x, tuple) else x for x in v)


def bexpr(v, leaves, path):
    if v in leaves:
        return leaves[v]
    if v[0] == "bin" and v[1] in ("&", "|"):
        return "(%s %s %s)" % ("andb" if v[1] == "&" else "orb", bexpr(v[2], leaves, path), bexpr(v[3], leaves, path))
    if v[0] == "un" and v[1] == "~":
        return "(negb %s)" % bexpr(v[2], leaves, path)
    raise Untranslatable("ssl: boolean expression outside subset: %s" % X.show(v)[:90], None, path)


def _keep_of(conds, what, path):
    k = [pol for c, pol in conds if c == KEEP]
    if len(set(k)) != 1:
        raise Untranslatable("%s: the path does not decide keep_acs" % what, None, path)
    return k[0]


def _fill_split(tree, path, qual, filler):
    """A fill-based splitter, from the value trees of its paths: the pair it returns, the eligible mask and the count it
    hands to the fill routine. Returns (dict of Coq strings, whether the count is capped by the eligible cells)."""
    t, _n = X.run_function(tree, path, qual, opaque={"_choose_ratio"})
    t = X.lift_ife(X.prune_raises(X.drop_do(t)))
    d, caps = {}, set()
    for conds, lf in X.leaves(t):
        keep = _keep_of(conds, qual, path)
        v = deep(lf[1])
        if not (v[0] == "tuple" and len(v[1]) == 2):
            raise Untranslatable("%s: does not return (input mask, target mask)" % qual, None, path)
        inp, tgt = v[1]
        m = ("bin", "&", MASK, ("un", "~", ACS)) if keep else MASK
        if keep:
            if not (inp[0] == "bin" and inp[1] == "|" and inp[3] == ACS and tgt[0] == "bin" and tgt[1] == "|" and tgt[3] == ACS):
                raise Untranslatable("%s: with keep_acs the ACS is not added to both masks" % qual, None, path)
            d["keep_in"] = bexpr(inp, {inp[2]: "i", ACS: "a"}, path)
            d["keep_tg"] = bexpr(tgt, {tgt[2]: "t", ACS: "a"}, path)
            inp, tgt = inp[2], tgt[2]
            d["minus_acs"] = bexpr(m, {MASK: "m", ACS: "a"}, path)
        if not (tgt[0] == "call" and tgt[1] == S(filler)):
            raise Untranslatable("%s: the target mask is not what %s returns: %s" % (qual, filler, X.show(tgt)[:80]), None, path)
        form = bexpr(inp, {m: "m", tgt: "t"}, path)
        if d.setdefault("input", form) != form:
            raise Untranslatable("%s: the input mask is computed differently with and without keep_acs" % qual, None, path)
        args = tgt[2]
        if filler == "uniform_fill" and len(args) < 5:
            names = ["nonzero_mask_count", "nrow", "ncol", "mask", "rng"]
            args = tuple(X.arg(tgt, i, n) for i, n in enumerate(names))
            if any(a_ is None for a_ in args):
                raise Untranslatable("%s: uniform_fill arguments outside subset" % qual, None, path)
            tgt_args_from_kw = True
        elig = args[6] if filler == "gaussian_fill" else args[3]
        want = m if keep else ("set", MASK, REGION, X.FALSE)
        if elig != want:
            raise Untranslatable("%s: the cells handed to %s are not the mask %s: %s" % (qual, filler, "minus the ACS" if keep else "with the protected region cleared", X.show(elig)[:120]), None, path)
        d["region_cleared"] = "true"
        dims = (("sub", ("attr", MASK, "shape"), X.const(0)), ("sub", ("attr", MASK, "shape"), X.const(1)))
        if tuple(args[1:3]) != dims:
            raise Untranslatable("%s: grid size handed to %s is not the mask's" % (qual, filler), None, path)
        if filler == "gaussian_fill":
            if tuple(args[3:6]) != (_half(0), _half(1), S("std_scale")):
                raise Untranslatable("%s: centre / scale handed to gaussian_fill outside subset" % qual, None, path)
            ceil_ = ("call", S("int"), (("call", S("ceil"), (("bin", "*", ("call", ("attr", m, "sum"), (), ()), RATIO),), ()),), ())
            esum = ("call", ("attr", elig, "sum"), (), ())
            room = [("bin", "-", ("call", S("int"), (esum,), ()), X.const(1)), ("bin", "-", esum, X.const(1))]
            if args[0] == ceil_:
                caps.add(False)
            elif args[0][0] == "call" and args[0][1] == S("min") and len(args[0][2]) == 2 and ceil_ in args[0][2] and any(r_ in args[0][2] for r_ in room):
                caps.add(True)
            else:
                raise Untranslatable("%s: count is not ceil(mask.sum() * ratio) [capped by the eligible cells - 1]: %s" % (qual, X.show(args[0])[:120]), None, path)
        else:
            cnts = [("call", S("int"), (("bin", "*", ("call", ("attr", S("torch"), "count_nonzero"), (e_,), ()), RATIO),), ()) for e_ in (("call", ("attr", elig, "flatten"), (), ()), elig)]
            rng_arg = args[4] if len(args) > 4 else None
            if args[0] not in cnts or rng_arg != ("attr", ME, "rng"):
                raise Untranslatable("%s: count / generator handed to uniform_fill outside subset: %s" % (qual, X.show(args[0])[:120]), None, path)
    for k in ("minus_acs", "region_cleared", "keep_in", "keep_tg", "input"):
        if k not in d:
            raise Untranslatable("%s: %s not found" % (qual, k), None, path)
    if len(caps) > 1:
        raise Untranslatable("%s: the count is capped on some paths only" % qual, None, path)
    return d, (caps.pop() if caps else None)


def generate(ctx):
    """The cell algebra of the three splitters read off the value trees of a symbolic execution (vlib/symex.py)."""
    path = ctx.src("direct/ssl/ssl.py")
    tree, _ = pg.parse_file(path)
    out = ""
    sigs = {"minus_acs": "(m a : bool)", "input": "(m t : bool)", "keep_in": "(i a : bool)", "keep_tg": "(t a : bool)"}
    # ---- gaussian ----
    d, capped = _fill_split(tree, path, "MaskSplitter._gaussian_split", "gaussian_fill")
    for k in ("minus_acs", "input", "keep_in", "keep_tg"):
        out += "Definition g_%s %s : bool := %s.\n" % (k, sigs[k], d[k])
    ceil_e = "(- ((- (msum * p)) / q))"
    out += "Definition g_count (msum ecount p q : Z) : Z := %s.\n" % ("Z.min %s (ecount - 1)" % ceil_e if capped else ceil_e)
    import re

    txt = open(ctx.src("direct/ssl/_gaussian_fill.pyx")).read()
    cond = re.search(r"while count (<=|<) nonzero_mask_count:", txt)
    test = re.search(r"if 0 <= indx < nrow and 0 <= indy < ncol and mask\[indx, indy\] == 1 and output_mask\[indx, indy\] != 1:", txt)
    if not cond or not test:
        raise Untranslatable("_gaussian_fill.pyx: loop outside subset", None, "direct/ssl/_gaussian_fill.pyx")
    out += "Definition g_need (c : Z) : Z := %s.\n" % ("c + 1" if cond.group(1) == "<=" else "c")
    # ---- uniform ----
    d, _c = _fill_split(tree, path, "MaskSplitter._uniform_split", "uniform_fill")
    for k in ("minus_acs", "input", "keep_in", "keep_tg"):
        out += "Definition u_%s %s : bool := %s.\n" % (k, sigs[k], d[k])
    out += "Definition u_count (ecount p q : Z) : Z := (ecount * p) / q.\n"
    # ---- half: two complementary sides of the mask; the protected region goes to the input mask only ----
    t, _n = X.run_function(tree, path, "MaskSplitter._half_split")
    t = X.lift_ife(X.prune_raises(X.drop_do(t)))
    honours = set()
    zeros = ("call", ("attr", S("torch"), "zeros_like"), (MASK,), (("dtype", ("attr", MASK, "dtype")), ("device", ("attr", MASK, "device"))))
    zeros_alt = ("call", ("attr", S("torch"), "zeros_like"), (MASK,), ())
    nleaves = 0
    for conds, lf in X.leaves(t):
        keep = _keep_of(conds, "_half_split", path)
        v = deep(lf[1])
        if not (v[0] == "tuple" and len(v[1]) == 2):
            raise Untranslatable("_half_split: does not return (input mask, target mask)", None, path)
        inp, tgt = v[1]
        nleaves += 1
        if keep:
            if not (inp[0] == "bin" and inp[1] == "|" and inp[3] == ACS and tgt[0] == "bin" and tgt[1] == "|" and tgt[3] == ACS):
                raise Untranslatable("_half_split: keep_acs statement outside subset", None, path)
            inp, tgt = inp[2], tgt[2]
        else:
            hon = inp[0] == "set" and inp[2] == REGION and inp[3] == ("sub", MASK, REGION) and tgt[0] == "set" and tgt[2] == REGION and tgt[3] == X.FALSE
            honours.add(hon)
            if hon:
                inp, tgt = inp[1], tgt[1]
        # the two sides: slices of the mask copied into zeros below / from the centre line, or the mask times a half plane
        ok = False
        if inp[0] == "set" and tgt[0] == "set" and inp[1] in (zeros, zeros_alt) and tgt[1] in (zeros, zeros_alt):
            for ax in (0, 1):
                lo = ("slice", X.NONE, _half(ax), X.NONE)
                hi = ("slice", _half(ax), X.NONE, X.NONE)
                if ax == 1:
                    lo, hi = ("tuple", (("slice", X.NONE, X.NONE, X.NONE), lo)), ("tuple", (("slice", X.NONE, X.NONE, X.NONE), hi))
                if inp[2] == lo and inp[3] == ("sub", MASK, lo) and tgt[2] == hi and tgt[3] == ("sub", MASK, hi):
                    ok = True
        elif inp[0] == "bin" and inp[1] == "*" and inp[2] == MASK and tgt[0] == "bin" and tgt[1] == "*" and tgt[2] == MASK:
            a_, b_ = inp[3], tgt[3]
            ok = a_[0] == "cmp" and b_[0] == "cmp" and a_[1] == "<=" and b_[1] == ">" and a_[2] == b_[2] and a_[3] == b_[3] == X.const(0)
        if not ok:
            raise Untranslatable("_half_split: side assignments outside subset: %s" % X.show(inp)[:120], None, path)
    if nleaves < 8 or len(honours) != 1:
        raise Untranslatable("_half_split: expected four directions with and without keep_acs, treating the protected region alike", None, path)
    honours = honours.pop()
    out += "Definition half_honours_region : bool := %s.\n" % ("true" if honours else "false")
    out += "Definition h_input (m side inregion : bool) : bool := %s.\n" % ("if inregion then m else andb m side" if honours else "andb m side")
    out += "Definition h_target (m side inregion : bool) : bool := %s.\n" % ("if inregion then false else andb m (negb side)" if honours else "andb m (negb side)")
    # ---- forward: per-sample seed ----
    hits, stopped = X.watch_calls(tree, path, "MaskSplitter.forward", ["split_method"])
    seeds = set()
    for conds, args, kw in hits["split_method"]:
        sd = dict(kw).get("seed", args[2] if len(args) > 2 else None)
        seeds.add(X.show(sd) if sd is not None else "missing")
    idx = lambda k_: "sample['%s'][bv1]" % k_
    chars = "[ord(bv2) for bv in (str(%s) + str(%s))]" % (idx("filename"), idx("slice_no"))  # tuple(map(ord, s)) / tuple(ord(c) for c in s)
    want_forms = {"(%s if self.use_seed else None)" % chars}
    seeded = bool(seeds) and all(sd in want_forms for sd in seeds)
    if not seeded:
        # decided on the path instead of inside the expression
        ok = bool(hits["split_method"])
        for conds, args, kw in hits["split_method"]:
            sd = dict(kw).get("seed", args[2] if len(args) > 2 else None)
            use = [pol for c, pol in conds if c == ("attr", ME, "use_seed")]
            txt_ = X.show(sd) if sd is not None else ""
            ok = ok and ((use == [True] and txt_ == chars) or (use == [False] and sd == X.NONE))
        seeded = ok
    out += "Definition seed_from_filename_and_slice : bool := %s.\n" % ("true" if seeded else "false")
    return [pg.write_gen(ctx, "C11_gen", out)]


# ------------------------------------------------------------------------------------------------
PRE = "From DV Require Import Base.Tactics.\nFrom G Require Import C11_gen C11_defs.\nOpen Scope Z_scope.\n"


def _mask(rng, kind, nrow, ncol):
    import torch

    m = torch.zeros(nrow, ncol, dtype=torch.bool)
    if kind == "line":
        cols = [c for c in range(ncol) if rng.random() < 0.4]
        m[:, cols] = True
        m[:, ncol // 2 - 1 : ncol // 2 + 1] = True
    elif kind == "2d":
        m = torch.tensor([[rng.random() < 0.4 for _ in range(ncol)] for _ in range(nrow)])
        m[nrow // 2 - 1 : nrow // 2 + 1, ncol // 2 - 1 : ncol // 2 + 1] = True
    elif kind == "sparse":
        for _ in range(rng.randint(1, 3)):
            m[rng.randrange(nrow), rng.randrange(ncol)] = True
    elif kind == "full":
        m[:] = True
    return m


def gen_cases(ctx):
    rng = ctx.rng
    cases = []
    for _ in range(ctx.n(150, 2000)):
        split = rng.choice(["uniform", "gaussian", "gaussian", "half"])
        nrow, ncol = rng.randint(4, 12), rng.randint(4, 12)
        kind = rng.choice(["line", "2d", "2d", "sparse", "full"])
        ratio = rng.choice([0.1, 0.3, 0.5, 0.7, 0.9, 0.95])
        region = rng.choice([(0, 0), (0, 0), (2, 2), (4, 2), (4, 4), (nrow, ncol)])
        keep = rng.random() < 0.3
        direction = rng.choice(["horizontal", "vertical", "diagonal_left", "diagonal_right"])
        cases.append((split, direction, kind, nrow, ncol, ratio, region, keep, rng.randint(1, 3), rng.randrange(10**6)))
    return cases


def run_split(case, seconds=3):
    """Runs the real splitter module on a batch. Returns (status, per-sample dicts)."""
    import random

    import torch
    from .. import shims

    shims.install()
    from direct.ssl.ssl import GaussianMaskSplitterModule, HalfMaskSplitterModule, HalfSplitType, UniformMaskSplitterModule

    split, direction, kind, nrow, ncol, ratio, region, keep, batch, seed = case
    rng = random.Random(seed)
    masks = [_mask(rng, kind, nrow, ncol) for _ in range(batch)]
    acss = []
    for m in masks:
        a = torch.zeros_like(m)
        a[nrow // 2 - 1 : nrow // 2 + 1, ncol // 2 - 1 : ncol // 2 + 1] = True
        acss.append(a & m)
    k = torch.arange(batch * 2 * nrow * ncol * 2, dtype=torch.float32).reshape(batch, 2, nrow, ncol, 2) + 1.0
    sm = torch.stack(masks)[:, None, :, :, None]
    sample = {"sampling_mask": sm, "acs_mask": torch.stack(acss)[:, None, :, :, None], "masked_kspace": torch.where(sm, k, torch.zeros(1)), "filename": ["f%d_%d.h5" % (seed % 7, i) for i in range(batch)], "slice_no": [rng.randrange(20) for _ in range(batch)]}
    if split == "uniform":
        mod = UniformMaskSplitterModule(ratio=ratio, acs_region=region, keep_acs=keep, use_seed=True)
    elif split == "gaussian":
        mod = GaussianMaskSplitterModule(ratio=ratio, acs_region=region, keep_acs=keep, use_seed=True)
    else:
        mod = HalfMaskSplitterModule(acs_region=region, keep_acs=keep, use_seed=True, direction=HalfSplitType(direction))

    def go():
        s1 = mod({k2: (v.clone() if hasattr(v, "clone") else list(v)) for k2, v in sample.items()})
        s2 = mod({k2: (v.clone() if hasattr(v, "clone") else list(v)) for k2, v in sample.items()})
        return s1, s2

    r = G.guarded(go, seconds)
    if r[0] != "ok":
        return r, masks, acss, sample
    return r, masks, acss, sample


def _cells(t):
    return [[bool(v) for v in row] for row in t.tolist()]


def correspond(ctx):
    import torch

    corr = Corr()
    corr.rule = RULE
    cases = gen_cases(ctx)
    impls, terms, meta = [], [], []
    for case in cases:
        split, direction, kind, nrow, ncol, ratio, region, keep, batch, seed = case
        masks = acss = sample = None
        try:
            r, masks, acss, sample = run_split(case)
        except Exception as e:  # noqa
            r = ("raises", type(e).__name__, str(e)[:100])
        meta.append((r, masks, acss, sample))
        if r[0] != "ok":
            continue
        s1, _ = r[1]
        for b in range(batch):
            im_in = s1["input_sampling_mask"][b, 0, :, :, 0]
            im_tg = s1["target_sampling_mask"][b, 0, :, :, 0]
            m, a = masks[b], acss[b]
            cx, cy = nrow // 2, ncol // 2
            inreg = torch.zeros_like(m)
            inreg[max(cx - region[0] // 2, 0) : cx + region[0] // 2, max(cy - region[1] // 2, 0) : cy + region[1] // 2] = True
            if split == "half":
                if direction == "horizontal":
                    side = torch.zeros_like(m)
                    side[:cx] = True
                elif direction == "vertical":
                    side = torch.zeros_like(m)
                    side[:, :cy] = True
                else:
                    xv, yv = torch.meshgrid(torch.linspace(-1, 1, nrow), torch.linspace(-1, 1, ncol), indexing="ij")
                    side = (xv + yv <= 0) if direction == "diagonal_right" else (xv - yv <= 0)
                raw = side  # the "oracle output" of the half splitter is the side predicate
                fn = "half_model %s" % ("true" if keep else "false")
            else:
                raw = im_tg & ~a if keep else im_tg
                fn = "%s_model %s" % ("g" if split == "gaussian" else "u", "true" if keep else "false")
            flat = lambda t: coqrun.lit([bool(v) for v in t.reshape(-1).tolist()])
            terms.append("%s %s %s %s %s" % (fn, flat(m), flat(a), flat(inreg), flat(raw)))
            impls.append((case, b, [[bool(v) for v in im_in.reshape(-1).tolist()], [bool(v) for v in im_tg.reshape(-1).tolist()]]))
    vals = coqrun.eval_sharded("c11_cases", PRE, terms, ctx.work, gen_dir=ctx.gen_dir, shard=150)
    for (case, b, im), mv in zip(impls, vals):
        corr.dist("splitter", case[0])
        corr.dist("keep_acs", case[7])
        corr.dist("mask_kind", case[2])
        nontriv = any(im[0]) and any(im[1])
        corr.compare({"splitter": case[0], "direction": case[1], "mask": case[2], "shape": [case[3], case[4]], "ratio": case[5], "region": case[6], "keep_acs": case[7], "sample": b, "seed": case[9]}, im, [list(mv[0]), list(mv[1])], nontrivial=nontriv)
    ctx._c11 = list(zip(cases, meta))
    corr.merge(_kernel_contract(ctx))
    return corr


def _kernel_contract(ctx):
    """Drive the real fill routines and compare with the contract used by the theorems."""
    import numpy as np
    import torch
    from .. import shims

    shims.install()
    from direct.ssl.mask_fillers import gaussian_fill, uniform_fill

    corr = Corr()
    rng = ctx.rng
    terms, impls, cases = [], [], []
    for _ in range(ctx.n(150, 3000)):
        nrow, ncol = rng.randint(3, 10), rng.randint(3, 10)
        m = np.array([[1 if rng.random() < 0.5 else 0 for _ in range(ncol)] for _ in range(nrow)], dtype=int)
        e = int(m.sum())
        if e == 0:
            continue
        c = rng.randint(0, e - 1)
        seed = rng.randrange(10**5)
        r = G.guarded(lambda: gaussian_fill(c, nrow, ncol, nrow // 2, ncol // 2, 3.0, m.copy(), np.zeros_like(m), seed), 3)
        if r[0] == "ok":
            o = np.asarray(r[1])
            impls.append(["ok", int(o.sum()), bool(((o == 1) & (m == 0)).any())])
        else:
            impls.append([r[0]])
        cases.append({"fill": "gaussian", "eligible": e, "count": c, "shape": [nrow, ncol]})
        terms.append("(g_need %d, false)" % c)
        k = rng.randint(0, e)
        if k == 0:
            continue
        o = uniform_fill(k, nrow, ncol, torch.tensor(m, dtype=torch.bool), np.random.RandomState(seed))
        impls.append(["ok", int(o.sum()), bool((o & ~torch.tensor(m, dtype=torch.bool)).any())])
        cases.append({"fill": "uniform", "eligible": e, "count": k, "shape": [nrow, ncol]})
        terms.append("(%d, false)" % k)
    vals = coqrun.eval_sharded("c11_kernel", PRE, terms, ctx.work, gen_dir=ctx.gen_dir, shard=500)
    for c, im, mv in zip(cases, impls, vals):
        corr.dist("fill", c["fill"])
        corr.compare(c, im, ["ok", mv[0], mv[1]], nontrivial=c["count"] > 0)
    return corr


def oracles(ctx, deep):
    import torch

    out, seen, runs = [], set(), 0

    def add(v):
        if v.key() not in seen:
            seen.add(v.key())
            out.append(v)

    done = dict((tuple(map(str, c)), m) for c, m in (getattr(ctx, "_c11", None) or []))
    cases = [c for c, _ in (getattr(ctx, "_c11", None) or [])] or gen_cases(ctx)
    if deep:
        cases = cases + gen_cases(ctx)
    hangs = 0
    for case in sorted(cases, key=lambda c: (c[3] * c[4], c[8])):
        split, direction, kind, nrow, ncol, ratio, region, keep, batch, seed = case
        runs += 1
        cfg = {"splitter": split, "direction": direction if split == "half" else None, "mask": kind, "shape": [nrow, ncol], "ratio": ratio, "protected_region": list(region), "keep_acs": keep, "batch": batch, "seed": seed}
        cached = done.get(tuple(map(str, case)))
        if cached is not None and cached[1] is not None:
            r, masks, acss, sample = cached
        else:
            if hangs > 10:
                continue
            try:
                r, masks, acss, sample = run_split(case)
            except Exception as e:  # noqa
                add(Violation("split-runs", "%s splitter harness error %s" % (split, type(e).__name__), {"config": cfg}, {"splitter": split, "kind": "harness"}))
                continue
        if r[0] == "hang":
            hangs += 1
        if r[0] == "hang":
            add(Violation("split-terminates", "%s splitter did not return within 3 s (mask %s %dx%d, ratio %s, protected region %s, keep_acs %s)" % (split, kind, nrow, ncol, ratio, region, keep), {"config": cfg}, {"splitter": split, "kind": "hang"}))
            continue
        if r[0] == "raises":
            add(Violation("split-returns", "%s splitter raises %s: %s (mask %s %dx%d, ratio %s, region %s, keep_acs %s)" % (split, r[1], r[2], kind, nrow, ncol, ratio, region, keep), {"config": cfg}, {"splitter": split, "kind": "raises", "exception": r[1]}))
            continue
        s1, s2 = r[1]
        for b in range(batch):
            m, a = masks[b], acss[b]
            i1, t1 = s1["input_sampling_mask"][b, 0, :, :, 0], s1["target_sampling_mask"][b, 0, :, :, 0]
            i2, t2 = s2["input_sampling_mask"][b, 0, :, :, 0], s2["target_sampling_mask"][b, 0, :, :, 0]
            if not torch.equal(i1, i2) or not torch.equal(t1, t2):
                add(Violation("split-deterministic", "%s splitter: two calls with the same file name and slice give different splits" % split, {"config": cfg, "sample": b}, {"splitter": split, "kind": "determinism"}))
            if not torch.equal(i1 | t1, m):
                add(Violation("split-union", "%s splitter: input | target != sampling mask" % split, {"config": cfg, "sample": b, "mask": _cells(m), "input": _cells(i1), "target": _cells(t1)}, {"splitter": split, "kind": "union"}))
            inter = i1 & t1
            if not torch.equal(inter, a if keep else torch.zeros_like(m)):
                add(Violation("split-intersection", "%s splitter: input & target is not %s" % (split, "the ACS region" if keep else "empty"), {"config": cfg, "sample": b}, {"splitter": split, "kind": "intersection"}))
            if not keep:
                cx, cy = nrow // 2, ncol // 2
                reg = torch.zeros_like(m)
                reg[max(cx - region[0] // 2, 0) : cx + region[0] // 2, max(cy - region[1] // 2, 0) : cy + region[1] // 2] = True
                if bool((reg & m & ~i1).any()):
                    add(Violation("protected-region-in-input", "%s splitter: sampled cells of the protected central region %s are missing from the input mask" % (split, region), {"config": cfg, "sample": b}, {"splitter": split, "kind": "protected"}))
                elig = int((m & ~reg).sum())
            else:
                elig = int((m & ~a).sum())
            tsize = int((t1 & ~a).sum()) if keep else int(t1.sum())
            base = int((m & ~a).sum()) if keep else int(m.sum())
            if split == "uniform" and tsize != int(elig * ratio):
                add(Violation("target-size", "uniform splitter: target has %d cells, requested floor(%d * %s) = %d" % (tsize, elig, ratio, int(elig * ratio)), {"config": cfg, "sample": b}, {"splitter": split, "kind": "size"}))
            if split == "gaussian":
                want = min(int(math.ceil(base * ratio)) + 1, elig)
                # the count is computed as ceil(mask.sum() * ratio) on a float32 tensor: at an exact multiple the single
                # precision product may land just above the integer (90 * 0.3 -> 27.000002 -> 28); both roundings count
                want32 = min(int(math.ceil(float(torch.tensor(base) * ratio))) + 1, elig)
                if tsize not in (want, want32) and not (elig == 0 and tsize == 0):
                    add(Violation("target-size", "gaussian splitter: target has %d cells, requested ceil(%d * %s) + 1 = %d (capped by the %d eligible cells)" % (tsize, base, ratio, int(math.ceil(base * ratio)) + 1, elig), {"config": cfg, "sample": b}, {"splitter": split, "kind": "size"}))
            k = sample["masked_kspace"][b]
            ki, kt = s1["input_masked_kspace"][b], s1["target_masked_kspace"][b]
            if not torch.equal(ki, torch.where(i1[None, :, :, None], k, torch.zeros(1))) or not torch.equal(kt, torch.where(t1[None, :, :, None], k, torch.zeros(1))):
                add(Violation("split-kspace", "%s splitter: split k-spaces are not the k-space restricted to the two masks" % split, {"config": cfg, "sample": b}, {"splitter": split, "kind": "kspace"}))
    # several candidate ratios: which one a call uses is part of what (file name, slice) has to determine, whatever
    # the instance did before
    from direct.ssl.ssl import GaussianMaskSplitterModule, UniformMaskSplitterModule
    import random as _random

    for t in range(ctx.n(30, 300) * (2 if deep else 1)):
        rng = _random.Random(ctx.seed * 7919 + t)
        split = rng.choice(["uniform", "gaussian"])
        nrow, ncol = rng.randint(6, 12), rng.randint(6, 12)
        ratios = rng.choice([[0.2, 0.8], [0.1, 0.5, 0.9], [0.3, 0.6]])
        keep = rng.random() < 0.3
        m = _mask(rng, "2d", nrow, ncol)
        a = torch.zeros_like(m)
        a[nrow // 2 - 1 : nrow // 2 + 1, ncol // 2 - 1 : ncol // 2 + 1] = True
        a = a & m
        kk = torch.arange(2 * nrow * ncol * 2, dtype=torch.float32).reshape(1, 2, nrow, ncol, 2) + 1.0
        sm = m[None, None, :, :, None]

        def sample(fn, sl):
            return {"sampling_mask": sm.clone(), "acs_mask": a[None, None, :, :, None].clone(), "masked_kspace": torch.where(sm, kk, torch.zeros(1)), "filename": [fn], "slice_no": [sl]}

        cls = UniformMaskSplitterModule if split == "uniform" else GaussianMaskSplitterModule
        cfg = {"splitter": split, "shape": [nrow, ncol], "ratios": ratios, "keep_acs": keep, "trial": t}
        runs += 1

        def go():
            fresh = cls(ratio=ratios, acs_region=(2, 2), keep_acs=keep, use_seed=True)
            r0 = fresh(sample("vol.h5", 3))
            used = cls(ratio=ratios, acs_region=(2, 2), keep_acs=keep, use_seed=True)
            for j in range(rng.randint(1, 5)):
                used(sample("other%d.h5" % j, j))
            r1 = used(sample("vol.h5", 3))
            return r0, r1

        r = G.guarded(go, 6)
        if r[0] != "ok":
            add(Violation("split-returns", "%s splitter with ratios %s: %s" % (split, ratios, r[0]), {"config": cfg}, {"splitter": split, "kind": "ratio-list-" + r[0]}))
            continue
        r0, r1 = r[1]
        if not torch.equal(r0["target_sampling_mask"], r1["target_sampling_mask"]) or not torch.equal(r0["input_sampling_mask"], r1["input_sampling_mask"]):
            add(Violation("split-deterministic", "%s splitter with candidate ratios %s: the split of (vol.h5, slice 3) depends on the calls the instance served before (target sizes %d vs %d)" % (split, ratios, int(r0["target_sampling_mask"].sum()), int(r1["target_sampling_mask"].sum())), {"config": cfg, "mask": _cells(m)}, {"splitter": split, "kind": "determinism-history"}))
    # the split is a function of the mask given now: (a) one instance serving the same (file name, slice) again with another
    # mask of the same shape, in a later call or in the same batch; (b) the same mask values in another memory layout
    from direct.ssl.ssl import HalfMaskSplitterModule

    def _check(tag, split, cfg, res, b, m, a, keep):
        i1, t1 = res["input_sampling_mask"][b, 0, :, :, 0], res["target_sampling_mask"][b, 0, :, :, 0]
        if not torch.equal(i1 | t1, m):
            add(Violation("split-union", "%s splitter (%s): input | target != the sampling mask of this call" % (split, tag), {"config": cfg, "sample": b, "mask": _cells(m), "input": _cells(i1), "target": _cells(t1)}, {"splitter": split, "kind": "union-" + tag}))
            return False
        if not torch.equal(i1 & t1, a if keep else torch.zeros_like(m)):
            add(Violation("split-intersection", "%s splitter (%s): input & target is not %s" % (split, tag, "the ACS region" if keep else "empty"), {"config": cfg, "sample": b}, {"splitter": split, "kind": "intersection-" + tag}))
            return False
        k = res["_k"][b]
        if not torch.equal(res["input_masked_kspace"][b], torch.where(i1[None, :, :, None], k, torch.zeros(1))) or not torch.equal(res["target_masked_kspace"][b], torch.where(t1[None, :, :, None], k, torch.zeros(1))):
            add(Violation("split-kspace", "%s splitter (%s): split k-spaces are not the k-space restricted to the two masks" % (split, tag), {"config": cfg, "sample": b}, {"splitter": split, "kind": "kspace-" + tag}))
            return False
        return True

    for t in range(ctx.n(45, 400) * (2 if deep else 1)):
        rng = _random.Random(ctx.seed * 104729 + t)
        split = rng.choice(["uniform", "gaussian", "half"])
        n = rng.randint(6, 12)
        nrow, ncol = (n, n) if rng.random() < 0.4 else (n, rng.randint(6, 12))
        ratio = rng.choice([0.3, 0.5, 0.7])
        keep = rng.random() < 0.3
        cfg = {"splitter": split, "shape": [nrow, ncol], "ratio": ratio, "keep_acs": keep, "trial": t}
        runs += 1

        def make():
            if split == "uniform":
                return UniformMaskSplitterModule(ratio=ratio, acs_region=(2, 2), keep_acs=keep, use_seed=True)
            if split == "gaussian":
                return GaussianMaskSplitterModule(ratio=ratio, acs_region=(2, 2), keep_acs=keep, use_seed=True)
            return HalfMaskSplitterModule(acs_region=(2, 2), keep_acs=keep, use_seed=True)

        def acs_of(m):
            a = torch.zeros_like(m)
            a[nrow // 2 - 1 : nrow // 2 + 1, ncol // 2 - 1 : ncol // 2 + 1] = True
            return a & m

        def batch_of(ms, names, slices, layout="plain"):
            B = len(ms)
            kk = torch.arange(B * 2 * nrow * ncol * 2, dtype=torch.float32).reshape(B, 2, nrow, ncol, 2) + 1.0
            sm = torch.stack(ms)[:, None, :, :, None]
            if layout == "transposed":    # same values, strides of the transposed array
                sm = torch.stack([m.t().contiguous() for m in ms])[:, None, :, :, None].transpose(2, 3)
            elif layout == "sliced":      # a view into a wider buffer
                big = torch.zeros(B, 1, nrow, 2 * ncol, 1, dtype=torch.bool)
                big[:, :, :, ::2] = sm
                sm = big[:, :, :, ::2]
            assert torch.equal(sm[:, 0, :, :, 0], torch.stack(ms))
            ac = torch.stack([acs_of(m) for m in ms])[:, None, :, :, None]
            return {"sampling_mask": sm, "acs_mask": ac, "masked_kspace": torch.where(sm, kk, torch.zeros(1)), "filename": list(names), "slice_no": list(slices)}, kk

        ma, mb = _mask(rng, "2d", nrow, ncol), _mask(rng, rng.choice(["2d", "line"]), nrow, ncol)

        def go_hist():
            mod = make()
            s0, _ = batch_of([ma], ["vol.h5"], [3])
            mod(s0)
            s1, k1 = batch_of([mb], ["vol.h5"], [3])
            r1 = mod(s1)
            r1["_k"] = torch.where(s1["sampling_mask"], k1, torch.zeros(1))
            s2, k2 = batch_of([ma, mb], ["vol.h5", "vol.h5"], [3, 3])
            r2 = make()(s2)
            r2["_k"] = torch.where(s2["sampling_mask"], k2, torch.zeros(1))
            return r1, r2

        r = G.guarded(go_hist, 8)
        if r[0] == "ok":
            r1, r2 = r[1]
            _check("same file and slice seen before with another mask", split, cfg, r1, 0, mb, acs_of(mb), keep)
            for b, m in enumerate([ma, mb]):
                _check("same file and slice twice in one batch", split, cfg, r2, b, m, acs_of(m), keep)
        elif r[0] != "hang":
            add(Violation("split-returns", "%s splitter raises %s on a repeated (file name, slice): %s" % (split, r[1], r[2]), {"config": cfg}, {"splitter": split, "kind": "raises-history"}))
        for layout in ("transposed", "sliced"):
            def go_lay(layout=layout):
                s0, k0 = batch_of([ma, mb], ["a.h5", "b.h5"], [1, 2])
                ref = make()(s0)
                s1, _ = batch_of([ma, mb], ["a.h5", "b.h5"], [1, 2], layout)
                got = make()(s1)
                got["_k"] = torch.where(s0["sampling_mask"], k0, torch.zeros(1))
                return ref, got

            r = G.guarded(go_lay, 8)
            cfgl = dict(cfg, layout=layout)
            if r[0] == "hang":
                continue
            if r[0] != "ok":
                add(Violation("split-returns", "%s splitter raises %s on a sampling mask that is a %s view: %s" % (split, r[1], layout, r[2]), {"config": cfgl}, {"splitter": split, "kind": "raises-layout"}))
                continue
            ref, got = r[1]
            for b, m in enumerate([ma, mb]):
                if not _check("mask given as a %s view" % layout, split, cfgl, got, b, m, acs_of(m), keep):
                    break
                if not torch.equal(ref["target_sampling_mask"][b], got["target_sampling_mask"][b]):
                    add(Violation("split-deterministic", "%s splitter: the split of a mask given as a %s view differs from the split of the same mask stored contiguously (target sizes %d vs %d)" % (split, layout, int(got["target_sampling_mask"][b].sum()), int(ref["target_sampling_mask"][b].sum())), {"config": cfgl, "sample": b, "mask": _cells(m)}, {"splitter": split, "kind": "determinism-layout"}))
                    break
    ctx.oracle_runs = runs
    return out
