"""C07 — the realised sampling budget matches the requested acceleration."""
import ast
import math
from fractions import Fraction

from .. import coqrun, maskgen as G, py2gallina as pg
from ..core import Corr, Untranslatable, Violation

ID = "C07"
LEVEL = "proof"
COQ_FILES = ["Tie/C07_defs.v", "Tie/C07_tie.v", "Props/C07_props.v"]
PROPS_FILES = ["C07_props.v"]
TRUSTED_BASE = [
    "py2gallina unit 'budget' (rational expressions: RandomMaskFunc.prob, EquispacedMaskFunc.adjusted_accel, Gaussian1D/2D nonzero_count; the +1 of the rejection kernels comes from the .pyx loop condition)",
    "np.round / round are modelled as any rounding r with |r(x) - x| <= 1/2 (theorems) and as round-half-even over Q (correspondence, ties excluded)",
    "uniformity / independence of numpy draws (the 'in expectation' statement for random masks is the identity E[count] = L + (N - L) * prob = N / R; the statistics over seeds are support, not proof)",
    "the discretisation of np.arange / np.around in equispaced masks (+-2 columns) and the variable-density Poisson tolerance are decided by oracles on the implementation only",
]
ASSUMPTIONS = ["feasible parameters (L < N/R, etc.; see vlib/maskgen.py:feasible)"]
RULE = "Gaussian1D/2D realised counts for widths 32-400 / sizes up to 128x128 and accelerations {2,3,4,5.5,8,12} compared exactly with the regenerated count formula over Q; non-trivial = count formula not at a rounding tie; distinct by configuration"

Q_OPS = {ast.Add: "Qplus", ast.Sub: "Qminus", ast.Mult: "Qmult", ast.Div: "Qdiv"}


def qexpr(node, env, path):
    key = ast.unparse(node)
    if key in env:
        return env[key]
    if isinstance(node, ast.BinOp):
        for k, nm in Q_OPS.items():
            if isinstance(node.op, k):
                return "(%s %s %s)" % (nm, qexpr(node.left, env, path), qexpr(node.right, env, path))
    if isinstance(node, ast.Constant) and isinstance(node.value, int):
        return "(inject_Z %d)" % node.value
    raise Untranslatable("budget: rational expression outside subset: %s" % key[:70], getattr(node, "lineno", None), path)


def _find_assign(fn, name):
    for node in ast.walk(fn):
        if isinstance(node, ast.Assign) and ast.unparse(node.targets[0]) == name:
            return node
    return None


def bindings(fn, node):
    """Every assignment (anywhere in the function) to a name the expression reads: what N, R, L, mask *are* is part of
    the budget formula. Emitted verbatim (normalised source text); the tie pins them."""
    names = sorted({n.id for n in ast.walk(node) if isinstance(n, ast.Name) and n.id not in ("self", "np", "int", "round", "i")})
    found = []
    for st in ast.walk(fn):
        targets = []
        if isinstance(st, ast.Assign):
            targets = st.targets
        elif isinstance(st, (ast.AugAssign, ast.AnnAssign)):
            targets = [st.target]
        for t in targets:
            tn = [e.id for e in ast.walk(t) if isinstance(e, ast.Name) and isinstance(e.ctx, ast.Store)]
            if any(n in names for n in tn):
                found.append((st.lineno, ast.unparse(st).replace('"', "'")))
    return [t for _, t in sorted(set(found))]


def _strlist(name, items):
    return "Definition %s : list string := [%s].\n" % (name, "; ".join('"%s"' % i.replace('"', '""') for i in items))


def generate(ctx):
    path = ctx.src("direct/common/subsample.py")
    tree, _ = pg.parse_file(path)
    out = "From Coq Require Import QArith String.\nOpen Scope string_scope.\n"
    env = {"num_cols": "N", "acceleration": "R", "num_low_freqs": "L", "num_rows": "M"}
    a = _find_assign(pg.find_def(tree, "RandomMaskFunc.mask_func", path), "prob")
    if a is None:
        raise Untranslatable("RandomMaskFunc: prob not found", None, path)
    out += "Definition random_prob (N R L : Q) : Q := %s.\n" % qexpr(a.value, env, path)
    out += _strlist("random_bindings", bindings(pg.find_def(tree, "RandomMaskFunc.mask_func", path), a.value))
    a = _find_assign(pg.find_def(tree, "EquispacedMaskFunc.mask_func", path), "adjusted_accel")
    if a is None:
        raise Untranslatable("EquispacedMaskFunc: adjusted_accel not found", None, path)
    out += "Definition equi_adjusted (N R L : Q) : Q := %s.\n" % qexpr(a.value, env, path)
    out += _strlist("equi_bindings", bindings(pg.find_def(tree, "EquispacedMaskFunc.mask_func", path), a.value))
    a = _find_assign(pg.find_def(tree, "Gaussian1DMaskFunc.mask_func", path), "nonzero_count")
    v = a.value if a is not None else None
    if not (isinstance(v, ast.Call) and ast.unparse(v.func) == "int" and isinstance(v.args[0], ast.Call) and ast.unparse(v.args[0].func) == "np.round"):
        raise Untranslatable("Gaussian1D: nonzero_count is not int(np.round(...))", None, path)
    out += "Definition g1d_arg (N R L : Q) : Q := %s.\n" % qexpr(v.args[0].args[0], env, path)
    out += _strlist("g1d_bindings", bindings(pg.find_def(tree, "Gaussian1DMaskFunc.mask_func", path), v.args[0].args[0]))
    fn2 = pg.find_def(tree, "Gaussian2DMaskFunc.mask_func", path)
    a = _find_assign(fn2, "nonzero_count")
    v = a.value if a is not None else None
    if not (isinstance(v, ast.Call) and ast.unparse(v.func) == "int" and isinstance(v.args[0], ast.Call) and ast.unparse(v.args[0].func) == "np.round"):
        raise Untranslatable("Gaussian2D: nonzero_count is not int(np.round(...))", None, path)
    env2 = dict(env)
    env2["mask.sum()"] = "L"
    out += "Definition g2d_arg (N M R L : Q) : Q := %s.\n" % qexpr(v.args[0].args[0], env2, path)
    out += _strlist("g2d_bindings", bindings(fn2, v.args[0].args[0]))
    # the dynamic branch must use the same expression per frame
    dyn = [ast.unparse(n) for n in ast.walk(fn2) if isinstance(n, ast.Call) and ast.unparse(n.func) == "np.round"]
    if sorted(d.replace("mask[i].sum()", "mask.sum()") for d in dyn) != sorted([ast.unparse(v.args[0])] * 2):
        raise Untranslatable("Gaussian2D: per-frame count differs from the static one", fn2.lineno, path)
    # +1 of the kernels
    import re

    txt = open(ctx.src("direct/common/_gaussian.pyx")).read()
    conds = re.findall(r"while count (<=|<) nonzero_count:", txt)
    if len(conds) != 2 or len(set(conds)) != 1:
        raise Untranslatable("_gaussian.pyx: rejection loop conditions outside subset", None, "direct/common/_gaussian.pyx")
    out += "Definition kernel_extra : Z := %s.\n" % ("1%Z" if conds[0] == "<=" else "0%Z")
    return [pg.write_gen(ctx, "C07_gen", out)]


PRE = "From DV Require Import Base.Tactics.\nFrom Coq Require Import QArith.\nFrom G Require Import C07_gen C07_defs.\n"
ACCELS = [2, 3, 4, 5.5, 8, 12]


def _q(x):
    f = Fraction(x).limit_denominator(10**6)
    return "(%d # %d)%%Q" % (f.numerator, f.denominator)


def gen_cases(ctx):
    rng = ctx.rng
    cases = []
    for _ in range(ctx.n(120, 1500)):
        if rng.random() < 0.6:
            N = rng.randint(32, 400)
            R = rng.choice(ACCELS)
            cf = rng.choice([0.02, 0.04, 0.08, 0.1])
            shape = [rng.randint(8, 16), N, 2]
            if G.feasible("Gaussian1D", shape, R, cf):
                cases.append(("Gaussian1D", shape, R, cf, rng.randrange(10**6)))
        else:
            n, m = rng.randint(16, 128), rng.randint(16, 128)
            R = rng.choice(ACCELS)
            cf = rng.choice([0.02, 0.04, 0.08])
            shape = [n, m, 2]
            if G.feasible("Gaussian2D", shape, R, cf):
                cases.append(("Gaussian2D", shape, R, cf, rng.randrange(10**6)))
    return cases


def correspond(ctx):
    from .. import shims

    shims.install(ctx.repo)
    corr = Corr()
    corr.rule = RULE
    cases = gen_cases(ctx)
    impls, terms, keep = [], [], []
    for (name, shape, R, cf, seed) in cases:
        mf = G.build(name, R, cf, "static")
        r = G.call(mf, shape, seed, False, seconds=8)
        a = G.call(mf, shape, seed, True, seconds=8)
        if r[0] != "ok" or a[0] != "ok":
            continue
        rows, cols = shape[-3], shape[-2]
        if name == "Gaussian1D":
            count = int(r[1].reshape(rows, cols)[0].sum())
            L = int(a[1].reshape(rows, cols)[0].sum())
            x = Fraction(cols) / Fraction(R).limit_denominator(10**6) - L - 1
            terms.append("g1d_total %s %s %d" % (_q(cols), _q(R), L))
        else:
            count = int(r[1].sum())
            L = int(a[1].sum())
            x = Fraction(rows * cols) / Fraction(R).limit_denominator(10**6) - L - 1
            terms.append("g2d_total %s %s %s %d" % (_q(cols), _q(rows), _q(R), L))
        tie = abs((x - math.floor(x)) - Fraction(1, 2)) < Fraction(1, 1000)
        impls.append(count)
        keep.append(((name, shape, R, cf, seed), tie))
    vals = coqrun.eval_sharded("c07_cases", PRE, terms, ctx.work, gen_dir=ctx.gen_dir, shard=400)
    for (c, tie), im, mv in zip(keep, impls, vals):
        corr.dist("generator", c[0])
        corr.dist("acceleration", c[2])
        if tie:
            corr.count({"cfg": c}, False)
            continue
        corr.compare({"generator": c[0], "shape": c[1], "acceleration": c[2], "center_fraction": c[3], "seed": c[4]}, im, mv, nontrivial=True)
    return corr


def oracles(ctx, deep):
    import torch

    out, seen, runs = [], set(), 0

    def add(v):
        if v.key() not in seen:
            seen.add(v.key())
            out.append(v)

    rng = ctx.rng
    stats = {}
    for _ in range(ctx.n(150, 1500) * (2 if deep else 1)):
        name = rng.choice(["Gaussian1D", "Gaussian2D", "VariableDensityPoisson", "FastMRIEquispaced", "CartesianEquispaced", "FastMRIEquispaced"])
        R = rng.choice(ACCELS)
        mode = rng.choice(["static", "static", "dynamic", "multislice"])
        frames = 1 if mode == "static" else rng.randint(2, 4)
        if name in ("Gaussian2D", "VariableDensityPoisson"):
            n, m = rng.randint(16, 64 if name == "VariableDensityPoisson" else 128), rng.randint(16, 64 if name == "VariableDensityPoisson" else 128)
            shape = [n, m, 2]
            cf = rng.choice([0.02, 0.04, 0.08])
        else:
            shape = [rng.randint(8, 12), rng.randint(32, 400), 2]
            cf = rng.choice([4, 8, 12, 16]) if name.startswith("Cartesian") else rng.choice([0.02, 0.04, 0.08, 0.1])
        if mode != "static":
            shape = [frames] + shape
        if not G.feasible(name, shape, R, cf):
            continue
        seed = rng.randrange(10**6)
        runs += 1
        kw = {}
        if name == "VariableDensityPoisson" and rng.random() < 0.4:
            kw["crop_corner"] = True
        # an instance that served other accelerations / seeds before must give the same budget
        history = rng.random() < 0.4
        accs, cfs = [R], [cf]
        if history:
            R2 = rng.choice([a for a in ACCELS if a != R])
            if G.feasible(name, shape, R2, cf):
                accs, cfs = [R, R2], [cf, cf]
        cfg = {"generator": name, "mode": mode, "shape": shape, "acceleration": R, "center_fraction": cf, "seed": seed, "options": kw, "instance_accelerations": accs}
        mf = G.build(name, accs, cfs, mode, **kw)
        if len(accs) > 1:
            for j in range(rng.randint(1, 6)):
                G.call(mf, shape, rng.randrange(10**6), False, seconds=20)
            # the acceleration a seeded call uses is the seeded choice
            import numpy as np

            idx = np.random.RandomState()
            mf2 = G.build(name, accs, cfs, mode, **kw)
            from direct.common.subsample import temp_seed

            with temp_seed(mf2.rng, seed):
                _, R_used = mf2.choose_acceleration()
        else:
            R_used = R
        r = G.call(mf, shape, seed, False, seconds=20)
        if r[0] != "ok":
            continue  # C04
        rows, cols = shape[-3], shape[-2]
        full = r[1].reshape(frames, -1, cols) if name not in ("Gaussian2D", "VariableDensityPoisson") else r[1].reshape(frames, rows, cols)
        for f in range(frames):
            if name in ("Gaussian2D", "VariableDensityPoisson"):
                count, total = int(full[f].sum()), rows * cols
            else:
                count, total = int(full[f][0].sum()), cols
            want = total / R_used
            c2 = dict(cfg, frame=f, acceleration_used=R_used)
            if name.startswith("Gaussian") and abs(count - want) > 1.0 + 1e-9:
                add(Violation("gaussian-budget", "%s (%s, frame %d): %d of %d samples for acceleration %s (N/R = %.2f): off by more than one sample" % (name, mode, f, count, total, R_used, want), {"config": c2, "count": count, "expected": want}, {"generator": name, "kind": "budget"}))
            if "Equispaced" in name and abs(count - want) > 2.0 + 1e-9:
                add(Violation("equispaced-budget", "%s (%s, frame %d): %d of %d columns for acceleration %s (N/R = %.2f): off by more than two columns" % (name, mode, f, count, total, R_used, want), {"config": c2, "count": count, "expected": want}, {"generator": name, "kind": "budget"}))
            if name == "VariableDensityPoisson" and (count == 0 or abs(total / count - R_used) >= 0.2):
                add(Violation("poisson-tolerance", "VariableDensityPoisson (%s, frame %d, %s) returned a mask with acceleration %.3f for requested %s (tolerance 0.2)" % (mode, f, kw, total / max(count, 1), R_used), {"config": c2, "count": count}, {"generator": name, "kind": "budget"}))
    # random line masks: expectation over seeds
    nseeds = ctx.n(400, 2000)
    # widths whose N / R ends in .5 first (a rounded target shifts the mean by half a column: many seeds are needed to see it)
    fixed = [("FastMRIRandom", 100, 8, 0.04, "static", 3000), ("CartesianRandom", 36, 8, 2, "static", 3000), ("FastMRIRandom", 90, 4, 0.08, "dynamic", 3000)]
    for spec in fixed + [None] * ctx.n(6, 30):
        name = rng.choice(["FastMRIRandom", "CartesianRandom"])
        N = rng.randint(32, 400)
        R = rng.choice(ACCELS)
        cf = rng.choice([4, 8, 12]) if name.startswith("Cartesian") else rng.choice([0.02, 0.04, 0.08])
        mode = rng.choice(["static", "dynamic", "multislice"])
        nseeds = ctx.n(400, 2000)
        if spec is not None:
            name, N, R, cf, mode, nseeds = spec
        frames = 1 if mode == "static" else rng.randint(2, 3)
        shape = [8, N, 2] if mode == "static" else [frames, 8, N, 2]
        if not G.feasible(name, shape, R, cf):
            continue
        L = G.num_low(name, N, cf)
        mf = G.build(name, R, cf, mode)
        tot = [0] * frames
        for s in range(nseeds):
            r = mf(shape, seed=s).reshape(frames, 8, N)
            for f in range(frames):
                tot[f] += int(r[f][0].sum())
        runs += nseeds
        p = (N / R - L) / (N - L)
        sigma = math.sqrt((N - L) * p * (1 - p) / nseeds)
        for f in range(frames):
            mean = tot[f] / nseeds
            if abs(mean - N / R) > 5 * sigma + 1e-9:
                add(Violation("random-expected-budget", "%s (%s, frame %d) width %d acceleration %s: mean sampled columns over %d seeds is %.3f, expected %.3f (5 sigma = %.3f)" % (name, mode, f, N, R, nseeds, mean, N / R, 5 * sigma), {"generator": name, "mode": mode, "frame": f, "width": N, "acceleration": R, "center_fraction": cf, "seeds": nseeds, "mean": mean, "expected": N / R}, {"generator": name, "kind": "expectation"}))
    ctx.oracle_runs = runs
    return out
