"""C07 — the realised sampling budget matches the requested acceleration."""
import ast
import math
from fractions import Fraction

from .. import coqrun, maskgen as G, py2gallina as pg, symex as X
from ..core import Corr, Untranslatable, Violation

ID = "C07"
LEVEL = "proof"
COQ_FILES = ["Tie/C07_defs.v", "Tie/C07_tie.v", "Props/C07_props.v"]
PROPS_FILES = ["C07_props.v"]
TRUSTED_BASE = [
    "vlib/symex.py (symbolic execution of the translated Python subset on the ast: the translator reads value / outcome trees, so local names, intermediates, helpers and the form of branches do not matter; its assumptions - pure expressions, opaque calls, no aliasing writes, try handlers not modelled - are listed in DESIGN.md 12.7; fail-closed)",
    "py2gallina unit 'budget' (rational expressions: RandomMaskFunc.prob, EquispacedMaskFunc.adjusted_accel, Gaussian1D/2D nonzero_count; the +1 of the rejection kernels comes from the .pyx loop condition)",
    "np.round / round are modelled as any rounding r with |r(x) - x| <= 1/2 (theorems) and as round-half-even over Q (correspondence, ties excluded)",
    "uniformity / independence of numpy draws (the 'in expectation' statement for random masks is the identity E[count] = L + (N - L) * prob = N / R; the statistics over seeds are support, not proof)",
    "the discretisation of np.arange / np.around in equispaced masks (+-2 columns) and the variable-density Poisson tolerance are decided by oracles on the implementation only",
]
ASSUMPTIONS = ["feasible parameters (L < N/R, etc.; see vlib/maskgen.py:feasible)"]
RULE = "Gaussian1D/2D realised counts for widths 32-400 / sizes up to 128x128 and accelerations {2,3,4,5.5,8,12} compared exactly with the regenerated count formula over Q; non-trivial = count formula not at a rounding tie; distinct by configuration"

Q_OPSV = {"+": "Qplus", "-": "Qminus", "*": "Qmult", "/": "Qdiv"}
S = lambda n: ("sym", n)
SHAPE = S("shape")
PAIR = ("call", ("attr", S("self"), "choose_acceleration"), (), ())
NCOLS, NROWS = ("sub", SHAPE, X.const(-2)), ("sub", SHAPE, X.const(-3))
CF, ACC = ("sub", PAIR, X.const(0)), ("sub", PAIR, X.const(1))
INT = lambda e: ("call", S("int"), (e,), ())
ROUND = lambda e: ("call", S("round"), (e,), ())
L_FRACTION = INT(ROUND(("bin", "*", NCOLS, CF)))
L_COUNT = INT(CF)
L_EITHER = ("ife", ("cmp", "<", CF, X.const(1.0)), L_FRACTION, L_COUNT)
OPAQUE = {"choose_acceleration", "_reshape_and_add_coil_axis", "_broadcast_mask", "center_mask_func", "centered_disk_mask"}


def qexpr(v, leaves, path):
    """Value tree -> rational expression over the named quantities."""
    if v in leaves:
        return leaves[v]
    if v[0] == "bin" and v[1] in Q_OPSV:
        return "(%s %s %s)" % (Q_OPSV[v[1]], qexpr(v[2], leaves, path), qexpr(v[3], leaves, path))
    if v[0] == "const" and type(v[1]) is int:
        return "(inject_Z %d)" % v[1]
    raise Untranslatable("budget: rational expression outside subset: %s" % X.show(v)[:90], None, path)


def _line_count(conds, path, what, both=True):
    """The requested number of ACS lines on a path of a line generator: round(N * fraction) below 1.0, else the count."""
    frac = [pol for c, pol in conds if c == ("cmp", "<", CF, X.const(1.0))]
    if not both:
        return L_FRACTION
    if not frac:
        return L_EITHER  # decided inside a helper: one conditional value
    if len(set(frac)) != 1:
        raise Untranslatable("%s: the path decides `center_fraction < 1.0` both ways" % what, None, path)
    return L_FRACTION if frac[0] else L_COUNT


def _strlist(name, items):
    return "Definition %s : list string := [%s].\n" % (name, "; ".join('"%s"' % i.replace('"', "'") for i in items))


def _one(forms, what, path):
    if len(forms) != 1:
        raise Untranslatable("%s: the formula differs between paths (or is never reached): %s" % (what, sorted(forms)[:3]), None, path)
    return next(iter(forms))


def generate(ctx):
    """The budget formulas where they are *used* (the probability the uniform draw is compared with, the step handed to
    arange, the count handed to the rejection kernels), as value trees of a symbolic execution (vlib/symex.py): they come
    out in terms of the shape, the seeded (fraction, acceleration) choice and the ACS request, so what N, R and L are
    bound to is part of what is translated; the calls that build the ACS are required to use the same L."""
    path = ctx.src("direct/common/subsample.py")
    tree, _ = pg.parse_file(path)
    out = "From Coq Require Import QArith String.\nOpen Scope string_scope.\n"
    facts = {}
    # ---- Random: the draw is compared with prob; Equispaced: the step of arange ----
    for cls, key in (("RandomMaskFunc", "random"), ("EquispacedMaskFunc", "equi")):
        hits, stopped = X.watch_calls(tree, path, cls + ".mask_func", ["center_mask_func", "arange"], opaque=OPAQUE)
        forms, acs = set(), set()
        for conds, args, kw in hits["center_mask_func"]:
            if len(args) != 2 or args[0] != NCOLS or args[1] != _line_count(conds, path, cls):
                raise Untranslatable("%s: the ACS is not center_mask_func(num_cols, requested lines): %s" % (cls, [X.show(a)[:60] for a in args]), None, path)
            acs.add(X.show(args[1]))
        if acs not in ({X.show(L_FRACTION), X.show(L_COUNT)}, {X.show(L_EITHER)}):
            raise Untranslatable("%s: ACS request not found on both paths (%s)" % (cls, stopped), None, path)
        if key == "random":
            for ln, conds, it, env in hits["$probes"]:
                L = _line_count(conds, path, cls)
                lv = {NCOLS: "N", ACC: "R", L: "L"}
                for n in X.find_nodes(env, lambda v: v[0] == "cmp" and v[1] == "<" and v[2][0] == "call" and v[2][1] == ("attr", ("attr", S("self"), "rng"), "uniform")):
                    if dict(n[2][3]).get("size", (list(n[2][2]) + [None])[0]) != NCOLS:
                        raise Untranslatable("RandomMaskFunc: the uniform draw is not one value per column", None, path)
                    forms.add(qexpr(n[3], lv, path))
            out += "Definition random_prob (N R L : Q) : Q := %s.\n" % _one(forms, "RandomMaskFunc: probability the uniform draw is compared with", path)
        else:
            for conds, args, kw in hits["arange"]:
                L = _line_count(conds, path, cls)
                lv = {NCOLS: "N", ACC: "R", L: "L"}
                if len(args) != 3:
                    raise Untranslatable("EquispacedMaskFunc: arange is not called with (offset, stop, step)", None, path)
                forms.add(qexpr(args[2], lv, path))
            out += "Definition equi_adjusted (N R L : Q) : Q := %s.\n" % _one(forms, "EquispacedMaskFunc: step of arange", path)
        facts[key] = ["N = " + X.show(NCOLS), "R = " + X.show(ACC), "L = %s if %s < 1.0 else %s" % (X.show(L_FRACTION), X.show(CF), X.show(L_COUNT)), "ACS = center_mask_func(N, L)"]
        out += _strlist(key + "_bindings", facts[key])
    # ---- Gaussian 1-D: the count handed to the kernel ----
    hits, stopped = X.watch_calls(tree, path, "Gaussian1DMaskFunc.mask_func", ["center_mask_func", "gaussian_mask_1d"], opaque=OPAQUE)
    for conds, args, kw in hits["center_mask_func"]:
        if len(args) != 2 or args[0] != NCOLS or args[1] != L_FRACTION:
            raise Untranslatable("Gaussian1D: the ACS is not center_mask_func(num_cols, round(num_cols * fraction))", None, path)
    forms = set()
    for conds, args, kw in hits["gaussian_mask_1d"]:
        c = args[0] if args else None
        if not (c and c == INT(("call", ("attr", S("np"), "round"), c[2][0][2], ())) and len(args) >= 2 and args[1] == NCOLS):
            raise Untranslatable("Gaussian1D: the kernel is not called with (int(np.round(..)), num_cols, ..): %s" % (X.show(c)[:80] if c else None), None, path)
        forms.add(qexpr(c[2][0][2][0], {NCOLS: "N", ACC: "R", L_FRACTION: "L"}, path))
    if len(hits["gaussian_mask_1d"]) < 2 or not hits["center_mask_func"]:
        raise Untranslatable("Gaussian1D: kernel call not reached in both modes (%s)" % stopped, None, path)
    out += "Definition g1d_arg (N R L : Q) : Q := %s.\n" % _one(forms, "Gaussian1D: count handed to the kernel", path)
    facts["g1d"] = ["N = " + X.show(NCOLS), "R = " + X.show(ACC), "L = " + X.show(L_FRACTION), "ACS = center_mask_func(N, L)", "kernel width = N"]
    out += _strlist("g1d_bindings", facts["g1d"])
    # ---- Gaussian 2-D: the count handed to the kernel, per frame; L is the size of the centre disc just built ----
    hits, stopped = X.watch_calls(tree, path, "Gaussian2DMaskFunc.mask_func", ["gaussian_mask_2d"], opaque=OPAQUE)
    disc = ("call", S("centered_disk_mask"), (("tuple", (NROWS, NCOLS)), CF), ())
    forms = set()

    def disc_sum(v):
        """`<the centre disc, or one frame of its repetition over the frames>.sum()`"""
        if not (v[0] == "call" and v[1][0] == "attr" and v[1][2] == "sum" and not v[2] and not v[3]):
            return False
        m = v[1][1]
        if m == disc:
            return True
        if m[0] == "sub" and m[2][0] in ("bv",):
            m = m[1]
            return m[0] == "call" and m[1][0] == "attr" and m[1][2] == "repeat" and m[1][1] == ("sub", disc, ("attr", S("np"), "newaxis")) and X.arg(m, 1, "axis") == X.const(0)
        return False

    for conds, args, kw in hits["gaussian_mask_2d"]:
        c = args[0] if args else None
        if not (c and c[0] == "call" and c[1] == S("int") and c[2][0][0] == "call" and c[2][0][1] == ("attr", S("np"), "round") and len(args) >= 3 and args[1] == NROWS and args[2] == NCOLS):
            raise Untranslatable("Gaussian2D: the kernel is not called with (int(np.round(..)), num_rows, num_cols, ..)", None, path)
        arg = c[2][0][2][0]
        sums = X.find_nodes(arg, lambda v: v[0] == "call" and v[1][0] == "attr" and v[1][2] == "sum")
        if len(set(sums)) != 1 or not disc_sum(sums[0]):
            raise Untranslatable("Gaussian2D: the count does not subtract the size of the centre disc of this frame: %s" % X.show(arg)[:120], None, path)
        forms.add(qexpr(arg, {NCOLS: "N", NROWS: "M", ACC: "R", sums[0]: "L"}, path))
    if len(hits["gaussian_mask_2d"]) < 2:
        raise Untranslatable("Gaussian2D: kernel call not reached in both modes (%s)" % stopped, None, path)
    out += "Definition g2d_arg (N M R L : Q) : Q := %s.\n" % _one(forms, "Gaussian2D: count handed to the kernel", path)
    facts["g2d"] = ["M, N = %s, %s" % (X.show(NROWS), X.show(NCOLS)), "R = " + X.show(ACC), "disc = " + X.show(disc), "L = disc.sum() (the frame's own copy in dynamic / multislice mode)", "kernel grid = M x N"]
    out += _strlist("g2d_bindings", facts["g2d"])
    # +1 of the kernels
    import re

    txt = open(ctx.src("direct/common/_gaussian.pyx")).read()
    conds = re.findall(r"while count (<=|<) nonzero_count:", txt)
    if len(conds) != 2 or len(set(conds)) != 1:
        raise Untranslatable("_gaussian.pyx: rejection loop conditions outside subset", None, "direct/common/_gaussian.pyx")
    out += "Definition kernel_extra : Z := %s.\n" % ("1%Z" if conds[0] == "<=" else "0%Z")
    return [pg.write_gen(ctx, "C07_gen", out)]


PRE = "From DV Require Import Base.Tactics.\nFrom Coq Require Import QArith.\nFrom G Require Import C07_gen C07_defs.\n"
ACCELS = [2, 3, 4, 5.5, 8, 12]


def _q(x):
    f = Fraction(x).limit_denominator(10**6)
    return "(%d # %d)%%Q" % (f.numerator, f.denominator)


def gen_cases(ctx):
    rng = ctx.rng
    cases = []
    for _ in range(ctx.n(120, 1500)):
        if rng.random() < 0.6:
            N = rng.randint(32, 400)
            R = rng.choice(ACCELS)
            cf = rng.choice([0.02, 0.04, 0.08, 0.1])
            shape = [rng.randint(8, 16), N, 2]
            if G.feasible("Gaussian1D", shape, R, cf):
                cases.append(("Gaussian1D", shape, R, cf, rng.randrange(10**6)))
        else:
            n, m = rng.randint(16, 128), rng.randint(16, 128)
            R = rng.choice(ACCELS)
            cf = rng.choice([0.02, 0.04, 0.08])
            shape = [n, m, 2]
            if G.feasible("Gaussian2D", shape, R, cf):
                cases.append(("Gaussian2D", shape, R, cf, rng.randrange(10**6)))
    return cases


def correspond(ctx):
    from .. import shims

    shims.install(ctx.repo)
    corr = Corr()
    corr.rule = RULE
    cases = gen_cases(ctx)
    impls, terms, keep = [], [], []
    for (name, shape, R, cf, seed) in cases:
        mf = G.build(name, R, cf, "static")
        r = G.call(mf, shape, seed, False, seconds=8)
        a = G.call(mf, shape, seed, True, seconds=8)
        if r[0] != "ok" or a[0] != "ok":
            continue
        rows, cols = shape[-3], shape[-2]
        if name == "Gaussian1D":
            count = int(r[1].reshape(rows, cols)[0].sum())
            L = int(a[1].reshape(rows, cols)[0].sum())
            x = Fraction(cols) / Fraction(R).limit_denominator(10**6) - L - 1
            terms.append("g1d_total %s %s %d" % (_q(cols), _q(R), L))
        else:
            count = int(r[1].sum())
            L = int(a[1].sum())
            x = Fraction(rows * cols) / Fraction(R).limit_denominator(10**6) - L - 1
            terms.append("g2d_total %s %s %s %d" % (_q(cols), _q(rows), _q(R), L))
        tie = abs((x - math.floor(x)) - Fraction(1, 2)) < Fraction(1, 1000)
        impls.append(count)
        keep.append(((name, shape, R, cf, seed), tie))
    vals = coqrun.eval_sharded("c07_cases", PRE, terms, ctx.work, gen_dir=ctx.gen_dir, shard=400)
    for (c, tie), im, mv in zip(keep, impls, vals):
        corr.dist("generator", c[0])
        corr.dist("acceleration", c[2])
        if tie:
            corr.count({"cfg": c}, False)
            continue
        corr.compare({"generator": c[0], "shape": c[1], "acceleration": c[2], "center_fraction": c[3], "seed": c[4]}, im, mv, nontrivial=True)
    return corr


def oracles(ctx, deep):
    import torch

    out, seen, runs = [], set(), 0

    def add(v):
        if v.key() not in seen:
            seen.add(v.key())
            out.append(v)

    rng = ctx.rng
    stats = {}
    for _ in range(ctx.n(150, 1500) * (2 if deep else 1)):
        name = rng.choice(["Gaussian1D", "Gaussian2D", "VariableDensityPoisson", "FastMRIEquispaced", "CartesianEquispaced", "FastMRIEquispaced"])
        R = rng.choice(ACCELS)
        mode = rng.choice(["static", "static", "dynamic", "multislice"])
        frames = 1 if mode == "static" else rng.randint(2, 4)
        if name in ("Gaussian2D", "VariableDensityPoisson"):
            n, m = rng.randint(16, 64 if name == "VariableDensityPoisson" else 128), rng.randint(16, 64 if name == "VariableDensityPoisson" else 128)
            shape = [n, m, 2]
            cf = rng.choice([0.02, 0.04, 0.08])
        else:
            shape = [rng.randint(8, 12), rng.randint(32, 400), 2]
            cf = rng.choice([4, 8, 12, 16]) if name.startswith("Cartesian") else rng.choice([0.02, 0.04, 0.08, 0.1])
        if mode != "static":
            shape = [frames] + shape
        if not G.feasible(name, shape, R, cf):
            continue
        seed = rng.randrange(10**6)
        runs += 1
        kw = {}
        if name == "VariableDensityPoisson" and rng.random() < 0.4:
            kw["crop_corner"] = True
        # an instance that served other accelerations / seeds before must give the same budget
        history = rng.random() < 0.4
        accs, cfs = [R], [cf]
        if history:
            R2 = rng.choice([a for a in ACCELS if a != R])
            if G.feasible(name, shape, R2, cf):
                accs, cfs = [R, R2], [cf, cf]
        cfg = {"generator": name, "mode": mode, "shape": shape, "acceleration": R, "center_fraction": cf, "seed": seed, "options": kw, "instance_accelerations": accs}
        mf = G.build(name, accs, cfs, mode, **kw)
        if len(accs) > 1:
            for j in range(rng.randint(1, 6)):
                G.call(mf, shape, rng.randrange(10**6), False, seconds=20)
            # the acceleration a seeded call uses is the seeded choice
            import numpy as np

            idx = np.random.RandomState()
            mf2 = G.build(name, accs, cfs, mode, **kw)
            from direct.common.subsample import temp_seed

            with temp_seed(mf2.rng, seed):
                _, R_used = mf2.choose_acceleration()
        else:
            R_used = R
        r = G.call(mf, shape, seed, False, seconds=20)
        if r[0] != "ok":
            continue  # C04
        rows, cols = shape[-3], shape[-2]
        full = r[1].reshape(frames, -1, cols) if name not in ("Gaussian2D", "VariableDensityPoisson") else r[1].reshape(frames, rows, cols)
        for f in range(frames):
            if name in ("Gaussian2D", "VariableDensityPoisson"):
                count, total = int(full[f].sum()), rows * cols
            else:
                count, total = int(full[f][0].sum()), cols
            want = total / R_used
            c2 = dict(cfg, frame=f, acceleration_used=R_used)
            if name.startswith("Gaussian") and abs(count - want) > 1.0 + 1e-9:
                add(Violation("gaussian-budget", "%s (%s, frame %d): %d of %d samples for acceleration %s (N/R = %.2f): off by more than one sample" % (name, mode, f, count, total, R_used, want), {"config": c2, "count": count, "expected": want}, {"generator": name, "kind": "budget"}))
            if "Equispaced" in name and abs(count - want) > 2.0 + 1e-9:
                add(Violation("equispaced-budget", "%s (%s, frame %d): %d of %d columns for acceleration %s (N/R = %.2f): off by more than two columns" % (name, mode, f, count, total, R_used, want), {"config": c2, "count": count, "expected": want}, {"generator": name, "kind": "budget"}))
            if name == "VariableDensityPoisson" and (count == 0 or abs(total / count - R_used) >= 0.2):
                add(Violation("poisson-tolerance", "VariableDensityPoisson (%s, frame %d, %s) returned a mask with acceleration %.3f for requested %s (tolerance 0.2)" % (mode, f, kw, total / max(count, 1), R_used), {"config": c2, "count": count}, {"generator": name, "kind": "budget"}))
    # random line masks: expectation over seeds
    nseeds = ctx.n(400, 2000)
    # widths whose N / R ends in .5 first (a rounded target shifts the mean by half a column: many seeds are needed to see it)
    fixed = [("FastMRIRandom", 100, 8, 0.04, "static", 3000), ("CartesianRandom", 36, 8, 2, "static", 3000), ("FastMRIRandom", 90, 4, 0.08, "dynamic", 3000)]
    for spec in fixed + [None] * ctx.n(6, 30):
        name = rng.choice(["FastMRIRandom", "CartesianRandom"])
        N = rng.randint(32, 400)
        R = rng.choice(ACCELS)
        cf = rng.choice([4, 8, 12]) if name.startswith("Cartesian") else rng.choice([0.02, 0.04, 0.08])
        mode = rng.choice(["static", "dynamic", "multislice"])
        nseeds = ctx.n(400, 2000)
        if spec is not None:
            name, N, R, cf, mode, nseeds = spec
        frames = 1 if mode == "static" else rng.randint(2, 3)
        shape = [8, N, 2] if mode == "static" else [frames, 8, N, 2]
        if not G.feasible(name, shape, R, cf):
            continue
        L = G.num_low(name, N, cf)
        mf = G.build(name, R, cf, mode)
        tot = [0] * frames
        for s in range(nseeds):
            r = mf(shape, seed=s).reshape(frames, 8, N)
            for f in range(frames):
                tot[f] += int(r[f][0].sum())
        runs += nseeds
        p = (N / R - L) / (N - L)
        sigma = math.sqrt((N - L) * p * (1 - p) / nseeds)
        for f in range(frames):
            mean = tot[f] / nseeds
            if abs(mean - N / R) > 5 * sigma + 1e-9:
                add(Violation("random-expected-budget", "%s (%s, frame %d) width %d acceleration %s: mean sampled columns over %d seeds is %.3f, expected %.3f (5 sigma = %.3f)" % (name, mode, f, N, R, nseeds, mean, N / R, 5 * sigma), {"generator": name, "mode": mode, "frame": f, "width": N, "acceleration": R, "center_fraction": cf, "seeds": nseeds, "mean": mean, "expected": N / R}, {"generator": name, "kind": "expectation"}))
    ctx.oracle_runs = runs
    return out
