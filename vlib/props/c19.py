"""C19 — data-consistency blocks implement the MRI physics exactly."""
import ast
import functools

from .. import symex as X, coqrun, opir, py2gallina as pg
from ..core import Corr, Untranslatable, Violation

ID = "C19"
LEVEL = "proof"
COQ_FILES = ["Tie/C19_tie.v", "Props/C19_props.v"]
PROPS_FILES = ["C19_props.v"]
TRUSTED_BASE = [
    "vlib/symex.py (symbolic execution of the translated Python subset on the ast: the translator reads value / outcome trees, so local names, intermediates, helpers and the form of branches do not matter; its assumptions - pure expressions, opaque calls, no aliasing writes, try handlers not modelled - are listed in DESIGN.md 12.7; fail-closed)",
    "vlib/opir.py (operator terms of MRILogLikelihood.forward and ConjGrad._A_star_op/_A_star_A_op/B_op, shared with C03) and py2gallina unit 'cg' (the update expressions of ConjGrad.cg over abstract vector-space operations)",
    "hypotheses of the gradient theorem, all explicit: the forward operator is linear with the backward operator as its adjoint (unitary / normalised FFT), coil expansion and reduction are linear and adjoint (C02), masking is linear, self-adjoint and idempotent (C03), real symmetric bilinear inner products",
    "numerical agreement with autograd / a dense solve is validation of these hypotheses for torch (tolerances 1e-4), not proof; convergence 'to solver tolerance' of conjugate gradients is only validated numerically (the theorems give the residual invariant and the fixed point)",
]
ASSUMPTIONS = ["normalised (unitary) Fourier operators: for un-normalised operators the block is the gradient divided by the number of pixels", "exact arithmetic"]
RULE = "likelihood block vs autograd of the data-fidelity term and conjugate-gradient output vs a dense solve of the regularised normal equations, sizes up to 12x12x4 coils, lambda in [0.05, 10], empty / full / random masks, centred and uncentred operators; the correspondence compares the structural evaluation of the regenerated terms in a 1-dimensional exact instance (Q); non-trivial = non-empty mask; distinct by configuration"

VPARAMS = "(V K : Type) (vadd vsub : V -> V -> V) (smul : K -> V -> V) (dot : V -> V -> K) (sdiv : K -> K -> K) (B Astar : V -> V) (lam : K)"


class CgT:
    """Expressions of ConjGrad.cg over abstract vector-space operations."""

    def __init__(self, env, path):
        self.env, self.path = env, path

    def v(self, node):
        key = ast.unparse(node)
        if key in self.env:
            return self.env[key]
        if isinstance(node, ast.BinOp) and isinstance(node.op, ast.Add):
            return "(vadd %s %s)" % (self.v(node.left), self.v(node.right))
        if isinstance(node, ast.BinOp) and isinstance(node.op, ast.Sub):
            return "(vsub %s %s)" % (self.v(node.left), self.v(node.right))
        if isinstance(node, ast.BinOp) and isinstance(node.op, ast.Mult) and ast.unparse(node.left) == "lambd":
            return "(smul lam %s)" % self.v(node.right)
        if isinstance(node, ast.Call):
            fn = ast.unparse(node.func)
            if fn == "complex_multiplication" and len(node.args) == 2:
                return "(smul %s %s)" % (self.k(node.args[0]), self.v(node.args[1]))
            if fn == "self.B_op" and ast.unparse(node.args[1]) == "sensitivity_map" and ast.unparse(node.args[2]) == "sampling_mask" and ast.unparse(node.args[3]) == "lambd":
                return "(B %s)" % self.v(node.args[0])
            if fn == "self._A_star_op" and [ast.unparse(a) for a in node.args[1:]] == ["sensitivity_map", "sampling_mask"]:
                return "(Astar %s)" % self.v(node.args[0])
            if fn.endswith(".clone") and not node.args:
                return self.v(node.func.value)
        raise Untranslatable("cg: vector expression outside subset: %s" % key[:70], getattr(node, "lineno", None), self.path)

    def k(self, node):
        key = ast.unparse(node)
        if key in self.env:
            return self.env[key]
        if isinstance(node, ast.Call):
            fn = ast.unparse(node.func)
            if fn == "complex_dot_product" and len(node.args) == 3 and ast.unparse(node.args[2]) == "dim":
                return "(dot %s %s)" % (self.v(node.args[0]), self.v(node.args[1]))
            if fn == "complex_division" and len(node.args) == 2:
                return "(sdiv %s %s)" % (self.k(node.args[0]), self.k(node.args[1]))
            if fn.endswith(".reshape") and ast.unparse(node.args[0]) == "shape":
                return self.k(node.func.value)
            if fn.endswith(".clone") and not node.args:
                return self.k(node.func.value)
        raise Untranslatable("cg: scalar expression outside subset: %s" % key[:70], getattr(node, "lineno", None), self.path)


S = lambda n: ("sym", n)


class CgV:
    """Value trees (vlib/symex.py) of ConjGrad.cg over abstract vector-space operations."""

    def __init__(self, leaves, path):
        self.leaves, self.path = leaves, path

    @staticmethod
    def strip(v):
        while v[0] == "call" and v[1][0] == "attr" and v[1][2] in ("clone", "reshape", "view", "contiguous"):
            v = v[1][1]
        return v

    def v(self, t):
        t = self.strip(t)
        if t in self.leaves:
            return self.leaves[t]
        if t[0] == "bin" and t[1] in "+-":
            return "(%s %s %s)" % ("vadd" if t[1] == "+" else "vsub", self.v(t[2]), self.v(t[3]))
        if t[0] == "bin" and t[1] == "*" and S("lambd") in (t[2], t[3]):
            return "(smul lam %s)" % self.v(t[3] if t[2] == S("lambd") else t[2])
        if t[0] == "call":
            f, args = t[1], t[2]
            if f == S("complex_multiplication") and len(args) == 2:
                return "(smul %s %s)" % (self.k(args[0]), self.v(args[1]))
            if f == ("attr", S("self"), "B_op") and args[1:] == (S("sensitivity_map"), S("sampling_mask"), S("lambd")):
                return "(B %s)" % self.v(args[0])
            if f == ("attr", S("self"), "_A_star_op") and args[1:] == (S("sensitivity_map"), S("sampling_mask")):
                return "(Astar %s)" % self.v(args[0])
        raise Untranslatable("cg: vector expression outside subset: %s" % X.show(t)[:90], None, self.path)

    def k(self, t):
        t = self.strip(t)
        if t in self.leaves:
            return self.leaves[t]
        if t[0] == "call":
            f, args = t[1], t[2]
            if f == S("complex_dot_product") and len(args) == 3 and args[2] == DIMS:
                return "(dot %s %s)" % (self.v(args[0]), self.v(args[1]))
            if f == S("complex_division") and len(args) == 2:
                return "(sdiv %s %s)" % (self.k(args[0]), self.k(args[1]))
        raise Untranslatable("cg: scalar expression outside subset: %s" % X.show(t)[:90], None, self.path)


DIMS = X.parse_expr("torch.arange(1, x.ndim - 1).tolist()")


def _with(d_, **_unused):
    return d_


def _assume(v, cond):
    """v with every conditional on `cond` resolved to its then-branch."""
    if not isinstance(v, tuple):
        return v
    if v and v[0] == "ife" and v[1] == cond:
        return _assume(v[2], cond)
    return tuple(_assume(x, cond) if isinstance(x, tuple) else x for x in v)


def _plus(base, extra):
    out = dict(base)
    out.update(extra)
    return out


def generate(ctx):
    """ConjGrad.cg as a state machine read off a symbolic execution (vlib/symex.py): the locals before the loop, one generic
    iteration of the loop on unknown carried values (each way it can end: tolerance exit, or the update of the chosen
    rule), and what is returned after the loop. The carried variables are identified by their role, not by name."""
    text, terms = opir.standard_terms(ctx)
    path = ctx.src("direct/nn/conjgradnet/conjgrad.py")
    tree, _ = pg.parse_file(path)
    prim = {"B_op", "_A_star_op"}
    hits, stopped = X.watch_calls(tree, path, "ConjGrad.cg", [], opaque=prim)
    loops = hits["$loops"]
    if len(loops) != 1 or loops[0]["iter"] != X.parse_expr("range(self.num_iters)"):
        raise Untranslatable("cg: not one loop over range(self.num_iters) (%s)" % stopped, None, path)
    L = loops[0]
    d, before = L["depth"], L["before"]
    strip = CgV.strip
    # roles of the carried locals, from what they hold before the loop and how the loop uses them
    b_val = X.parse_expr("self._A_star_op(y, sensitivity_map, sampling_mask) + lambd * z")
    r0_val = ("bin", "-", b_val, X.parse_expr("self.B_op(x, sensitivity_map, sampling_mask, lambd)"))
    rr0_val = ("call", S("complex_dot_product"), (r0_val, r0_val, DIMS), ())
    carried = [n for n in L["assigned"] if n in before]
    xs = [n for n in carried if before[n] == S("x")]
    r_like = [n for n in carried if strip(before[n]) == r0_val]
    rrs = [n for n in carried if strip(before[n]) == rr0_val]
    ends = [(c, e) for kind, c, e in L["paths"] if kind == "end"]
    breaks = [(c, e) for kind, c, e in L["paths"] if kind == "break"]
    if len(xs) != 1 or len(r_like) != 2 or len(rrs) != 1 or not ends or len(breaks) != 1:
        raise Untranslatable("cg: the loop does not carry exactly an iterate, a residual, a direction (both starting as b - B x0) and the squared residual norm, with one tolerance exit: %s" % carried, None, path)
    H = lambda n: ("havoc", n, d)
    bops = X.find_nodes(ends[0][1], lambda v: v[0] == "call" and v[1] == ("attr", S("self"), "B_op"))
    dirs = {v[2][0][1] for v in bops if v[2][0][0] == "havoc"}
    if len(dirs) != 1 or next(iter(dirs)) not in r_like:
        raise Untranslatable("cg: B is not applied to one carried direction", None, path)
    pn = next(iter(dirs))
    rn = [n for n in r_like if n != pn][0]
    xn, rrn = xs[0], rrs[0]
    # the update under the default (FR) rule
    is_fr = X.parse_expr("self.bk_update_type == 'FR'")
    fr = [e for c, e in ends if any(cc == is_fr and pol for cc, pol in c)]
    if not fr and len(ends) == 1:
        # the rule is chosen inside a helper: one path whose values are conditional on it
        fr = [{k_: _assume(v_, is_fr) for k_, v_ in ends[0][1].items()}]
    if len(fr) != 1:
        raise Untranslatable("cg: no single path for bk_update_type == 'FR'", None, path)
    e = fr[0]
    x1, p1, r1, rr1 = strip(e[xn]), strip(e[pn]), strip(e[rn]), strip(e[rrn])
    Bp = ("call", ("attr", S("self"), "B_op"), (H(pn), S("sensitivity_map"), S("sampling_mask"), S("lambd")), ())
    cm = lambda v: v[0] == "call" and v[1] == S("complex_multiplication") and len(v[2]) == 2
    if not (x1[0] == "bin" and x1[1] == "+" and x1[2] == H(xn) and cm(x1[3]) and strip(x1[3][2][1]) == H(pn)):
        raise Untranslatable("cg: the iterate is not x + a * p: %s" % X.show(x1)[:120], None, path)
    a_val = x1[3][2][0]
    if not (p1[0] == "bin" and p1[1] == "+" and strip(p1[2]) == r1 and cm(p1[3]) and strip(p1[3][2][1]) == H(pn)):
        raise Untranslatable("cg: the direction is not r' + beta * p: %s" % X.show(p1)[:120], None, path)
    beta_val = p1[3][2][0]
    out = text
    D = "Definition %s " + VPARAMS + " "
    base = {S("y"): "y", S("z"): "z", S("x"): "x0"}
    out += D % "cg_b" + "(y z : V) : V := %s.\n" % CgV(base, path).v(b_val)
    out += D % "cg_r0" + "(b x0 : V) : V := %s.\n" % CgV(_plus(base, {b_val: "b"}), path).v(before[rn])
    out += D % "cg_p0" + "(r0 : V) : V := %s.\n" % CgV({r0_val: "r0"}, path).v(before[pn])
    out += D % "cg_rr0" + "(r0 : V) : K := %s.\n" % CgV({r0_val: "r0"}, path).k(before[rrn])
    st = {H(xn): "x", H(pn): "p", H(rn): "r", H(rrn): "rr"}
    out += D % "cg_Bp" + "(p : V) : V := %s.\n" % CgV(st, path).v(Bp)
    st2 = _plus(st, {Bp: "Bp"})
    out += D % "cg_a" + "(r Bp : V) (rr : K) : K := %s.\n" % CgV(st2, path).k(a_val)
    st3 = _plus(st2, {a_val: "a", CgV.strip(a_val): "a"})
    out += D % "cg_x" + "(x p : V) (a : K) : V := %s.\n" % CgV(st3, path).v(x1)
    out += D % "cg_r" + "(r Bp : V) (a : K) : V := %s.\n" % CgV(st3, path).v(r1)
    out += D % "cg_rr" + "(r' : V) : K := %s.\n" % CgV({r1: "r'"}, path).k(rr1)
    out += D % "cg_beta_fr" + "(rr rr' : K) : K := %s.\n" % CgV({H(rrn): "rr", rr1: "rr'"}, path).k(beta_val)
    out += D % "cg_p" + "(r' p : V) (beta : K) : V := %s.\n" % CgV({r1: "r'", H(pn): "p", beta_val: "beta", CgV.strip(beta_val): "beta"}, path).v(p1)
    # the tolerance exit: taken on the new squared residual norm, leaving the updated iterate behind
    bc, be = breaks[0]
    tol = [c for c, pol in bc if pol and c[0] == "cmp" and c[1] == "<" and c[3] == ("attr", S("self"), "tol")]
    seen_rr = bool(tol) and bool(X.find_nodes(tol[0], lambda v: v == rr1))
    exit_after = ([0] if strip(be[xn]) == x1 else []) + ([1, 2] if seen_rr else [])
    out += "Definition cg_exit_after : list nat := [%s]%%nat.  (* 0 = x, 1 = r, 2 = rr updated before the tolerance exit *)\n" % "; ".join(str(v) for v in exit_after)
    # what is returned is the iterate after the loop
    t, _n = X.run_function(tree, path, "ConjGrad.cg", opaque=prim)
    for conds, lf in X.leaves(X.prune_raises(X.drop_do(t))):
        if lf != ("ret", ("after", xn, d)):
            raise Untranslatable("cg: what is returned is not the iterate after the loop: %s" % X.show(lf[1])[:80], None, path)
    return [pg.write_gen(ctx, "C19_gen", out)]


# ------------------------------------------------------------------------------------------------
PRE = "From DV Require Import Base.Tactics Base.OpIR.\nFrom Coq Require Import QArith.\nFrom G Require Import C19_gen C19_tie.\n"


def correspond(ctx):
    """Structural check of the regenerated terms in a 1-dimensional exact instance: V = K = Q, one coil, one pixel:
    F = Finv = identity, mask in {0, 1}; the implementation is run on 1x1 images with the same numbers."""
    import torch
    from fractions import Fraction
    from .. import shims

    shims.install(ctx.repo)
    from direct.data import transforms as T
    from direct.nn.conjgradnet.conjgrad import ConjGrad
    from direct.nn.rim.rim import MRILogLikelihood

    corr = Corr()
    corr.rule = RULE
    rng = ctx.rng
    terms, impls, cases = [], [], []
    fwd = functools.partial(T.fft2, centered=True)
    bwd = functools.partial(T.ifft2, centered=True)
    ll = MRILogLikelihood(fwd, bwd)
    cg = ConjGrad.__new__(ConjGrad)
    cg.forward_operator, cg.backward_operator, cg._spatial_dims, cg._coil_dim = fwd, bwd, (2, 3), 1
    for _ in range(ctx.n(150, 1500)):
        x, y, s = [rng.choice([-4, -2, -1, -0.5, 0, 0.5, 1, 2, 4]) for _ in range(3)]
        m = rng.choice([0, 1, 1])
        lam = rng.choice([0.5, 1, 2, 0.25])
        # real-valued 1x1 problem (imaginary parts zero): every operator is multiplication
        X = torch.tensor([[[[x, 0.0]]]])  # (N, h, w, 2)
        Y = torch.tensor([[[[[y, 0.0]]]]])  # (N, coil, h, w, 2)
        S = torch.tensor([[[[[s, 0.0]]]]])
        Mk = torch.tensor([[[[[bool(m)]]]]])
        g = ll(X.permute(0, 3, 1, 2), Y, S, Mk)  # (N, 2, h, w)
        bx = cg.B_op(X, S, Mk, torch.tensor([lam]))
        impls.append([str(Fraction(float(g[0, 0, 0, 0]))), str(Fraction(float(bx[0, 0, 0, 0])))])
        q = lambda v: "(%d # %d)" % (Fraction(v).numerator, Fraction(v).denominator) if Fraction(v) >= 0 else "(-%d # %d)" % (-Fraction(v).numerator, Fraction(v).denominator)
        terms.append("(qcanon1 (eval1 %s %s %s %s %s loglik_t), qcanon1 (eval1 %s %s %s %s %s b_op_t))" % (q(x), q(y), q(s), "true" if m else "false", q(lam), q(x), q(y), q(s), "true" if m else "false", q(lam)))
        cases.append({"x": x, "y": y, "s": s, "mask": m, "lambda": lam})
    vals = coqrun.eval_sharded("c19_cases", PRE, terms, ctx.work, gen_dir=ctx.gen_dir, shard=400)
    for c, im, mv in zip(cases, impls, vals):
        (a, b), (c2, d) = mv if len(mv) == 2 and isinstance(mv[0], tuple) else ((mv[0], mv[1]), mv[2])
        model = [str(Fraction(a, b)), str(Fraction(c2, d))]
        corr.compare(c, im, model, nontrivial=c["mask"] == 1)
    return corr


def oracles(ctx, deep):
    import torch
    from .. import shims

    shims.install(ctx.repo)
    from direct.data import transforms as T
    from direct.nn.conjgradnet.conjgrad import ConjGrad
    from direct.nn.rim.rim import MRILogLikelihood

    out, seen, runs = [], set(), 0

    def add(v):
        if v.key() not in seen:
            seen.add(v.key())
            out.append(v)

    rng = ctx.rng
    vc = torch.view_as_complex
    for _ in range(ctx.n(60, 600) * (2 if deep else 1)):
        centered = rng.random() < 0.5
        fwd = functools.partial(T.fft2, centered=centered)
        bwd = functools.partial(T.ifft2, centered=centered)
        N, C, h, w = 1, rng.randint(1, 4), rng.randint(1, 12), rng.randint(1, 12)
        g = torch.Generator().manual_seed(rng.randrange(1 << 30))
        x = torch.randn(N, h, w, 2, generator=g, dtype=torch.float32)
        y = torch.randn(N, C, h, w, 2, generator=g)
        S = torch.randn(N, C, h, w, 2, generator=g) * rng.choice([0.3, 1.0, 2.0])
        frac = rng.choice([0.0, 0.3, 0.6, 1.0])
        mask = torch.rand(N, 1, h, w, 1, generator=g) < frac
        cfg = {"shape": [C, h, w], "centered": centered, "mask_fraction": frac}
        runs += 1
        try:
            ll = MRILogLikelihood(fwd, bwd)
            blk = ll(x.permute(0, 3, 1, 2), y, S, mask).permute(0, 2, 3, 1)
            xr = x.clone().requires_grad_(True)
            Ax = torch.where(mask == 0, torch.zeros(1), fwd(T.expand_operator(xr, S, dim=1), dim=(2, 3)))
            phi = 0.5 * ((Ax - torch.where(mask == 0, torch.zeros(1), y)) ** 2).sum()
            (grad,) = torch.autograd.grad(phi, xr)
            scale = max(1.0, float(grad.abs().max()))
            if not torch.allclose(blk, grad, atol=2e-4 * scale, rtol=1e-4):
                add(Violation("likelihood-gradient", "MRILogLikelihood differs from the gradient of 1/2 ||M F E x - y||^2 (max diff %.3g, scale %.3g) for %s" % (float((blk - grad).abs().max()), scale, cfg), {"config": cfg}, {"fn": "MRILogLikelihood", "centered": centered}))
            # the block is a function of the mask given now: the same block instance called again with the mask tensor
            # refilled in place (same object, same address) gives the gradient for the new contents
            mask_h = mask.clone()
            ll(x.permute(0, 3, 1, 2), y, S, mask_h)
            mask_h.copy_(torch.rand(N, 1, h, w, 1, generator=g) < rng.choice([0.0, 0.5, 1.0]))
            blk_h = ll(x.permute(0, 3, 1, 2), y, S, mask_h).permute(0, 2, 3, 1)
            xh = x.clone().requires_grad_(True)
            Axh = torch.where(mask_h == 0, torch.zeros(1), fwd(T.expand_operator(xh, S, dim=1), dim=(2, 3)))
            (grad_h,) = torch.autograd.grad(0.5 * ((Axh - torch.where(mask_h == 0, torch.zeros(1), y)) ** 2).sum(), xh)
            sc_h = max(1.0, float(grad_h.abs().max()))
            if not torch.allclose(blk_h, grad_h, atol=2e-4 * sc_h, rtol=1e-4):
                add(Violation("likelihood-gradient", "MRILogLikelihood called a second time on the same instance, with the sampling mask refilled in place, differs from the gradient for the new mask (max diff %.3g, scale %.3g) for %s" % (float((blk_h - grad_h).abs().max()), sc_h, cfg), {"config": cfg, "history": "mask refilled in place"}, {"fn": "MRILogLikelihood-history", "centered": centered}))
            # ... and of the scaling given now: a call with loglikelihood_scaling, then one without, on the same instance
            sc_val = rng.choice([0.25, 4.0, 0.5])
            blk_s = ll(x.permute(0, 3, 1, 2), y, S, mask, torch.full((N,), sc_val)).permute(0, 2, 3, 1)
            blk_n = ll(x.permute(0, 3, 1, 2), y, S, mask).permute(0, 2, 3, 1)
            if not torch.allclose(blk_s, sc_val * grad, atol=2e-4 * scale * max(1.0, sc_val), rtol=1e-4):
                add(Violation("likelihood-gradient", "MRILogLikelihood with loglikelihood_scaling %g differs from %g times the gradient (max diff %.3g, scale %.3g) for %s" % (sc_val, sc_val, float((blk_s - sc_val * grad).abs().max()), scale, cfg), {"config": cfg, "loglikelihood_scaling": sc_val}, {"fn": "MRILogLikelihood-scaling", "centered": centered}))
            if not torch.allclose(blk_n, grad, atol=2e-4 * scale, rtol=1e-4):
                add(Violation("likelihood-gradient", "MRILogLikelihood called without a scaling after a call with loglikelihood_scaling %g on the same instance differs from the gradient (max diff %.3g, scale %.3g) for %s" % (sc_val, float((blk_n - grad).abs().max()), scale, cfg), {"config": cfg, "history": "a call with loglikelihood_scaling %g, then a call without" % sc_val}, {"fn": "MRILogLikelihood-history", "centered": centered, "kind": "scaling"}))
            ycons = fwd(T.expand_operator(x, S, dim=1), dim=(2, 3))
            z0 = ll(x.permute(0, 3, 1, 2), ycons, S, mask)
            if float(z0.abs().max()) > 1e-3 * max(1.0, float(ycons.abs().max())):
                add(Violation("vanishes-on-consistent", "MRILogLikelihood does not vanish on consistent data (max %.3g) for %s" % (float(z0.abs().max()), cfg), {"config": cfg}, {"fn": "MRILogLikelihood"}))
            # conjugate gradients vs dense solve of (A*A + lambda I) x = A* y + lambda z
            lam = torch.tensor([rng.choice([0.05, 0.5, 1.0, 10.0])])
            for rule in ("FR", "PRP"):
                cgm = ConjGrad(fwd, bwd, num_iters=3 * h * w + 10, tol=1e-9, bk_update_type=rule)
                z = torch.randn(N, h, w, 2, generator=g)
                ym = torch.where(mask == 0, torch.zeros(1), y)
                sol = cgm(ym, S, mask, z, lam)
                n = h * w
                # dense operator on R^{2n}
                cols = []
                for i in range(2 * n):
                    e = torch.zeros(2 * n)
                    e[i] = 1.0
                    cols.append(cgm.B_op(e.reshape(1, h, w, 2), S, mask, lam).reshape(-1))
                Bm = torch.stack(cols, dim=1).double()
                rhs = (cgm._A_star_op(ym, S, mask) + lam * z).reshape(-1).double()
                ref = torch.linalg.solve(Bm, rhs).float().reshape(1, h, w, 2)
                r0 = (rhs - Bm @ z.reshape(-1).double()).norm()
                r1 = (rhs - Bm @ sol.reshape(-1).double()).norm()
                sc = max(1.0, float(ref.abs().max()))
                if not torch.allclose(sol, ref, atol=5e-3 * sc, rtol=5e-3):
                    add(Violation("cg-solves-normal-equations", "ConjGrad (%s) differs from the solution of (A*A + lambda I) x = A*y + lambda z (max diff %.3g, scale %.3g) for %s, lambda %s" % (rule, float((sol - ref).abs().max()), sc, cfg, float(lam)), {"config": cfg, "rule": rule, "lambda": float(lam)}, {"fn": "cg", "rule": rule}))
                if float(r1) > float(r0) * (1 + 1e-4) + 1e-5:
                    add(Violation("cg-not-worse", "ConjGrad (%s) residual %.3g exceeds the starting residual %.3g for %s" % (rule, float(r1), float(r0), cfg), {"config": cfg, "rule": rule}, {"fn": "cg-worse", "rule": rule}))
                # the solver started elsewhere than at z (zero, the exact solution, a random point): same solution, and an
                # exact start is not left
                for start_name, x0 in (("zero", torch.zeros_like(z)), ("exact solution", ref.clone()), ("random point", torch.randn(N, h, w, 2, generator=g))):
                    solx = cgm.cg(x0, ym, S, mask, lam, z)
                    rx0 = (rhs - Bm @ x0.reshape(-1).double()).norm()
                    rx1 = (rhs - Bm @ solx.reshape(-1).double()).norm()
                    if not torch.allclose(solx, ref, atol=5e-3 * sc, rtol=5e-3) or float(rx1) > float(rx0) * (1 + 1e-4) + 1e-3 * max(1.0, float(rhs.norm())):
                        add(Violation("cg-solves-normal-equations", "ConjGrad.cg (%s) started from %s differs from the solution of (A*A + lambda I) x = A*y + lambda z (max diff %.3g, scale %.3g; residual %.3g -> %.3g) for %s, lambda %s" % (rule, start_name, float((solx - ref).abs().max()), sc, float(rx0), float(rx1), cfg, float(lam)), {"config": cfg, "rule": rule, "lambda": float(lam), "start": start_name}, {"fn": "cg-start", "rule": rule}))
                        break
                # a coarse tolerance: the loop leaves through the tolerance exit, and what it returns must be the iterate whose
                # residual met the tolerance (also when one step solves the system: full mask, normalised maps)
                for tol in (1e-2, 1e-3):
                    cgt = ConjGrad(fwd, bwd, num_iters=6 * h * w + 20, tol=tol, bk_update_type=rule)
                    st = cgt(ym, S, mask, z, lam)
                    rt = (rhs - Bm @ st.reshape(-1).double()).reshape(1, h, w, 2)
                    res = float((rt**2).sum(-1).sqrt().mean())  # the quantity the exit test bounds (modulus of r.r per pixel)
                    rs = float(((rt**2).sum()).sqrt())
                    # the exit test is mean(sqrt|re <r,r>|, sqrt|im <r,r>|) = ||r|| / 2 < tol
                    if rs > 2 * tol * 1.5 + 1e-4 * float(rhs.norm()) and float(r0) > 4 * tol:
                        add(Violation("cg-tolerance-exit", "ConjGrad (%s, tol %g) returns an iterate with residual %.3g (start %.3g) for %s, lambda %s: the step that met the tolerance is missing" % (rule, tol, rs, float(r0), cfg, float(lam)), {"config": cfg, "rule": rule, "lambda": float(lam), "tol": tol}, {"fn": "cg-exit", "rule": rule}))
                # several systems at once (different intensity scales): each sample must get the solution of its own system
                if rng.random() < 0.5 and h * w <= 64:
                    nb = rng.randint(2, 3)
                    sc_b = torch.tensor([rng.choice([1.0, 30.0, 0.05]) for _ in range(nb)]).view(nb, 1, 1, 1, 1)
                    yb = torch.randn(nb, C, h, w, 2, generator=g) * sc_b
                    Sb = S.expand(nb, -1, -1, -1, -1).clone()
                    mb = mask.expand(nb, -1, -1, -1, -1).clone()
                    zb = torch.randn(nb, h, w, 2, generator=g) * sc_b[:, 0]
                    ymb = torch.where(mb == 0, torch.zeros(1), yb)
                    # a few iterations only and no tolerance exit: the k-th iterate of a sample is the k-th iterate of its
                    # own system (the update coefficients are per sample), whatever else is in the batch
                    cgb = ConjGrad(fwd, bwd, num_iters=min(12, h * w // 2 + 2), tol=0.0, bk_update_type=rule)
                    solb = cgb(ymb, Sb, mb, zb, lam)
                    for i in range(nb):
                        soli = cgb(ymb[i : i + 1], Sb[i : i + 1], mb[i : i + 1], zb[i : i + 1], lam)
                        sci = max(1e-6, float(soli.abs().max()))
                        if not torch.allclose(solb[i : i + 1], soli, atol=1e-3 * sci, rtol=1e-3):
                            add(Violation("cg-batched", "ConjGrad (%s) on a batch of %d systems: sample %d differs from its own solution by %.3g (scale %.3g) for %s, lambda %s" % (rule, nb, i, float((solb[i : i + 1] - soli).abs().max()), sci, cfg, float(lam)), {"config": cfg, "rule": rule, "lambda": float(lam), "batch": nb, "scales": sc_b.flatten().tolist()}, {"fn": "cg-batched", "rule": rule}))
                if not torch.allclose(Bm, Bm.T, atol=1e-4 * max(1.0, float(Bm.abs().max()))):
                    add(Violation("b-self-adjoint", "B = A*A + lambda I is not symmetric for %s" % cfg, {"config": cfg}, {"fn": "B_op"}))
        except Exception as e:  # noqa
            add(Violation("dc-raises", "%s: %s for %s" % (type(e).__name__, str(e)[:100], cfg), {"config": cfg}, {"fn": "raises"}))
    ctx.oracle_runs = runs
    return out
