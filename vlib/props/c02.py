"""C02 — complex algebra and coil expand/reduce operators are correct and adjoint."""
import ast
import math
import itertools
import re as _re
from fractions import Fraction

from .. import coqrun, py2gallina as pg, symex as X
from ..core import Corr, Untranslatable, Violation

ID = "C02"
LEVEL = "proof"
COQ_FILES = ["Tie/C02_defs.v", "Tie/C02_tie.v", "Props/C02_props.v"]
PROPS_FILES = ["C02_props.v"]
TRUSTED_BASE = [
    "vlib/symex.py (symbolic execution of the translated Python subset on the ast: the translator reads value / outcome trees, so local names, intermediates, helpers and the form of branches do not matter; its assumptions - pure expressions, opaque calls, no aliasing writes, try handlers not modelled - are listed in DESIGN.md 12.7; fail-closed)",
    "py2gallina unit 'complex' (element expressions of complex_multiplication / complex_division / safe_divide / conjugate / modulus / _complex_matrix_multiplication and the call structure of reduce_operator / expand_operator / complex_dot_product / root_sum_of_squares) over an abstract field",
    "torch broadcasting, `[..., i]` indexing, `.sum(dim)`, `unsqueeze(dim)`: the operators act pointwise in space and sum over the coil axis (validated by exact correspondence with the coil axis at every position)",
    "exact arithmetic: float overflow / underflow / rounding are outside the model (an extreme-value sweep against torch's native complex arithmetic is run as support)",
    "sqrt only through sqrt(x)^2 = x (statements are on squared moduli)",
]
ASSUMPTIONS = ["theorems hold in any field (instantiated in Q); float32 results agree up to rounding"]
RULE = "per function: integer / dyadic tensors (|v| <= 64), shapes (batch, coil, [slice], h, w, 2) with the coil axis at every position, zero divisors included; non-trivial = at least two coils or a non-zero imaginary part; distinct by (function, shape, coil axis, values)"

PARAMS = "(R : Type) (rO rI : R) (radd rmul rsub rdiv : R -> R -> R) (ropp : R -> R) (is0 : R -> bool)"
ARGS = "R rO rI radd rmul rsub rdiv ropp is0"
OPS = {ast.Add: "radd", ast.Sub: "rsub", ast.Mult: "rmul", ast.Div: "rdiv"}


OPSV = {"+": "radd", "-": "rsub", "*": "rmul", "/": "rdiv"}
S = lambda n: ("sym", n)
IDX = lambda t, i: ("sub", t, ("tuple", (X.const(Ellipsis), X.const(i))))


class RingV:
    """Emits value trees (vlib/symex.py) as terms over the abstract field."""

    def __init__(self, leaves, path, calls=None):
        self.leaves, self.path, self.calls = leaves, path, calls or {}

    def t(self, v):
        if v in self.leaves:
            return self.leaves[v]
        if v[0] == "bin" and v[1] in OPSV:
            return "(%s %s %s)" % (OPSV[v[1]], self.t(v[2]), self.t(v[3]))
        if v[0] == "bin" and v[1] == "**" and v[3] == X.const(2):
            a = self.t(v[2])
            return "(rmul %s %s)" % (a, a)
        if v[0] == "un" and v[1] == "-":
            return "(ropp %s)" % self.t(v[2])
        if v[0] == "const" and isinstance(v[1], (int, float)) and not isinstance(v[1], bool):
            q = Fraction(v[1])
            if q == 0:
                return "rO"
            if q == 1:
                return "rI"
            if q == -1:
                return "(ropp rI)"
        if v[0] == "call" and v[1] in self.calls:
            return self.calls[v[1]](v, self)
        raise Untranslatable("complex: expression outside subset: %s" % X.show(v)[:90], None, self.path)


def _value(tree, path, name, opaque=()):
    """The single value a straight-line helper returns (assertions about the layout dropped)."""
    t, _n = X.run_function(tree, path, name, opaque=set(opaque) | {"assert_complex"})
    t = X.prune_raises(X.drop_do(t))
    if t is None or t[0] != "ret":
        raise Untranslatable("%s: the result depends on a branch" % name, None, path)
    return t[1]


def _pair_last_axis(v, path, name):
    """(real part, imaginary part) of `torch.cat([re.unsqueeze(-1), im.unsqueeze(-1)], dim=-1)` / torch.stack((re, im), -1)."""
    if v[0] == "call" and v[1] in (("attr", S("torch"), "cat"), ("attr", S("torch"), "stack")) and v[2] and v[2][0][0] in ("list", "tuple") and len(v[2][0][1]) == 2:
        axis = (list(v[2][1:]) + [dict(v[3]).get("dim")])[0]
        if axis == X.const(-1):
            parts = []
            for pc in v[2][0][1]:
                if v[1][2] == "stack":
                    parts.append(pc)
                    continue
                ok = pc[0] == "call" and pc[1][0] == "attr" and pc[1][2] == "unsqueeze" and (list(pc[2]) + [dict(pc[3]).get("dim")])[0] == X.const(-1)
                if not ok:
                    break
                parts.append(pc[1][1])
            if len(parts) == 2:
                return parts
    raise Untranslatable("%s: the result is not (real, imaginary) joined on the last axis: %s" % (name, X.show(v)[:100]), None, path)


def generate(ctx):
    """Element expressions of the complex helpers, read off the value trees of a symbolic execution (vlib/symex.py)."""
    path = ctx.src("direct/data/transforms.py")
    tree, _ = pg.parse_file(path)
    out = ""
    # safe_divide: where(other == 0, 0, input / other)
    v = _value(tree, path, "safe_divide")
    a_, b_ = S("input_tensor"), S("other_tensor")
    ok = v[0] == "call" and v[1] == ("attr", S("torch"), "where") and len(v[2]) == 3 and not v[3] and v[2][0] in (("cmp", "==", b_, X.const(0)), ("cmp", "==", b_, X.const(0.0))) and v[2][2] == ("bin", "/", a_, b_)
    if ok:
        z = v[2][1]
        if z[0] == "call" and z[1][0] == "attr" and z[1][2] == "to":
            z = z[1][1]
        ok = (z[0] == "call" and z[1] == ("attr", S("torch"), "tensor") and z[2][:1] in ((("list", (X.const(0.0),)),), (X.const(0.0),))) or z in (X.const(0), X.const(0.0)) or (z[0] == "call" and z[1] == ("attr", S("torch"), "zeros_like"))
    if not ok:
        raise Untranslatable("safe_divide: expected torch.where(other == 0, 0, input / other): %s" % X.show(v)[:120], None, path)
    out += "Definition safe_div (x y : R) : R := if is0 y then rO else rdiv x y.\n"
    sd = {S("safe_divide"): lambda c, tr: "(safe_div %s %s)" % (tr.t(c[2][0]), tr.t(c[2][1]))}
    leaves = {IDX(a_, 0): "a0", IDX(a_, 1): "a1", IDX(b_, 0): "b0", IDX(b_, 1): "b1"}
    # complex_multiplication
    re, im = _pair_last_axis(_value(tree, path, "complex_multiplication"), path, "complex_multiplication")
    tr = RingV(leaves, path)
    out += "Definition cmul_re (a0 a1 b0 b1 : R) : R := %s.\nDefinition cmul_im (a0 a1 b0 b1 : R) : R := %s.\n" % (tr.t(re), tr.t(im))
    # complex_division: both parts are safe_divide(numerator, denominator) with one denominator
    re, im = _pair_last_axis(_value(tree, path, "complex_division", opaque={"safe_divide"}), path, "complex_division")
    dens = {pc[2][1] for pc in (re, im) if pc[0] == "call" and pc[1] == S("safe_divide") and len(pc[2]) == 2}
    if len(dens) != 1:
        raise Untranslatable("complex_division: the parts are not safe_divide(.., one denominator)", None, path)
    tr = RingV(leaves, path, sd)
    out += "Definition cdiv_den (b0 b1 : R) : R := %s.\n" % tr.t(dens.pop())
    out += "Definition cdiv_re (a0 a1 b0 b1 : R) : R := %s.\nDefinition cdiv_im (a0 a1 b0 b1 : R) : R := %s.\n" % (tr.t(re), tr.t(im))
    # conjugate: a copy of the input whose imaginary part is negated
    v = _value(tree, path, "conjugate")
    d_ = S("data")
    clone = ("call", ("attr", d_, "clone"), (), ())
    if not (v[0] == "set" and v[1] == clone and v[2] == ("tuple", (X.const(Ellipsis), X.const(1)))):
        raise Untranslatable("conjugate: the result is not a clone of the input with [..., 1] rewritten: %s" % X.show(v)[:100], None, path)
    tr = RingV({IDX(clone, 1): "a1", IDX(d_, 1): "a1", IDX(clone, 0): "a0", IDX(d_, 0): "a0"}, path)
    out += "Definition conj_re (a0 a1 : R) : R := a0.\nDefinition conj_im (a0 a1 : R) : R := %s.\n" % tr.t(v[3])
    # modulus: sqrt of the sum of squares over the complex axis; root_sum_of_squares: the same summed over `dim`
    sq = ("bin", "**", d_, X.const(2))
    meth = lambda o, m, *args: ("call", ("attr", o, m), tuple(args), ())
    tsqrt = lambda o: ("call", ("attr", S("torch"), "sqrt"), (o,), ())
    v = _value(tree, path, "modulus")
    inner = meth(sq, "sum", S("complex_axis"))
    if v not in (meth(inner, "sqrt"), tsqrt(inner)):
        raise Untranslatable("modulus: not sqrt((data ** 2).sum(complex_axis)): %s" % X.show(v)[:100], None, path)
    out += "Definition modsq (a0 a1 : R) : R := radd (rmul a0 a0) (rmul a1 a1).\n"
    t, _n = X.run_function(tree, path, "root_sum_of_squares", opaque={"is_complex_data"})
    t = X.prune_raises(X.drop_do(t))
    cplx = meth(meth(sq, "sum", S("complex_dim")), "sum", S("dim"))
    real = meth(sq, "sum", S("dim"))
    test = ("call", S("is_complex_data"), (d_,), ())
    forms = lambda i: (tsqrt(i), meth(i, "sqrt"))
    ok = t is not None and t[0] == "if" and t[1] == test and t[2][0] == "ret" and t[3][0] == "ret" and t[2][1] in forms(cplx) and t[3][1] in forms(real)
    if not ok:
        raise Untranslatable("root_sum_of_squares: not sqrt of the squares summed over (the complex axis and) dim", None, path)
    out += "Definition rss_sq_term (a0 a1 : R) : R := modsq a0 a1.\n"
    # _complex_matrix_multiplication: real and imaginary parts of the four products
    v = _value(tree, path, "_complex_matrix_multiplication")
    parts = {"re": [], "im": []}

    def split(x, sign):
        if x[0] == "bin" and x[1] in "+-":
            split(x[2], sign)
            split(x[3], sign if x[1] == "+" else -sign)
        elif x[0] == "bin" and x[1] == "*" and X.const(1j) in (x[2], x[3]):
            parts["im"].append((sign, x[3] if x[2] == X.const(1j) else x[2]))
        else:
            parts["re"].append((sign, x))

    split(v, 1)
    ia, ib = S("input_tensor"), S("other_tensor")
    mm_leaf = {("attr", ia, "real"): "ar", ("attr", ia, "imag"): "ai", ("attr", ib, "real"): "br", ("attr", ib, "imag"): "bi"}
    trm = RingV(mm_leaf, path, {S("mult_func"): lambda c, tr: "(M %s %s)" % (tr.t(c[2][0]), tr.t(c[2][1]))})

    def total(items):
        if not items:
            return "rO"
        acc = None
        for sign, x in items:
            term = trm.t(x)
            if acc is None:
                acc = term if sign > 0 else "(ropp %s)" % term
            else:
                acc = "(%s %s %s)" % ("radd" if sign > 0 else "rsub", acc, term)
        return acc

    out += "Definition mm_re (M : R -> R -> R) (ar ai br bi : R) : R := %s.\nDefinition mm_im (M : R -> R -> R) (ar ai br bi : R) : R := %s.\n" % (total(parts["re"]), total(parts["im"]))
    for nm, f in (("complex_mm", "mm"), ("complex_bmm", "bmm")):
        v = _value(tree, path, nm, opaque={"_complex_matrix_multiplication"})
        if v != ("call", S("_complex_matrix_multiplication"), (ia, ib, ("attr", S("torch"), f)), ()):
            raise Untranslatable("%s: not _complex_matrix_multiplication(input, other, torch.%s)" % (nm, f), None, path)
    # reduce / expand / dot: call structure
    prim = {"complex_multiplication", "conjugate"}
    cm = lambda x, y: ("call", S("complex_multiplication"), (x, y), ())
    cj = lambda x: ("call", S("conjugate"), (x,), ())
    v = _value(tree, path, "reduce_operator", opaque=prim)
    if v != meth(cm(cj(S("sensitivity_map")), S("coil_data")), "sum", S("dim")):
        raise Untranslatable("reduce_operator: not complex_multiplication(conjugate(sensitivity_map), coil_data).sum(dim): %s" % X.show(v)[:100], None, path)
    out += "Definition reduce_term_re (s0 s1 y0 y1 : R) : R := cmul_re (conj_re s0 s1) (conj_im s0 s1) y0 y1.\nDefinition reduce_term_im (s0 s1 y0 y1 : R) : R := cmul_im (conj_re s0 s1) (conj_im s0 s1) y0 y1.\n"
    v = _value(tree, path, "expand_operator", opaque=prim)
    if v not in (cm(S("sensitivity_map"), meth(d_, "unsqueeze", S("dim"))), cm(S("sensitivity_map"), ("call", ("attr", d_, "unsqueeze"), (), (("dim", S("dim")),)))):
        raise Untranslatable("expand_operator: not complex_multiplication(sensitivity_map, data.unsqueeze(dim)): %s" % X.show(v)[:100], None, path)
    out += "Definition expand_re (s0 s1 x0 x1 : R) : R := cmul_re s0 s1 x0 x1.\nDefinition expand_im (s0 s1 x0 x1 : R) : R := cmul_im s0 s1 x0 x1.\n"
    v = _value(tree, path, "complex_dot_product", opaque=prim)
    if v != meth(cm(cj(S("a")), S("b")), "sum", S("dim")):
        raise Untranslatable("complex_dot_product: not complex_multiplication(conjugate(a), b).sum(dim): %s" % X.show(v)[:100], None, path)
    out += "Definition dot_term_re (a0 a1 b0 b1 : R) : R := cmul_re (conj_re a0 a1) (conj_im a0 a1) b0 b1.\nDefinition dot_term_im (a0 a1 b0 b1 : R) : R := cmul_im (conj_re a0 a1) (conj_im a0 a1) b0 b1.\n"
    names = _re.findall(r"Definition (\w+) ", out)
    for nm in names:
        out = _re.sub(r"(?<![\w])%s(?![\w])(?! \(R : Type\))" % nm, nm + " " + ARGS, out)
    out = _re.sub(r"Definition (\w+) %s " % _re.escape(ARGS), r"Definition \1 %s " % PARAMS, out)
    return [pg.write_gen(ctx, "C02_gen", out)]


# ------------------------------------------------------------------------------------------------
PRE = "From DV Require Import Base.Tactics.\nFrom Coq Require Import QArith.\nFrom G Require Import C02_gen C02_defs.\nOpen Scope Z_scope.\n"


def _q(x):
    f = Fraction(x)
    return "(%d # %d)%%Q" % (f.numerator, f.denominator) if f.numerator >= 0 else "(-%d # %d)%%Q" % (-f.numerator, f.denominator)


def _qpair(p):
    return "(%s, %s)" % (_q(p[0]), _q(p[1]))


def _rand_tensor(rng, shape, pool):
    import torch

    n = 1
    for s in shape:
        n *= s
    return torch.tensor([rng.choice(pool) for _ in range(n)], dtype=torch.float32).reshape(shape)


INT_POOL = [-8, -5, -3, -2, -1, 0, 0, 1, 2, 3, 4, 7]
DYA_POOL = [-4, -2, -1, -0.5, 0, 0, 0.5, 1, 2, 4]


def gen_cases(ctx):
    rng = ctx.rng
    cases = []
    for _ in range(ctx.n(160, 2500)):
        fn = rng.choice(["mul", "div", "conj", "modsq", "dot", "reduce", "expand", "rss", "mm"])
        nsp = rng.choice([2, 2, 3])
        spatial = [rng.randint(1, 3) for _ in range(nsp)]
        coils = rng.randint(1, 4)
        batch = rng.randint(1, 2)
        base = [batch] + spatial
        coil_axis = rng.randrange(len(base) + 1)
        shape = base[:coil_axis] + [coils] + base[coil_axis:]
        cases.append((fn, shape, coil_axis, rng.randrange(1 << 30)))
    return cases


def _pixels(t, coil_axis=None):
    """Flatten to a list of pixels; with coil_axis: each pixel is the list of its coil values."""
    import torch

    if coil_axis is None:
        return t.reshape(-1, 2).tolist()
    tt = torch.movedim(t, coil_axis, -2)
    return tt.reshape(-1, tt.shape[-2], 2).tolist()


def run_case(case):
    """Returns (impl result as list, Coq term)."""
    import random

    import torch
    from direct.data import transforms as T

    fn, shape, ca, seed = case
    rng = random.Random(seed)
    sh2 = list(shape) + [2]
    if fn in ("mul", "div"):
        a = _rand_tensor(rng, sh2, DYA_POOL if fn == "div" else INT_POOL)
        b = _rand_tensor(rng, sh2, INT_POOL)
        if fn == "div":
            # divisors whose squared modulus is a power of two (or zero), so that every quotient is exact in binary
            pairs = [(0, 0), (0, 0), (1, 0), (0, 1), (-1, 0), (0, -2), (1, 1), (1, -1), (-2, 2), (2, 0), (0.5, 0.5), (0, 0.5), (4, 4)]
            n = 1
            for d in shape:
                n *= d
            b = torch.tensor([rng.choice(pairs) for _ in range(n)], dtype=torch.float32).reshape(sh2)
        r = T.complex_multiplication(a, b) if fn == "mul" else T.complex_division(a, b)
        term = "map (fun p => q%s (fst p) (snd p)) [%s]" % (fn, "; ".join("(%s, %s)" % (_qpair(x), _qpair(y)) for x, y in zip(_pixels(a), _pixels(b))))
        return _pixels(r), term
    if fn == "conj":
        a = _rand_tensor(rng, sh2, INT_POOL)
        return _pixels(T.conjugate(a)), "map qconj [%s]" % "; ".join(_qpair(x) for x in _pixels(a))
    if fn == "modsq":
        a = _rand_tensor(rng, sh2, [-4, -3, 0, 0, 3, 4, 5, 12])
        m = T.modulus(a)
        return [[float(round(float(v) ** 2)), 0.0] for v in m.reshape(-1).tolist()], "map (fun p => (qmodsq p, 0%%Q)) [%s]" % "; ".join(_qpair(x) for x in _pixels(a))
    if fn in ("dot", "reduce"):
        s = _rand_tensor(rng, sh2, INT_POOL)
        y = _rand_tensor(rng, sh2, INT_POOL)
        r = T.reduce_operator(y, s, dim=ca) if fn == "reduce" else T.complex_dot_product(s, y, dim=[ca])
        px = zip(_pixels(s, ca), _pixels(y, ca))
        term = "map (fun p => q%s (fst p) (snd p)) [%s]" % (fn, "; ".join("([%s], [%s])" % ("; ".join(_qpair(c) for c in sc), "; ".join(_qpair(c) for c in yc)) for sc, yc in px))
        return _pixels(r), term
    if fn == "expand":
        s = _rand_tensor(rng, sh2, INT_POOL)
        xs = list(shape)
        del xs[ca]
        x = _rand_tensor(rng, xs + [2], INT_POOL)
        r = T.expand_operator(x, s, dim=ca)
        px = zip(_pixels(s, ca), _pixels(x))
        term = "concat (map (fun p => qexpand (fst p) (snd p)) [%s])" % "; ".join("([%s], %s)" % ("; ".join(_qpair(c) for c in sc), _qpair(xv)) for sc, xv in px)
        return [c for p in _pixels(r, ca) for c in p], term
    if fn == "rss":
        a = _rand_tensor(rng, sh2, [-4, -3, 0, 0, 3, 4, 12])
        r = T.root_sum_of_squares(a, dim=ca)
        term = "map (fun p => (qrss_sq p, 0%%Q)) [%s]" % "; ".join("[%s]" % "; ".join(_qpair(c) for c in px) for px in _pixels(a, ca))
        return [[float(round(float(v) ** 2)), 0.0] for v in r.reshape(-1).tolist()], term
    if fn == "mm":
        n, k, m = rng.randint(1, 3), rng.randint(1, 3), rng.randint(1, 3)
        a = _rand_tensor(rng, [n, k, 2], INT_POOL)
        b = _rand_tensor(rng, [k, m, 2], INT_POOL)
        if rng.random() < 0.5:
            r = T.complex_mm(torch.view_as_complex(a), torch.view_as_complex(b))
        else:
            r = T.complex_bmm(torch.view_as_complex(a)[None], torch.view_as_complex(b)[None])[0]
        rr = torch.view_as_real(r)
        mat = lambda t: "[" + "; ".join("[" + "; ".join(_qpair(p) for p in row) + "]" for row in t.tolist()) + "]"
        return _pixels(rr), "qmm %s %s" % (mat(a), mat(b))
    raise AssertionError(fn)


def correspond(ctx):
    from .. import shims

    shims.install(ctx.repo)
    corr = Corr()
    corr.rule = RULE
    cases = gen_cases(ctx)
    impls, terms = [], []
    for c in cases:
        try:
            r, term = run_case(c)
            impls.append(["ok", [[Fraction(v[0]), Fraction(v[1])] for v in r]])
        except Exception as e:  # noqa
            impls.append(["raises", type(e).__name__ + ": " + str(e)[:80]])
            term = "@nil (Q * Q)"
        terms.append("map qcanon (%s)" % term)
    vals = coqrun.eval_sharded("c02_cases", PRE, terms, ctx.work, gen_dir=ctx.gen_dir, shard=100)
    for c, im, mv in zip(cases, impls, vals):
        model = ["ok", [[Fraction(p[0], p[1]), Fraction(p[2][0], p[2][1])] for p in mv]]
        corr.dist("function", c[0])
        corr.dist("coil_axis", c[2])
        imj = im if im[0] != "ok" else ["ok", [[str(a), str(b)] for a, b in im[1]]]
        mj = ["ok", [[str(a), str(b)] for a, b in model[1]]]
        corr.compare({"fn": c[0], "shape": c[1], "coil_axis": c[2], "seed": c[3]}, imj, mj, nontrivial=True)
    return corr


# ------------------------------------------------------------------------------------------------
def oracles(ctx, deep):
    import torch
    from .. import shims

    shims.install(ctx.repo)
    from direct.data import transforms as T

    out, seen, runs = [], set(), 0

    def add(v):
        if v.key() not in seen:
            seen.add(v.key())
            out.append(v)

    rng = ctx.rng
    vc = torch.view_as_complex
    for t in range(ctx.n(300, 3000) * (2 if deep else 1)):
        nsp = rng.choice([2, 3])
        spatial = [rng.randint(1, 4) for _ in range(nsp)]
        coils, batch = rng.randint(1, 5), rng.randint(1, 2)
        ca = rng.randrange(2 + nsp)
        xs = [batch] + spatial
        shape = list(xs)
        shape.insert(ca, coils)
        g = torch.Generator().manual_seed(rng.randrange(1 << 30))
        scale = rng.choice([1.0, 1.0, 1e-3, 1e3])
        a = torch.randn(*shape, 2, generator=g, dtype=torch.float64) * scale
        b = torch.randn(*shape, 2, generator=g, dtype=torch.float64) * scale
        x = torch.randn(*xs, 2, generator=g, dtype=torch.float64)
        if rng.random() < 0.3:
            b[(torch.rand(*shape, generator=g) < 0.3)] = 0.0
        runs += 1
        layout = rng.choice(["contiguous", "contiguous", "permuted", "channels-first", "strided", "transposed", "negative-axis"])
        cfg = {"shape": shape, "coil_axis": ca, "scale": scale, "layout": layout}

        def relayout(t):
            # same values, different memory layouts; none of them may change a result
            n = t.dim()
            if layout == "permuted":  # complex axis stored first
                return t.permute(-1, *range(n - 1)).contiguous().permute(*range(1, n), 0)
            if layout == "channels-first" and n >= 3:  # (N, 2, ...) network output permuted to complex-last
                perm = [0, n - 1] + list(range(1, n - 1))
                inv = [perm.index(i) for i in range(n)]
                return t.permute(*perm).contiguous().permute(*inv)
            if layout == "strided":  # every other row of a larger buffer
                big = torch.zeros(*t.shape[:-2], 2 * t.shape[-2], 2, dtype=t.dtype)
                big[..., ::2, :] = t
                return big[..., ::2, :]
            if layout == "transposed" and n >= 3:
                return t.transpose(-2, -3).contiguous().transpose(-2, -3)
            return t

        a, b, x = relayout(a), relayout(b), relayout(x)
        ca_arg = ca - (len(shape) + 1) if layout == "negative-axis" else ca  # the same axis, counted from the end
        tol = 1e-9 * scale * scale * 10

        def close(u, v, what, fnname, extra_tol=1.0):
            if u.shape != v.shape or not torch.allclose(u, v, rtol=1e-9, atol=tol * extra_tol):
                add(Violation(what, "%s disagrees with native complex arithmetic for %s (max err %.3g)" % (fnname, cfg, float((u - v).abs().max()) if u.shape == v.shape else -1), {"config": cfg, "function": fnname}, {"fn": fnname}))

        try:
            close(T.complex_multiplication(a, b), torch.view_as_real(vc(a.contiguous()) * vc(b.contiguous())), "complex-mul", "complex_multiplication")
            close(T.conjugate(a), torch.view_as_real(vc(a.contiguous()).conj().resolve_conj()), "complex-conj", "conjugate")
            close(T.modulus(a), vc(a.contiguous()).abs(), "complex-modulus", "modulus")
            nz = (b ** 2).sum(-1) != 0
            d = T.complex_division(a, b)
            ref = torch.view_as_real(vc(a.contiguous()) / torch.where(nz, vc(b.contiguous()), torch.ones_like(vc(b.contiguous()))))
            ref = torch.where(nz.unsqueeze(-1), ref, torch.zeros_like(ref))
            if d.shape != ref.shape or not torch.allclose(d, ref, rtol=1e-7, atol=1e-9) or not torch.isfinite(d).all():
                add(Violation("complex-div", "complex_division disagrees with native division / is not zero on zero divisors for %s" % cfg, {"config": cfg}, {"fn": "complex_division"}))
            close(T.complex_dot_product(a, b, dim=[ca_arg]), torch.view_as_real((vc(a.contiguous()).conj() * vc(b.contiguous())).sum(ca)), "complex-dot", "complex_dot_product", coils)
            close(T.root_sum_of_squares(a, dim=ca), (vc(a.contiguous()).abs() ** 2).sum(ca).sqrt(), "rss", "root_sum_of_squares", coils)
            S = a
            red = T.reduce_operator(b, S, dim=ca_arg)
            close(red, torch.view_as_real((vc(S.contiguous()).conj() * vc(b.contiguous())).sum(ca)), "reduce", "reduce_operator", coils)
            ex = T.expand_operator(x, S, dim=ca_arg if layout != "negative-axis" else ca - (len(shape) + 1))
            close(ex, torch.view_as_real(vc(S.contiguous()) * vc(x.contiguous()).unsqueeze(ca)), "expand", "expand_operator")
            # adjointness <E x, y> = <x, R y>
            lhs = (vc(ex.contiguous()).conj() * vc(b.contiguous())).sum()
            rhs = (vc(x.contiguous()).conj() * vc(red.contiguous())).sum()
            if abs(complex(lhs) - complex(rhs)) > 1e-8 * max(1.0, abs(complex(lhs))):
                add(Violation("adjoint", "<expand(x), y> != <x, reduce(y)> for %s: %s vs %s" % (cfg, complex(lhs), complex(rhs)), {"config": cfg}, {"fn": "adjoint"}))
            # reduce(expand(x)) = x for maps of unit RSS
            nrm = (vc(S.contiguous()).abs() ** 2).sum(ca, keepdim=True).sqrt()
            if float(nrm.min()) > 0:
                Sn = torch.view_as_real(vc(S.contiguous()) / nrm)
                back = T.reduce_operator(T.expand_operator(x, Sn, dim=ca), Sn, dim=ca)
                if not torch.allclose(back, x, rtol=1e-7, atol=1e-9):
                    add(Violation("reduce-expand-id", "reduce(expand(x)) != x for unit-RSS maps, %s" % cfg, {"config": cfg}, {"fn": "reduce-expand"}))
            # coil permutation invariance
            perm = torch.randperm(coils, generator=g)
            redp = T.reduce_operator(b.index_select(ca, perm), S.index_select(ca, perm), dim=ca)
            if not torch.allclose(redp, red, rtol=1e-9, atol=tol * coils):
                add(Violation("coil-permutation", "reduce_operator changes under a simultaneous coil permutation, %s" % cfg, {"config": cfg}, {"fn": "reduce-perm"}))
        except Exception as e:  # noqa
            add(Violation("complex-raises", "%s: %s for %s" % (type(e).__name__, str(e)[:100], cfg), {"config": cfg}, {"fn": "raises"}))
        # matrix products
        n, k, m = rng.randint(1, 4), rng.randint(1, 4), rng.randint(1, 4)
        A = torch.randn(n, k, generator=g, dtype=torch.float64) + 1j * torch.randn(n, k, generator=g, dtype=torch.float64)
        B = torch.randn(k, m, generator=g, dtype=torch.float64) + 1j * torch.randn(k, m, generator=g, dtype=torch.float64)
        try:
            if not torch.allclose(T.complex_mm(A, B), A @ B, rtol=1e-9, atol=1e-9) or not torch.allclose(T.complex_bmm(A[None], B[None]), (A @ B)[None], rtol=1e-9, atol=1e-9):
                add(Violation("complex-mm", "complex_mm / complex_bmm disagree with the native matrix product (%d,%d)x(%d,%d)" % (n, k, k, m), {"n": n, "k": k, "m": m}, {"fn": "mm"}))
        except Exception as e:  # noqa
            add(Violation("complex-raises", "complex_mm raises %s" % type(e).__name__, {}, {"fn": "raises-mm"}))
    # single precision at tiny magnitudes (raw scanner units can be 1e-20 and below): |b|^2 is still representable there,
    # and the quotient of two such numbers is an ordinary one
    for sc in (1e-17, 1e-19, 1e-20):
        g32 = torch.Generator().manual_seed(int(-math.log10(sc)))
        a32 = torch.randn(300, 2, generator=g32) * sc
        b32 = torch.randn(300, 2, generator=g32) * sc
        runs += 1
        try:
            q = T.complex_division(a32, b32)
        except Exception as e:  # noqa
            add(Violation("complex-raises", "complex_division raises %s on float32 values of magnitude %g" % (type(e).__name__, sc), {"scale": sc}, {"fn": "complex_division-tiny"}))
            continue
        ref = torch.view_as_real(torch.view_as_complex(a32.double()) / torch.view_as_complex(b32.double())).float()
        bad = ~torch.isfinite(q).all(-1)
        rel = float(((q - ref).abs().max()) / (ref.abs().max() + 1e-30)) if not bool(bad.any()) else float("inf")
        if bool(bad.any()) or rel > 1e-2:
            add(Violation("complex-div", "complex_division of float32 values of magnitude %g: %d non-finite quotients, relative error %.3g against double precision (the true quotients are of order one)" % (sc, int(bad.sum()), rel), {"scale": sc, "nonfinite": int(bad.sum())}, {"fn": "complex_division-tiny"}))
    ctx.oracle_runs = runs
    return out
