"""C02 — complex algebra and coil expand/reduce operators are correct and adjoint."""
import ast
import math
import itertools
import re as _re
from fractions import Fraction

from .. import coqrun, py2gallina as pg
from ..core import Corr, Untranslatable, Violation

ID = "C02"
LEVEL = "proof"
COQ_FILES = ["Tie/C02_defs.v", "Tie/C02_tie.v", "Props/C02_props.v"]
PROPS_FILES = ["C02_props.v"]
TRUSTED_BASE = [
    "py2gallina unit 'complex' (element expressions of complex_multiplication / complex_division / safe_divide / conjugate / modulus / _complex_matrix_multiplication and the call structure of reduce_operator / expand_operator / complex_dot_product / root_sum_of_squares) over an abstract field",
    "torch broadcasting, `[..., i]` indexing, `.sum(dim)`, `unsqueeze(dim)`: the operators act pointwise in space and sum over the coil axis (validated by exact correspondence with the coil axis at every position)",
    "exact arithmetic: float overflow / underflow / rounding are outside the model (an extreme-value sweep against torch's native complex arithmetic is run as support)",
    "sqrt only through sqrt(x)^2 = x (statements are on squared moduli)",
]
ASSUMPTIONS = ["theorems hold in any field (instantiated in Q); float32 results agree up to rounding"]
RULE = "per function: integer / dyadic tensors (|v| <= 64), shapes (batch, coil, [slice], h, w, 2) with the coil axis at every position, zero divisors included; non-trivial = at least two coils or a non-zero imaginary part; distinct by (function, shape, coil axis, values)"

PARAMS = "(R : Type) (rO rI : R) (radd rmul rsub rdiv : R -> R -> R) (ropp : R -> R) (is0 : R -> bool)"
ARGS = "R rO rI radd rmul rsub rdiv ropp is0"
OPS = {ast.Add: "radd", ast.Sub: "rsub", ast.Mult: "rmul", ast.Div: "rdiv"}


class RingT:
    def __init__(self, env, path, calls=None):
        self.env, self.path, self.calls = env, path, calls or {}

    def t(self, node):
        key = ast.unparse(node)
        if key in self.env:
            return self.env[key]
        if isinstance(node, ast.BinOp):
            for k, nm in OPS.items():
                if isinstance(node.op, k):
                    return "(%s %s %s)" % (nm, self.t(node.left), self.t(node.right))
            if isinstance(node.op, ast.Pow) and isinstance(node.right, ast.Constant) and node.right.value == 2:
                a = self.t(node.left)
                return "(rmul %s %s)" % (a, a)
        if isinstance(node, ast.UnaryOp) and isinstance(node.op, ast.USub):
            return "(ropp %s)" % self.t(node.operand)
        if isinstance(node, ast.Constant) and isinstance(node.value, (int, float)) and not isinstance(node.value, bool):
            v = Fraction(node.value)
            if v == 0:
                return "rO"
            if v == 1:
                return "rI"
            if v == -1:
                return "(ropp rI)"
        if isinstance(node, ast.Call):
            fn = ast.unparse(node.func)
            if fn in self.calls:
                return self.calls[fn](node, self)
        raise Untranslatable("complex: expression outside subset: %s" % key[:70], getattr(node, "lineno", None), self.path)


def _assign(body, name):
    for s in body:
        if isinstance(s, ast.Assign) and ast.unparse(s.targets[0]) == name:
            return s.value
    return None


def generate(ctx):
    path = ctx.src("direct/data/transforms.py")
    tree, _ = pg.parse_file(path)
    out = ""
    # safe_divide
    fn = pg.find_def(tree, "safe_divide", path)
    body = pg.strip_doc(fn.body)
    v = _assign(body, "data")
    ok = isinstance(v, ast.Call) and ast.unparse(v.func) == "torch.where" and len(v.args) == 3 and ast.unparse(v.args[0]) == "other_tensor == 0" and ast.unparse(v.args[1]).startswith("torch.tensor([0.0]") and ast.unparse(v.args[2]) == "input_tensor / other_tensor" and ast.unparse(body[-1]) == "return data"
    if not ok:
        raise Untranslatable("safe_divide: expected torch.where(other == 0, 0, input / other)", fn.lineno, path)
    out += "Definition safe_div (x y : R) : R := if is0 y then rO else rdiv x y.\n"
    sd = lambda node, tr: "(safe_div %s %s)" % (tr.t(node.args[0]), tr.t(node.args[1]))
    # complex_multiplication
    fn = pg.find_def(tree, "complex_multiplication", path)
    body = pg.strip_doc(fn.body)
    env = {"input_tensor[..., 0]": "a0", "input_tensor[..., 1]": "a1", "other_tensor[..., 0]": "b0", "other_tensor[..., 1]": "b1"}
    tr = RingT(env, path)
    re, im = _assign(body, "real_part"), _assign(body, "imaginary_part")
    cat = _assign(body, "multiplication")
    if re is None or im is None or cat is None or ast.unparse(cat) != "torch.cat([real_part.unsqueeze(dim=complex_index), imaginary_part.unsqueeze(dim=complex_index)], dim=complex_index)" or ast.unparse(body[-1]) != "return multiplication":
        raise Untranslatable("complex_multiplication: body outside subset", fn.lineno, path)
    out += "Definition cmul_re (a0 a1 b0 b1 : R) : R := %s.\nDefinition cmul_im (a0 a1 b0 b1 : R) : R := %s.\n" % (tr.t(re), tr.t(im))
    # complex_division
    fn = pg.find_def(tree, "complex_division", path)
    body = pg.strip_doc(fn.body)
    tr = RingT(env, path, {"safe_divide": sd})
    den = _assign(body, "denominator")
    tr_den = tr.t(den)
    tr.env = dict(env, denominator="den")
    re, im = _assign(body, "real_part"), _assign(body, "imaginary_part")
    cat = _assign(body, "division")
    if re is None or im is None or cat is None or ast.unparse(cat) != "torch.cat([real_part.unsqueeze(dim=complex_index), imaginary_part.unsqueeze(dim=complex_index)], dim=complex_index)" or ast.unparse(body[-1]) != "return division":
        raise Untranslatable("complex_division: body outside subset", fn.lineno, path)
    out += "Definition cdiv_den (b0 b1 : R) : R := %s.\n" % tr_den
    out += "Definition cdiv_re (a0 a1 b0 b1 : R) : R := let den := cdiv_den b0 b1 in %s.\nDefinition cdiv_im (a0 a1 b0 b1 : R) : R := let den := cdiv_den b0 b1 in %s.\n" % (tr.t(re), tr.t(im))
    # conjugate
    fn = pg.find_def(tree, "conjugate", path)
    body = pg.strip_doc(fn.body)
    srcs = [ast.unparse(s) for s in body]
    if srcs[0] != "assert_complex(data, complex_last=True)" or srcs[1] != "data = data.clone()" or srcs[-1] != "return data" or len(body) != 4 or not (isinstance(body[2], ast.Assign) and ast.unparse(body[2].targets[0]) == "data[..., 1]"):
        raise Untranslatable("conjugate: body outside subset", fn.lineno, path)
    tr = RingT({"data[..., 1]": "a1", "data[..., 0]": "a0"}, path)
    out += "Definition conj_re (a0 a1 : R) : R := a0.\nDefinition conj_im (a0 a1 : R) : R := %s.\n" % tr.t(body[2].value)
    # modulus: (data ** 2).sum(complex_axis).sqrt()
    fn = pg.find_def(tree, "modulus", path)
    body = pg.strip_doc(fn.body)
    if ast.unparse(body[-1]) != "return (data ** 2).sum(complex_axis).sqrt()":
        raise Untranslatable("modulus: body outside subset", fn.lineno, path)
    out += "Definition modsq (a0 a1 : R) : R := radd (rmul a0 a0) (rmul a1 a1).\n"
    fn = pg.find_def(tree, "root_sum_of_squares", path)
    body = pg.strip_doc(fn.body)
    if [ast.unparse(s) for s in body] != ["if is_complex_data(data):\n    return torch.sqrt((data ** 2).sum(complex_dim).sum(dim))", "return torch.sqrt((data ** 2).sum(dim))"]:
        raise Untranslatable("root_sum_of_squares: body outside subset", fn.lineno, path)
    out += "Definition rss_sq_term (a0 a1 : R) : R := modsq a0 a1.\n"
    # _complex_matrix_multiplication
    fn = pg.find_def(tree, "_complex_matrix_multiplication", path)
    body = pg.strip_doc(fn.body)
    v = _assign(body, "output")
    want = "mult_func(input_tensor.real, other_tensor.real) - mult_func(input_tensor.imag, other_tensor.imag) + 1j * mult_func(input_tensor.real, other_tensor.imag) + 1j * mult_func(input_tensor.imag, other_tensor.real)"
    if v is None or ast.unparse(v) != want:
        raise Untranslatable("_complex_matrix_multiplication: expression outside subset", fn.lineno, path)
    out += "Definition mm_re (M : R -> R -> R) (ar ai br bi : R) : R := rsub (M ar br) (M ai bi).\nDefinition mm_im (M : R -> R -> R) (ar ai br bi : R) : R := radd (M ar bi) (M ai br).\n"
    for nm, f in (("complex_mm", "torch.mm"), ("complex_bmm", "torch.bmm")):
        fn = pg.find_def(tree, nm, path)
        if ast.unparse(pg.strip_doc(fn.body)[-1]) != "return _complex_matrix_multiplication(input_tensor, other_tensor, %s)" % f:
            raise Untranslatable("%s: body outside subset" % nm, fn.lineno, path)
    # reduce / expand / dot: call structure
    fn = pg.find_def(tree, "reduce_operator", path)
    if ast.unparse(pg.strip_doc(fn.body)[-1]) != "return complex_multiplication(conjugate(sensitivity_map), coil_data).sum(dim)":
        raise Untranslatable("reduce_operator: body outside subset", fn.lineno, path)
    out += "Definition reduce_term_re (s0 s1 y0 y1 : R) : R := cmul_re (conj_re s0 s1) (conj_im s0 s1) y0 y1.\nDefinition reduce_term_im (s0 s1 y0 y1 : R) : R := cmul_im (conj_re s0 s1) (conj_im s0 s1) y0 y1.\n"
    fn = pg.find_def(tree, "expand_operator", path)
    if ast.unparse(pg.strip_doc(fn.body)[-1]) != "return complex_multiplication(sensitivity_map, data.unsqueeze(dim))":
        raise Untranslatable("expand_operator: body outside subset", fn.lineno, path)
    out += "Definition expand_re (s0 s1 x0 x1 : R) : R := cmul_re s0 s1 x0 x1.\nDefinition expand_im (s0 s1 x0 x1 : R) : R := cmul_im s0 s1 x0 x1.\n"
    fn = pg.find_def(tree, "complex_dot_product", path)
    if ast.unparse(pg.strip_doc(fn.body)[-1]) != "return complex_multiplication(conjugate(a), b).sum(dim)":
        raise Untranslatable("complex_dot_product: body outside subset", fn.lineno, path)
    out += "Definition dot_term_re (a0 a1 b0 b1 : R) : R := cmul_re (conj_re a0 a1) (conj_im a0 a1) b0 b1.\nDefinition dot_term_im (a0 a1 b0 b1 : R) : R := cmul_im (conj_re a0 a1) (conj_im a0 a1) b0 b1.\n"
    names = _re.findall(r"Definition (\w+) ", out)
    for nm in names:
        out = _re.sub(r"(?<![\w])%s(?![\w])(?! \(R : Type\))" % nm, nm + " " + ARGS, out)
    out = _re.sub(r"Definition (\w+) %s " % _re.escape(ARGS), r"Definition \1 %s " % PARAMS, out)
    return [pg.write_gen(ctx, "C02_gen", out)]


# ------------------------------------------------------------------------------------------------
PRE = "From DV Require Import Base.Tactics.\nFrom Coq Require Import QArith.\nFrom G Require Import C02_gen C02_defs.\nOpen Scope Z_scope.\n"


def _q(x):
    f = Fraction(x)
    return "(%d # %d)%%Q" % (f.numerator, f.denominator) if f.numerator >= 0 else "(-%d # %d)%%Q" % (-f.numerator, f.denominator)


def _qpair(p):
    return "(%s, %s)" % (_q(p[0]), _q(p[1]))


def _rand_tensor(rng, shape, pool):
    import torch

    n = 1
    for s in shape:
        n *= s
    return torch.tensor([rng.choice(pool) for _ in range(n)], dtype=torch.float32).reshape(shape)


INT_POOL = [-8, -5, -3, -2, -1, 0, 0, 1, 2, 3, 4, 7]
DYA_POOL = [-4, -2, -1, -0.5, 0, 0, 0.5, 1, 2, 4]


def gen_cases(ctx):
    rng = ctx.rng
    cases = []
    for _ in range(ctx.n(160, 2500)):
        fn = rng.choice(["mul", "div", "conj", "modsq", "dot", "reduce", "expand", "rss", "mm"])
        nsp = rng.choice([2, 2, 3])
        spatial = [rng.randint(1, 3) for _ in range(nsp)]
        coils = rng.randint(1, 4)
        batch = rng.randint(1, 2)
        base = [batch] + spatial
        coil_axis = rng.randrange(len(base) + 1)
        shape = base[:coil_axis] + [coils] + base[coil_axis:]
        cases.append((fn, shape, coil_axis, rng.randrange(1 << 30)))
    return cases


def _pixels(t, coil_axis=None):
    """Flatten to a list of pixels; with coil_axis: each pixel is the list of its coil values."""
    import torch

    if coil_axis is None:
        return t.reshape(-1, 2).tolist()
    tt = torch.movedim(t, coil_axis, -2)
    return tt.reshape(-1, tt.shape[-2], 2).tolist()


def run_case(case):
    """Returns (impl result as list, Coq term)."""
    import random

    import torch
    from direct.data import transforms as T

    fn, shape, ca, seed = case
    rng = random.Random(seed)
    sh2 = list(shape) + [2]
    if fn in ("mul", "div"):
        a = _rand_tensor(rng, sh2, DYA_POOL if fn == "div" else INT_POOL)
        b = _rand_tensor(rng, sh2, INT_POOL)
        if fn == "div":
            # divisors whose squared modulus is a power of two (or zero), so that every quotient is exact in binary
            pairs = [(0, 0), (0, 0), (1, 0), (0, 1), (-1, 0), (0, -2), (1, 1), (1, -1), (-2, 2), (2, 0), (0.5, 0.5), (0, 0.5), (4, 4)]
            n = 1
            for d in shape:
                n *= d
            b = torch.tensor([rng.choice(pairs) for _ in range(n)], dtype=torch.float32).reshape(sh2)
        r = T.complex_multiplication(a, b) if fn == "mul" else T.complex_division(a, b)
        term = "map (fun p => q%s (fst p) (snd p)) [%s]" % (fn, "; ".join("(%s, %s)" % (_qpair(x), _qpair(y)) for x, y in zip(_pixels(a), _pixels(b))))
        return _pixels(r), term
    if fn == "conj":
        a = _rand_tensor(rng, sh2, INT_POOL)
        return _pixels(T.conjugate(a)), "map qconj [%s]" % "; ".join(_qpair(x) for x in _pixels(a))
    if fn == "modsq":
        a = _rand_tensor(rng, sh2, [-4, -3, 0, 0, 3, 4, 5, 12])
        m = T.modulus(a)
        return [[float(round(float(v) ** 2)), 0.0] for v in m.reshape(-1).tolist()], "map (fun p => (qmodsq p, 0%%Q)) [%s]" % "; ".join(_qpair(x) for x in _pixels(a))
    if fn in ("dot", "reduce"):
        s = _rand_tensor(rng, sh2, INT_POOL)
        y = _rand_tensor(rng, sh2, INT_POOL)
        r = T.reduce_operator(y, s, dim=ca) if fn == "reduce" else T.complex_dot_product(s, y, dim=[ca])
        px = zip(_pixels(s, ca), _pixels(y, ca))
        term = "map (fun p => q%s (fst p) (snd p)) [%s]" % (fn, "; ".join("([%s], [%s])" % ("; ".join(_qpair(c) for c in sc), "; ".join(_qpair(c) for c in yc)) for sc, yc in px))
        return _pixels(r), term
    if fn == "expand":
        s = _rand_tensor(rng, sh2, INT_POOL)
        xs = list(shape)
        del xs[ca]
        x = _rand_tensor(rng, xs + [2], INT_POOL)
        r = T.expand_operator(x, s, dim=ca)
        px = zip(_pixels(s, ca), _pixels(x))
        term = "concat (map (fun p => qexpand (fst p) (snd p)) [%s])" % "; ".join("([%s], %s)" % ("; ".join(_qpair(c) for c in sc), _qpair(xv)) for sc, xv in px)
        return [c for p in _pixels(r, ca) for c in p], term
    if fn == "rss":
        a = _rand_tensor(rng, sh2, [-4, -3, 0, 0, 3, 4, 12])
        r = T.root_sum_of_squares(a, dim=ca)
        term = "map (fun p => (qrss_sq p, 0%%Q)) [%s]" % "; ".join("[%s]" % "; ".join(_qpair(c) for c in px) for px in _pixels(a, ca))
        return [[float(round(float(v) ** 2)), 0.0] for v in r.reshape(-1).tolist()], term
    if fn == "mm":
        n, k, m = rng.randint(1, 3), rng.randint(1, 3), rng.randint(1, 3)
        a = _rand_tensor(rng, [n, k, 2], INT_POOL)
        b = _rand_tensor(rng, [k, m, 2], INT_POOL)
        if rng.random() < 0.5:
            r = T.complex_mm(torch.view_as_complex(a), torch.view_as_complex(b))
        else:
            r = T.complex_bmm(torch.view_as_complex(a)[None], torch.view_as_complex(b)[None])[0]
        rr = torch.view_as_real(r)
        mat = lambda t: "[" + "; ".join("[" + "; ".join(_qpair(p) for p in row) + "]" for row in t.tolist()) + "]"
        return _pixels(rr), "qmm %s %s" % (mat(a), mat(b))
    raise AssertionError(fn)


def correspond(ctx):
    from .. import shims

    shims.install(ctx.repo)
    corr = Corr()
    corr.rule = RULE
    cases = gen_cases(ctx)
    impls, terms = [], []
    for c in cases:
        try:
            r, term = run_case(c)
            impls.append(["ok", [[Fraction(v[0]), Fraction(v[1])] for v in r]])
        except Exception as e:  # noqa
            impls.append(["raises", type(e).__name__ + ": " + str(e)[:80]])
            term = "@nil (Q * Q)"
        terms.append("map qcanon (%s)" % term)
    vals = coqrun.eval_sharded("c02_cases", PRE, terms, ctx.work, gen_dir=ctx.gen_dir, shard=100)
    for c, im, mv in zip(cases, impls, vals):
        model = ["ok", [[Fraction(p[0], p[1]), Fraction(p[2][0], p[2][1])] for p in mv]]
        corr.dist("function", c[0])
        corr.dist("coil_axis", c[2])
        imj = im if im[0] != "ok" else ["ok", [[str(a), str(b)] for a, b in im[1]]]
        mj = ["ok", [[str(a), str(b)] for a, b in model[1]]]
        corr.compare({"fn": c[0], "shape": c[1], "coil_axis": c[2], "seed": c[3]}, imj, mj, nontrivial=True)
    return corr


# ------------------------------------------------------------------------------------------------
def oracles(ctx, deep):
    import torch
    from .. import shims

    shims.install(ctx.repo)
    from direct.data import transforms as T

    out, seen, runs = [], set(), 0

    def add(v):
        if v.key() not in seen:
            seen.add(v.key())
            out.append(v)

    rng = ctx.rng
    vc = torch.view_as_complex
    for t in range(ctx.n(300, 3000) * (2 if deep else 1)):
        nsp = rng.choice([2, 3])
        spatial = [rng.randint(1, 4) for _ in range(nsp)]
        coils, batch = rng.randint(1, 5), rng.randint(1, 2)
        ca = rng.randrange(2 + nsp)
        xs = [batch] + spatial
        shape = list(xs)
        shape.insert(ca, coils)
        g = torch.Generator().manual_seed(rng.randrange(1 << 30))
        scale = rng.choice([1.0, 1.0, 1e-3, 1e3])
        a = torch.randn(*shape, 2, generator=g, dtype=torch.float64) * scale
        b = torch.randn(*shape, 2, generator=g, dtype=torch.float64) * scale
        x = torch.randn(*xs, 2, generator=g, dtype=torch.float64)
        if rng.random() < 0.3:
            b[(torch.rand(*shape, generator=g) < 0.3)] = 0.0
        runs += 1
        layout = rng.choice(["contiguous", "contiguous", "permuted", "channels-first", "strided", "transposed", "negative-axis"])
        cfg = {"shape": shape, "coil_axis": ca, "scale": scale, "layout": layout}

        def relayout(t):
            # same values, different memory layouts; none of them may change a result
            n = t.dim()
            if layout == "permuted":  # complex axis stored first
                return t.permute(-1, *range(n - 1)).contiguous().permute(*range(1, n), 0)
            if layout == "channels-first" and n >= 3:  # (N, 2, ...) network output permuted to complex-last
                perm = [0, n - 1] + list(range(1, n - 1))
                inv = [perm.index(i) for i in range(n)]
                return t.permute(*perm).contiguous().permute(*inv)
            if layout == "strided":  # every other row of a larger buffer
                big = torch.zeros(*t.shape[:-2], 2 * t.shape[-2], 2, dtype=t.dtype)
                big[..., ::2, :] = t
                return big[..., ::2, :]
            if layout == "transposed" and n >= 3:
                return t.transpose(-2, -3).contiguous().transpose(-2, -3)
            return t

        a, b, x = relayout(a), relayout(b), relayout(x)
        ca_arg = ca - (len(shape) + 1) if layout == "negative-axis" else ca  # the same axis, counted from the end
        tol = 1e-9 * scale * scale * 10

        def close(u, v, what, fnname, extra_tol=1.0):
            if u.shape != v.shape or not torch.allclose(u, v, rtol=1e-9, atol=tol * extra_tol):
                add(Violation(what, "%s disagrees with native complex arithmetic for %s (max err %.3g)" % (fnname, cfg, float((u - v).abs().max()) if u.shape == v.shape else -1), {"config": cfg, "function": fnname}, {"fn": fnname}))

        try:
            close(T.complex_multiplication(a, b), torch.view_as_real(vc(a.contiguous()) * vc(b.contiguous())), "complex-mul", "complex_multiplication")
            close(T.conjugate(a), torch.view_as_real(vc(a.contiguous()).conj().resolve_conj()), "complex-conj", "conjugate")
            close(T.modulus(a), vc(a.contiguous()).abs(), "complex-modulus", "modulus")
            nz = (b ** 2).sum(-1) != 0
            d = T.complex_division(a, b)
            ref = torch.view_as_real(vc(a.contiguous()) / torch.where(nz, vc(b.contiguous()), torch.ones_like(vc(b.contiguous()))))
            ref = torch.where(nz.unsqueeze(-1), ref, torch.zeros_like(ref))
            if d.shape != ref.shape or not torch.allclose(d, ref, rtol=1e-7, atol=1e-9) or not torch.isfinite(d).all():
                add(Violation("complex-div", "complex_division disagrees with native division / is not zero on zero divisors for %s" % cfg, {"config": cfg}, {"fn": "complex_division"}))
            close(T.complex_dot_product(a, b, dim=[ca_arg]), torch.view_as_real((vc(a.contiguous()).conj() * vc(b.contiguous())).sum(ca)), "complex-dot", "complex_dot_product", coils)
            close(T.root_sum_of_squares(a, dim=ca), (vc(a.contiguous()).abs() ** 2).sum(ca).sqrt(), "rss", "root_sum_of_squares", coils)
            S = a
            red = T.reduce_operator(b, S, dim=ca_arg)
            close(red, torch.view_as_real((vc(S.contiguous()).conj() * vc(b.contiguous())).sum(ca)), "reduce", "reduce_operator", coils)
            ex = T.expand_operator(x, S, dim=ca_arg if layout != "negative-axis" else ca - (len(shape) + 1))
            close(ex, torch.view_as_real(vc(S.contiguous()) * vc(x.contiguous()).unsqueeze(ca)), "expand", "expand_operator")
            # adjointness <E x, y> = <x, R y>
            lhs = (vc(ex.contiguous()).conj() * vc(b.contiguous())).sum()
            rhs = (vc(x.contiguous()).conj() * vc(red.contiguous())).sum()
            if abs(complex(lhs) - complex(rhs)) > 1e-8 * max(1.0, abs(complex(lhs))):
                add(Violation("adjoint", "<expand(x), y> != <x, reduce(y)> for %s: %s vs %s" % (cfg, complex(lhs), complex(rhs)), {"config": cfg}, {"fn": "adjoint"}))
            # reduce(expand(x)) = x for maps of unit RSS
            nrm = (vc(S.contiguous()).abs() ** 2).sum(ca, keepdim=True).sqrt()
            if float(nrm.min()) > 0:
                Sn = torch.view_as_real(vc(S.contiguous()) / nrm)
                back = T.reduce_operator(T.expand_operator(x, Sn, dim=ca), Sn, dim=ca)
                if not torch.allclose(back, x, rtol=1e-7, atol=1e-9):
                    add(Violation("reduce-expand-id", "reduce(expand(x)) != x for unit-RSS maps, %s" % cfg, {"config": cfg}, {"fn": "reduce-expand"}))
            # coil permutation invariance
            perm = torch.randperm(coils, generator=g)
            redp = T.reduce_operator(b.index_select(ca, perm), S.index_select(ca, perm), dim=ca)
            if not torch.allclose(redp, red, rtol=1e-9, atol=tol * coils):
                add(Violation("coil-permutation", "reduce_operator changes under a simultaneous coil permutation, %s" % cfg, {"config": cfg}, {"fn": "reduce-perm"}))
        except Exception as e:  # noqa
            add(Violation("complex-raises", "%s: %s for %s" % (type(e).__name__, str(e)[:100], cfg), {"config": cfg}, {"fn": "raises"}))
        # matrix products
        n, k, m = rng.randint(1, 4), rng.randint(1, 4), rng.randint(1, 4)
        A = torch.randn(n, k, generator=g, dtype=torch.float64) + 1j * torch.randn(n, k, generator=g, dtype=torch.float64)
        B = torch.randn(k, m, generator=g, dtype=torch.float64) + 1j * torch.randn(k, m, generator=g, dtype=torch.float64)
        try:
            if not torch.allclose(T.complex_mm(A, B), A @ B, rtol=1e-9, atol=1e-9) or not torch.allclose(T.complex_bmm(A[None], B[None]), (A @ B)[None], rtol=1e-9, atol=1e-9):
                add(Violation("complex-mm", "complex_mm / complex_bmm disagree with the native matrix product (%d,%d)x(%d,%d)" % (n, k, k, m), {"n": n, "k": k, "m": m}, {"fn": "mm"}))
        except Exception as e:  # noqa
            add(Violation("complex-raises", "complex_mm raises %s" % type(e).__name__, {}, {"fn": "raises-mm"}))
    # single precision at tiny magnitudes (raw scanner units can be 1e-20 and below): |b|^2 is still representable there,
    # and the quotient of two such numbers is an ordinary one
    for sc in (1e-17, 1e-19, 1e-20):
        g32 = torch.Generator().manual_seed(int(-math.log10(sc)))
        a32 = torch.randn(300, 2, generator=g32) * sc
        b32 = torch.randn(300, 2, generator=g32) * sc
        runs += 1
        try:
            q = T.complex_division(a32, b32)
        except Exception as e:  # noqa
            add(Violation("complex-raises", "complex_division raises %s on float32 values of magnitude %g" % (type(e).__name__, sc), {"scale": sc}, {"fn": "complex_division-tiny"}))
            continue
        ref = torch.view_as_real(torch.view_as_complex(a32.double()) / torch.view_as_complex(b32.double())).float()
        bad = ~torch.isfinite(q).all(-1)
        rel = float(((q - ref).abs().max()) / (ref.abs().max() + 1e-30)) if not bool(bad.any()) else float("inf")
        if bool(bad.any()) or rel > 1e-2:
            add(Violation("complex-div", "complex_division of float32 values of magnitude %g: %d non-finite quotients, relative error %.3g against double precision (the true quotients are of order one)" % (sc, int(bad.sum()), rel), {"scale": sc, "nonfinite": int(bad.sum())}, {"fn": "complex_division-tiny"}))
    ctx.oracle_runs = runs
    return out
