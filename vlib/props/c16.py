"""C16 — an optimiser step uses the mean gradient of all accumulated batches."""
import ast
import os
import shutil
import tempfile
from fractions import Fraction

from .. import coqrun, py2gallina as pg, pynorm
from ..core import Corr, Untranslatable, Violation

ID = "C16"
LEVEL = "proof"
COQ_FILES = ["Tie/C16_defs.v", "Tie/C16_tie.v", "Props/C16_props.v"]
PROPS_FILES = ["C16_props.v"]
TRUSTED_BASE = [
    "vlib/pynorm.py (statement-level normalisation before the text-matching translator: parameterless helper methods inlined, single-assignment aliases of pure expressions substituted - configuration reads, or no call between definition and last use -, guard-continue undone; assumptions in DESIGN.md 12.7)",
    "py2gallina unit 'train loop' (Engine.training_loop body -> op list of coq/Model/C16.v; statements touching optimizer / scaler / scheduler / gradients must be classified, logging and checkpoint calls are skipped by an explicit list)",
    "semantics of the op language in coq/Model/C16.v (Backward adds the batch gradient at the current parameters; OptStep is an arbitrary function of parameters, gradient, schedule epoch)",
    "exact correspondence through the real Engine.train with a one-parameter model, SGD, dyadic gradients and learning rates (vlib/engine_harness.py)",
    "torch optimiser / GradScaler(enabled=False) / LambdaLR; _do_iteration of a concrete engine performs exactly one backward() per iteration",
]
ASSUMPTIONS = [
    "training starts at the beginning of an accumulation window (start_iter multiple of gradient_steps); accumulated gradients are not checkpointed, so a resume inside a window restarts that window (not covered by a theorem)",
    "mixed precision disabled (scaler is the identity)",
]
RULE = "(k, iterations, batch size, gradients, lr) runs through Engine.train; non-trivial = k >= 2 and at least one optimiser step; distinct by configuration"

MUTATORS = ("optimizer", "_scaler", "lr_scheduler", ".grad", "zero_grad", "backward", "clip_grad")
SKIP_PREFIXES = (
    "storage.", "loss_dict_reduced =", "loss_reduced =", "del data", "self.checkpoint_model_at_interval(", "self.write_to_logs_at_interval(",
    "self.validate_model_at_interval(", "fail_counter = 0", "loss_dict = ",
)


def _is_clip(stmt):
    """torch.nn.utils.clip_grad_norm_(self.model.parameters(), self.cfg.training.gradient_clipping, ..), arguments given
    positionally or by keyword"""
    c = stmt.value if isinstance(stmt, ast.Expr) else None
    if not (isinstance(c, ast.Call) and ast.unparse(c.func) == "torch.nn.utils.clip_grad_norm_"):
        return False
    kw = {k.arg: ast.unparse(k.value) for k in c.keywords}
    pos = [ast.unparse(a) for a in c.args]
    params = pos[0] if pos else kw.get("parameters")
    norm = pos[1] if len(pos) > 1 else kw.get("max_norm")
    return params == "self.model.parameters()" and norm == "self.cfg.training.gradient_clipping"


def _ops(stmts, tr, path, defs):
    out = []
    for s in stmts:
        src = ast.unparse(s)
        if isinstance(s, ast.If):
            test = ast.unparse(s.test)
            if test == "(iter_idx + 1) % self.cfg.training.gradient_steps == 0" or ("gradient_steps" in test and "iter_idx" in test):
                defs["step_due"] = tr.b(s.test)
                if s.orelse:
                    raise Untranslatable("training_loop: else-branch on the step condition", s.lineno, path)
                out.append("IfStepDue [%s]" % "; ".join(_ops(s.body, tr, path, defs)))
                continue
            if test == "self.cfg.training.gradient_steps > 1" and not s.orelse:
                body = ast.unparse(ast.Module(body=s.body, type_ignores=[]))
                want = "for parameter in self.model.parameters():\n    if parameter.grad is not None:\n        parameter.grad.div_(self.cfg.training.gradient_steps)"
                if body.strip() != want:
                    raise Untranslatable("training_loop: gradient division block outside subset: %s" % body[:80], s.lineno, path)
                out.append("IfKgt1 [DivGrad]")
                continue
            if test == "self.cfg.training.gradient_clipping > 0.0" and not s.orelse:
                inner = []
                for b in s.body:
                    bs = ast.unparse(b)
                    if bs == "self._scaler.unscale_(self.__optimizer)":
                        inner.append("Unscale")
                    elif _is_clip(b):
                        inner.append("Clip")
                    else:
                        raise Untranslatable("training_loop: clipping block outside subset: %s" % bs[:60], b.lineno, path)
                out.append("IfClip [%s]" % "; ".join(inner))
                continue
            if not any(m in src for m in MUTATORS if m not in (".grad",)) and ("self.logger" in src or "storage" in src or "validation_func" in src or "log_first_training_example" in src):
                # logging / debug / validation: reads only
                if "gradient_debug" in test and any(m in src for m in ("zero_grad", ".step(", "div_", "backward")):
                    raise Untranslatable("training_loop: gradient_debug block mutates state", s.lineno, path)
                continue
            raise Untranslatable("training_loop: conditional outside subset: if %s" % test[:60], s.lineno, path)
        if src == "self._scaler.step(self.__optimizer)":
            out.append("OptStep")
        elif src == "self._scaler.update()":
            out.append("ScalerUpdate")
        elif src == "self.__lr_scheduler.step()":
            out.append("SchedStep")
        elif src == "self.__optimizer.zero_grad()":
            out.append("ZeroGrad")
        elif any(src.startswith(p) for p in SKIP_PREFIXES) and not any(m in src for m in MUTATORS if m != "optimizer" or "param_groups" not in src):
            continue
        elif src.startswith("storage.add_scalar('lr', self.__optimizer.param_groups[0]['lr']"):
            continue
        else:
            raise Untranslatable("training_loop: statement outside subset: %s" % src[:70], s.lineno, path)
    return out


def generate(ctx):
    path = ctx.src("direct/engine.py")
    tree, _ = pg.parse_file(path)
    # helper methods extracted from the loop body, named aliases / conditions and guard-`continue`s are undone first
    # (vlib/pynorm.py), so that these routine edits do not change the statement list that is translated
    fn = pynorm.normalize(pg.find_def(tree, "Engine.training_loop", path), pg.find_def(tree, "Engine", path), loop_var="parameter")
    loop = None
    for node in fn.body:
        if isinstance(node, ast.For) and ast.unparse(node.iter) in ("zip(data_loader, range(start_iter, total_iter))", "zip(data_loader, range(start_iter, self.cfg.training.num_iterations))"):
            loop = node
    if loop is None:
        raise Untranslatable("training_loop: main loop `for data, iter_idx in zip(data_loader, range(start_iter, total_iter))` not found", fn.lineno, path)
    # position of the try-block that runs _do_iteration
    body = list(loop.body)
    tidx = None
    for i, s in enumerate(body):
        if isinstance(s, ast.Try) and "_do_iteration" in ast.unparse(s.body[0]):
            tidx = i
    if tidx is None:
        raise Untranslatable("training_loop: try-block around _do_iteration not found", loop.lineno, path)
    for s in body[:tidx]:
        src = ast.unparse(s)
        if any(m in src for m in MUTATORS):
            raise Untranslatable("training_loop: optimiser state touched before the iteration: %s" % src[:60], s.lineno, path)
    tr = pg.ExprT({"iter_idx": "it", "self.cfg.training.gradient_steps": "k"}, path, truthy_int=False)
    defs = {}
    ops = _ops(body[tidx + 1 :], tr, path, defs)
    if "step_due" not in defs:
        raise Untranslatable("training_loop: step condition not found", loop.lineno, path)
    # routines called from the loop body (checkpointing, logging, validation) must not touch gradients / optimiser
    cls = pg.find_def(tree, "Engine", path)
    methods = {n.name: n for n in cls.body if isinstance(n, ast.FunctionDef)}
    seen, todo = set(), ["checkpoint_model_at_interval", "write_to_logs_at_interval", "validate_model_at_interval", "validation_loop", "write_to_logs", "log_first_training_example_and_model"]
    while todo:
        nm = todo.pop()
        if nm in seen or nm not in methods:
            continue
        seen.add(nm)
        for node in ast.walk(methods[nm]):
            if isinstance(node, ast.Call):
                f = ast.unparse(node.func)
                if any(w in f for w in ("zero_grad", "backward", "_scaler.", "lr_scheduler", "optimizer.step", "optimizer.zero", "clip_grad")) or (f.startswith("self.__optimizer") and not f.startswith("self.__optimizer.param_groups")):
                    raise Untranslatable("%s touches the optimiser / gradients (%s) although it is called from inside the training loop" % (nm, f), node.lineno, path)
                if f.startswith("self.") and f[5:] in methods:
                    todo.append(f[5:])
    # Engine.train: gradients are cleared (through the optimiser, i.e. for every optimised parameter) before the loop
    trn = pg.find_def(tree, "Engine.train", path)
    order = [ast.unparse(x) for x in trn.body]
    i_zero = [i for i, x in enumerate(order) if x == "self.__optimizer.zero_grad()"]
    i_loop = [i for i, x in enumerate(order) if "self.training_loop(" in x]
    clean = bool(i_zero) and bool(i_loop) and i_zero[0] < i_loop[0]
    for x in order[: (i_loop[0] if i_loop else len(order))]:
        if ("zero_grad" in x and x != "self.__optimizer.zero_grad()") or "backward(" in x:
            clean = False
    out = "From DV Require Import Model.C16.\n"
    out += "Definition train_starts_with_clean_gradients : bool := %s.\n" % ("true" if clean else "false")
    out += "Definition step_due_z (it k : Z) : bool := %s.\n" % defs["step_due"]
    out += "Definition loop_body : list op := [%s].\n" % "; ".join(ops)
    return [pg.write_gen(ctx, "C16_gen", out)]


# ------------------------------------------------------------------------------------------------
PRE = "From DV Require Import Base.Tactics Model.C16.\nFrom Coq Require Import QArith.\nFrom G Require Import C16_gen C16_defs.\n"


def _q(x):
    f = Fraction(x)
    return "(%d # %d)%%Q" % (f.numerator, f.denominator) if f.numerator >= 0 else "(-%d # %d)%%Q" % (-f.numerator, f.denominator)


def gen_cases(ctx):
    rng = ctx.rng
    cases = [dict(k=2, n=4, bs=1, grads=[1, 2, 4, 8], lr=0.5), dict(k=1, n=3, bs=1, grads=[1, 2, 4], lr=0.5)]
    for _ in range(ctx.n(70, 900)):
        k = rng.choice([1, 2, 2, 3, 3, 4])
        n = rng.randint(1, 12)
        bs = rng.choice([1, 2, 4])
        pool = [-6, -3, 0.75, 1.5, 3, 6, 12] if k == 3 else [-8, -4, -2, -1, 0.5, 1, 2, 3, 4, 8, 0.25]
        grads = [rng.choice(pool) for _ in range(n * bs)]
        lr = rng.choice([0.5, 0.25, 1.0, 0.125])
        cases.append(dict(k=k, n=n, bs=bs, grads=grads, lr=lr))
    return cases


def run_impl(case, root, **kw):
    from .. import engine_harness as H

    d = tempfile.mkdtemp(prefix="c16_", dir=root)
    try:
        n, bs = case["n"], case["bs"]
        batches = [list(range(i * bs, (i + 1) * bs)) for i in range(n)]
        return H.train(d, case["grads"], batches, n, k=case["k"], lr=case["lr"], clip=case.get("clip", 0.0), opt=case.get("opt", "sgd"), **kw)
    finally:
        shutil.rmtree(d, ignore_errors=True)


def reference(case):
    """The property, executed: mean gradient of each window of k batches, SGD, lr of the iteration of the step."""
    k, n, bs, lr0 = case["k"], case["n"], case["bs"], Fraction(case["lr"])
    g = [sum(Fraction(x) for x in case["grads"][i * bs : (i + 1) * bs]) / bs for i in range(n)]
    w = Fraction(0)
    steps = []
    for t in range(n):
        if (t + 1) % k == 0:
            m = sum(g[t + 1 - k : t + 1]) / k
            lr = lr0 * Fraction(1, 2 ** (t // 3))
            steps.append([float(lr), float(m)])
            w -= lr * m
    return float(w), n, steps


def correspond(ctx):
    from .. import shims

    shims.install(ctx.repo)
    corr = Corr()
    corr.rule = RULE
    root = os.path.join(ctx.work, "exp")
    os.makedirs(root, exist_ok=True)
    cases = gen_cases(ctx)
    impls, terms = [], []
    for c in cases:
        try:
            r = run_impl(c, root)
            impls.append(["ok", Fraction(r["w"]).numerator, Fraction(r["w"]).denominator, r["last_epoch"]])
        except Exception as e:  # noqa
            impls.append(["raises", type(e).__name__ + ": " + str(e)[:100]])
        bs = c["bs"]
        g = [sum(Fraction(x) for x in c["grads"][i * bs : (i + 1) * bs]) / bs for i in range(c["n"])]
        terms.append("run_q %d false %d [%s] %s" % (c["k"], c["n"], "; ".join(_q(x) for x in g), _q(c["lr"])))
    vals = coqrun.eval_sharded("c16_cases", PRE, terms, ctx.work, gen_dir=ctx.gen_dir, shard=200)
    for c, im, mv in zip(cases, impls, vals):
        num, den, ep = mv
        corr.dist("k", c["k"])
        corr.dist("iterations", c["n"])
        corr.dist("batch", c["bs"])
        corr.compare(c, im, ["ok", num, den, ep], nontrivial=c["k"] >= 2 and c["n"] >= c["k"])
    shutil.rmtree(root, ignore_errors=True)
    ctx._cases = cases
    return corr


def oracles(ctx, deep):
    from .. import shims

    shims.install(ctx.repo)
    out, seen, runs = [], set(), 0

    def add(v):
        if v.key() not in seen:
            seen.add(v.key())
            out.append(v)

    root = os.path.join(ctx.work, "expo")
    os.makedirs(root, exist_ok=True)
    cases = list(getattr(ctx, "_cases", None) or gen_cases(ctx))
    rng = ctx.rng
    extra = []
    for _ in range(ctx.n(12, 150) * (3 if deep else 1)):
        k = rng.choice([1, 2, 3, 4])
        n = rng.randint(1, 12)
        bs = rng.choice([1, 2, 4])
        pool = [-6, -3, 1.5, 3, 6, 12] if k == 3 else [-4, -2, -1, 1, 2, 4, 0.5]
        extra.append(dict(k=k, n=n, bs=bs, grads=[rng.choice(pool) for _ in range(n * bs)], lr=rng.choice([0.5, 0.25]), opt=rng.choice(["sgd", "adam"]), clip=rng.choice([0.0, 0.0, 1.0, 100.0])))
    cases = sorted(cases, key=lambda c: (c["n"], c["k"])) + extra
    for c in cases:
        runs += 1
        try:
            r = run_impl(c, root)
        except Exception as e:  # noqa
            add(Violation("training-runs", "Engine.train raises %s: %s" % (type(e).__name__, str(e)[:120]), {"case": c}, {"kind": "raises"}))
            continue
        w_ref, ep_ref, steps_ref = reference(c)
        call = "Engine.train with gradient_steps=%d, %d iterations, batch size %d, per-sample gradients %s, SGD lr %s" % (c["k"], c["n"], c["bs"], c["grads"], c["lr"])
        if r["last_epoch"] != ep_ref:
            add(Violation("schedule-once-per-iteration", "scheduler advanced %d times in %d iterations (%s)" % (r["last_epoch"], c["n"], call), {"call": call, "observed": r["last_epoch"], "expected": ep_ref}, {"kind": "schedule"}))
        if len(r["steps"]) != len(steps_ref):
            add(Violation("step-every-kth", "%d optimiser steps, expected %d (%s)" % (len(r["steps"]), len(steps_ref), call), {"call": call, "observed": r["steps"], "expected": steps_ref}, {"kind": "step-count"}))
            continue
        clip = c.get("clip", 0.0)
        if c.get("opt", "sgd") == "sgd" and clip == 0.0:
            if r["steps"] != steps_ref or r["w"] != w_ref:
                add(Violation("mean-gradient", "applied (lr, gradient) per step %s, expected %s; final parameter %s vs %s (%s)" % (r["steps"], steps_ref, r["w"], w_ref, call), {"call": call, "observed_steps": r["steps"], "expected_steps": steps_ref, "observed_w": r["w"], "expected_w": w_ref}, {"kind": "mean-gradient", "k_gt_1": c["k"] > 1}))
        else:
            # gradient seen by the optimiser = clip(mean gradient); lr as in the reference
            for (lr_o, g_o), (lr_r, g_r) in zip(r["steps"], steps_ref):
                want = g_r if clip == 0.0 else g_r * min(1.0, clip / (abs(g_r) + 1e-6))
                if lr_o != lr_r or abs(g_o - want) > 1e-9 * max(1.0, abs(want)):
                    add(Violation("mean-gradient", "optimiser saw gradient %s at lr %s, expected %s at lr %s (%s, clip %s, %s)" % (g_o, lr_o, want, lr_r, call, clip, c.get("opt")), {"call": call, "clip": clip, "opt": c.get("opt"), "observed_steps": r["steps"], "expected_steps": steps_ref}, {"kind": "mean-gradient", "k_gt_1": c["k"] > 1}))
                    break
    # validation in the middle of accumulation windows must not disturb the gradients
    for _ in range(ctx.n(6, 60)):
        k = rng.choice([2, 3, 4])
        n = rng.randint(8, 14)
        pool = [-6, -3, 1.5, 3, 6, 12] if k == 3 else [-4, -2, -1, 1, 2, 4, 0.5]
        c = dict(k=k, n=n, bs=1, grads=[rng.choice(pool) for _ in range(n)], lr=0.5)
        vs = rng.choice([1, 2, 3, 5])
        runs += 1
        try:
            r = run_impl(c, root, validation_steps=vs)
        except Exception as e:  # noqa
            add(Violation("training-runs", "Engine.train with validation raises %s: %s" % (type(e).__name__, str(e)[:120]), {"case": c, "validation_steps": vs}, {"kind": "raises-validation"}))
            continue
        w_ref, ep_ref, steps_ref = reference(c)
        if r["steps"] != steps_ref or r["w"] != w_ref:
            add(Violation("mean-gradient", "with validation every %d iterations (%d validations ran) the optimiser saw %s, expected %s (gradient_steps=%d, gradients %s)" % (vs, r["validations"], r["steps"], steps_ref, k, c["grads"]), {"case": c, "validation_steps": vs, "observed_steps": r["steps"], "expected_steps": steps_ref}, {"kind": "mean-gradient", "k_gt_1": True, "with_validation": True}))
    # validation points without validation datasets (the default): training must go on in training mode afterwards
    for _ in range(ctx.n(4, 40)):
        k = rng.choice([1, 2, 3])
        n = rng.randint(8, 14)
        pool = [-6, -3, 1.5, 3, 6, 12] if k == 3 else [-4, -2, -1, 1, 2, 4, 0.5]
        c = dict(k=k, n=n, bs=1, grads=[rng.choice(pool) for _ in range(n)], lr=0.5)
        vs = rng.choice([1, 2, 3, 5, 6])
        runs += 1
        try:
            r = run_impl(c, root, validation_steps=vs, no_val_datasets=True)
        except Exception as e:  # noqa
            add(Violation("training-runs", "Engine.train with validation points but no validation datasets raises %s: %s" % (type(e).__name__, str(e)[:120]), {"case": c, "validation_steps": vs}, {"kind": "raises-validation"}))
            continue
        w_ref, ep_ref, steps_ref = reference(c)
        if r["steps"] != steps_ref or r["w"] != w_ref:
            add(Violation("mean-gradient", "with validation points every %d iterations and no validation datasets the optimiser saw %s, expected %s (gradient_steps=%d, gradients %s; an engine that back-propagates only in training mode)" % (vs, r["steps"], steps_ref, k, c["grads"]), {"case": c, "validation_steps": vs, "validation_datasets": None, "observed_steps": r["steps"], "expected_steps": steps_ref}, {"kind": "mean-gradient", "k_gt_1": k > 1, "with_validation": True, "no_datasets": True}))
    # a second, non-resumed run on the same engine object, after a run whose length is not a multiple of gradient_steps
    for _ in range(ctx.n(4, 40)):
        k = rng.choice([2, 3, 4])
        n = rng.randint(4, 10)
        n1 = rng.choice([x for x in range(1, 9) if x % k])
        pool = [-6, -3, 1.5, 3, 6, 12] if k == 3 else [-4, -2, -1, 1, 2, 4, 0.5]
        c = dict(k=k, n=n, bs=1, grads=[rng.choice(pool) for _ in range(n)], lr=0.5)
        g1 = [rng.choice(pool) for _ in range(n1)]
        runs += 1
        try:
            r = run_impl(c, root, first_run=(n1, g1))
        except Exception as e:  # noqa
            add(Violation("training-runs", "a second Engine.train on the same engine raises %s: %s" % (type(e).__name__, str(e)[:120]), {"case": c, "first_run": [n1, g1]}, {"kind": "raises-second-run"}))
            continue
        w_ref, ep_ref, steps_ref = reference(c)
        if r["steps"] != steps_ref or r["w"] != w_ref:
            add(Violation("mean-gradient", "second run of one engine object (first run: %d iterations, gradient_steps=%d): the optimiser saw %s, expected %s (gradients %s)" % (n1, k, r["steps"], steps_ref, c["grads"]), {"case": c, "first_run": {"num_iterations": n1, "grads": g1}, "observed_steps": r["steps"], "expected_steps": steps_ref}, {"kind": "mean-gradient", "k_gt_1": True, "second_run": True}))
    # gradients left over before training (e.g. from a smoke test) must not enter the first step, for every optimised parameter
    for _ in range(ctx.n(3, 20)):
        n = rng.randint(2, 5)
        c = dict(k=1, n=n, bs=1, grads=[rng.choice([1, 2, 4, -2]) for _ in range(n)], lr=0.5)
        runs += 1
        try:
            r = run_impl(c, root, extra_model=True, stale_grads=[rng.choice([3.0, 5.0]), rng.choice([2.0, 7.0])])
        except Exception as e:  # noqa
            add(Violation("training-runs", "Engine.train with an additional model raises %s: %s" % (type(e).__name__, str(e)[:120]), {"case": c}, {"kind": "raises-extra"}))
            continue
        w_ref, _, steps_ref = reference(c)
        if r["w"] != w_ref or r["w_extra"] != 0.0:
            add(Violation("stale-gradients", "gradients present before Engine.train entered the first optimiser step: main parameter %s (expected %s), additional model's parameter %s (expected 0.0)" % (r["w"], w_ref, r["w_extra"]), {"case": c, "observed": [r["w"], r["w_extra"]], "expected": [w_ref, 0.0]}, {"kind": "stale"}))
    shutil.rmtree(root, ignore_errors=True)
    ctx.oracle_runs = runs
    return out
