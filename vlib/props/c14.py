"""C14 — volume reconstruction returns each volume once with its slices in order."""
import os
import pathlib
import shutil
import tempfile

from .. import coqrun
from ..core import Corr, Violation

ID = "C14"
LEVEL = "proof"
COQ_FILES = ["Tie/C14_tie.v", "Props/C14_props.v"]
PROPS_FILES = ["C14_props.v"]
TRUSTED_BASE = [
    "py2gallina unit 'recon-loop': the body of the batch loop of MRIModelEngine.reconstruct_volumes is regenerated on every run as a statement list over its four state variables (guards on last_filename / curr_volume / slice_counter == volume_size, slice assignment into the volume buffer, the yield); if / elif / else kept as such; named integer intermediates computed from slice_counter / volume_size are substituted where used, as long as neither is assigned in between); statements that compute the per-batch output are abstracted to 'outs', anything else fails closed; coq/Tie/C14_tie.v proves that one iteration of this statement list is, for every state, file name and batch, the same state transformer as one iteration of the reference body, and coq/Proofs/C14_skel.v that the reference body refines the state machine below",
    "hand-written model coq/Model/C14.v of the bookkeeping of MRIModelEngine.reconstruct_volumes (last_filename / curr_volume / slice_counter / volume_size), tied by exact correspondence through the real Engine.predict -> reconstruct_volumes with a marker model (vlib/props/c14.py)",
    "torch DataLoader yields the batch sampler's batches in order for any worker count (validated for 0-2 workers); default collate",
    "_process_output acts per slice (validated: per-slice scaling factors 2^k, crop from C10)",
    "C13 for the batches delivered by DistributedSequentialSampler + BatchVolumeSampler",
]
ASSUMPTIONS = ["volume names pairwise distinct (NoDup: they are dictionary keys)", "every volume has at least one slice"]
RULE = "(layout, batch size, world, rank, workers, crop) runs of Engine.predict with a marker model; non-trivial = >= 2 volumes and some volume spanning several batches; distinct by configuration"

LOOP_SRC = "direct/nn/mri_models.py"
# statements of the loop body that do not touch the four state variables (they compute the batch output or log)
PURE_TARGETS = {"filename", "scaling_factors", "resolution", "iteration_output", "output", "loss_dict", "output_abs", "target_abs"}


STATE_VARS = ("curr_volume", "curr_target", "slice_counter", "volume_size", "last_filename")


def _yields_volume(v):
    """(curr_volume, [curr_target,] <loss dict>, filename), or that choice written as `A if add_target else B`"""
    import ast

    if isinstance(v, ast.IfExp):
        return ast.unparse(v.test) == "add_target" and _yields_volume(v.body) and _yields_volume(v.orelse)
    if not isinstance(v, ast.Tuple) or len(v.elts) not in (3, 4):
        return False
    names = [ast.unparse(e) for e in v.elts]
    if names[0] != "curr_volume" or names[-1] != "filename" or (len(names) == 4 and names[1] != "curr_target"):
        return False
    mid = v.elts[-2]
    return not any(isinstance(n, ast.Name) and n.id in STATE_VARS for n in ast.walk(mid))


def _same_call(a, b):
    """two calls equal up to `f(*(x, *y))` versus `f(x, *y)`"""
    import ast

    def flat(c):
        out = []
        for x in c.args:
            if isinstance(x, ast.Starred) and isinstance(x.value, ast.Tuple):
                out.extend(ast.unparse(e) for e in x.value.elts)
            else:
                out.append(ast.unparse(x))
        return ast.unparse(c.func), out, sorted((k.arg, ast.unparse(k.value)) for k in c.keywords)

    return isinstance(a, ast.Call) and isinstance(b, ast.Call) and flat(a) == flat(b)


class _Env:
    """named intermediates of the loop body that read the loop state (`end = slice_counter + n`): kept as definitions and
    substituted where they are used, as long as no state variable they read has been assigned in between"""

    def __init__(self):
        self.defs = {}  # name -> (expression, state variables it reads)

    def subst(self, node):
        import ast
        import copy

        defs = self.defs

        class T(ast.NodeTransformer):
            def visit_Name(self, n):
                if isinstance(n.ctx, ast.Load) and n.id in defs:
                    return copy.deepcopy(defs[n.id][0])
                return n

        return ast.fix_missing_locations(T().visit(copy.deepcopy(node)))

    def assigned(self, names):
        for k in [k for k, (_, deps) in self.defs.items() if deps & set(names) or k in names]:
            del self.defs[k]


def _assigned_state(s):
    """state variables (and locals) assigned anywhere inside a statement"""
    import ast

    out = set()
    for n in ast.walk(s):
        if isinstance(n, (ast.Assign, ast.AugAssign, ast.AnnAssign)):
            for t in (n.targets if isinstance(n, ast.Assign) else [n.target]):
                for e in (t.elts if isinstance(t, (ast.Tuple, ast.List)) else [t]):
                    while isinstance(e, (ast.Subscript, ast.Attribute, ast.Starred)):
                        e = e.value
                    if isinstance(e, ast.Name):
                        out.add(e.id)
    return out


def _loop_stmts(stmts, path, env):
    out = []
    for st in stmts:
        out.extend(_loop_stmt(st, path, env))
    return out


def _loop_stmt(s, path, env):
    import ast

    from ..core import Untranslatable

    u = ast.unparse(s)

    def fail(why):
        raise Untranslatable("recon-loop: %s: %s" % (why, u[:80]), getattr(s, "lineno", None), path)

    if isinstance(s, ast.Expr) and isinstance(s.value, ast.Call):
        fn = ast.unparse(s.value.func)
        if fn in ("torch.cuda.empty_cache", "gc.collect", "self.logger.info", "loss_dict_list.append"):
            return []
        fail("call outside subset")
    if isinstance(s, ast.Expr) and isinstance(s.value, ast.Yield):
        if not _yields_volume(s.value.value):
            fail("yield of something else than the current volume and file name")
        return ["SYield"]
    if isinstance(s, ast.Delete):
        if u != "del data":
            fail("del outside subset")
        return []
    if isinstance(s, ast.AugAssign):
        if u == "filenames_seen += 1":
            return []
        if ast.unparse(s.target) == "slice_counter" and isinstance(s.op, ast.Add) and ast.unparse(env.subst(s.value)) == "output_abs.shape[0]":
            env.assigned(["slice_counter"])
            return ["SAddCounter"]
        fail("augmented assignment outside subset")
    if isinstance(s, ast.Assign):
        if len(s.targets) != 1:
            fail("chained assignment")
        t = ast.unparse(env.subst(s.targets[0])) if not isinstance(s.targets[0], ast.Name) else s.targets[0].id
        value = env.subst(s.value)
        v = ast.unparse(value)
        if t in PURE_TARGETS or (isinstance(s.targets[0], ast.Name) and t not in STATE_VARS and t not in ("data", "data_loader", "loss_dict_list", "filenames_seen")):
            reads = {n.id for n in ast.walk(value) if isinstance(n, ast.Name) and n.id in STATE_VARS}
            env.assigned([t])
            if reads:
                # a named intermediate computed from the loop state: only integer arithmetic on the counters is kept
                if t in PURE_TARGETS or not reads <= {"slice_counter", "volume_size"}:
                    fail("batch output depends on the loop state")
                env.defs[t] = (value, reads)
            return []
        table = {("last_filename", "filename"): ["SSetLastFile"], ("curr_volume", "None"): ["SResetVolume"], ("curr_target", "None"): [], ("slice_counter", "0"): ["SResetCounter"],
                 ("slice_counter", "slice_counter + output_abs.shape[0]"): ["SAddCounter"],
                 ("volume_size", "len(data_loader.batch_sampler.sampler.volume_indices[filename])"): ["SSetVsz"],
                 ("curr_volume", "torch.zeros(*(volume_size, *output_abs.shape[1:]), dtype=output_abs.dtype)"): ["SAllocBuf"],
                 ("curr_target", "curr_volume.clone()"): [],
                 ("curr_volume[slice_counter:slice_counter + output_abs.shape[0], ...]", "output_abs.cpu()"): ["SWriteSlice"],
                 ("curr_target[slice_counter:slice_counter + output_abs.shape[0], ...]", "target_abs.cpu()"): []}
        res = None
        if (t, v) in table:
            res = table[(t, v)]
        elif t == "curr_volume" and _same_call(value, ast.parse("torch.zeros(*(volume_size, *output_abs.shape[1:]), dtype=output_abs.dtype)", mode="eval").body):
            res = ["SAllocBuf"]
        if res is None:
            fail("assignment outside subset")
        if isinstance(s.targets[0], ast.Name):
            env.assigned([t])
        return res
    if isinstance(s, ast.If) and ast.unparse(s.test) == "add_target" and len(s.body) == 1 and len(s.orelse) == 1 and all(isinstance(b, ast.Expr) and isinstance(b.value, ast.Yield) for b in (s.body[0], s.orelse[0])):
        if _yields_volume(s.body[0].value.value) and _yields_volume(s.orelse[0].value.value) and len(s.body[0].value.value.elts) == 4 and len(s.orelse[0].value.value.elts) == 3:
            return ["SYield"]
        fail("yield of something else than the current volume and file name")
    if isinstance(s, ast.If):
        c = ast.unparse(env.subst(s.test))
        conds = {"last_filename is None": "CLastIsNone", "last_filename != filename": "CLastNeqFile", "curr_volume is None": "CBufIsNone", "slice_counter == volume_size": "CCounterEqVsz",
                 "volume_size == slice_counter": "CCounterEqVsz", "filename != last_filename": "CLastNeqFile"}
        import copy

        env_b, env_o = copy.deepcopy(env), copy.deepcopy(env)
        body = _loop_stmts(s.body, path, env_b)
        orelse = _loop_stmts(s.orelse, path, env_o)
        # definitions made inside a branch do not outlive it; assignments inside it invalidate what they touch
        env.assigned(_assigned_state(s))
        if c == "add_target":
            if body or orelse:
                fail("the target branch changes the loop state")
            return []
        if c not in conds:
            fail("guard outside subset")
        if not s.orelse:
            return ["SIf %s [%s]" % (conds[c], "; ".join(body))]
        return ["SIfElse %s [%s] [%s]" % (conds[c], "; ".join(body), "; ".join(orelse))]
    fail("statement outside subset")


def generate(ctx):
    import ast

    from .. import py2gallina as pg
    from ..core import Untranslatable

    path = ctx.src(LOOP_SRC)
    tree, _ = pg.parse_file(path)
    fn = pg.find_def(tree, "MRIModelEngine.reconstruct_volumes", path)
    loops = [n for n in pg.strip_doc(fn.body) if isinstance(n, ast.For)]
    hdr = (ast.unparse(loops[0].target), ast.unparse(loops[0].iter)) if len(loops) == 1 else None
    if hdr not in (("(_, data)", "enumerate(data_loader)"), ("data", "data_loader")):
        raise Untranslatable("recon-loop: expected one loop over (enumerate of) data_loader binding `data`", fn.lineno, path)
    # initial state
    pre = {ast.unparse(s.targets[0]): ast.unparse(s.value) for s in pg.strip_doc(fn.body) if isinstance(s, ast.Assign)}
    for k, v in (("last_filename", "None"), ("curr_volume", "None"), ("slice_counter", "0")):
        if pre.get(k) != v:
            raise Untranslatable("recon-loop: initial value of %s is not %s" % (k, v), fn.lineno, path)
    stmts = _loop_stmts(loops[0].body, path, _Env())
    out = "From DV Require Import Model.C14_skel.\nDefinition gen_body : list sstmt :=\n  [%s].\n" % ";\n   ".join(stmts)
    return [pg.write_gen(ctx, "C14_gen", out)]


PRE = "From DV Require Import Base.Tactics Model.C14.\nOpen Scope nat_scope.\n"


def _recon_of(v, recon):
    """Header reconstruction size of volume v (differs between volumes)."""
    return (recon[0] + v % 2, recon[1] + (v // 2) % 2)


def _make_dataset(layout, hw=(5, 4), recon=None):
    import torch
    from torch.utils.data import Dataset

    class VolDataset(Dataset):
        ndim = 2

        def __init__(self):
            self.items = []
            self.volume_indices = {}
            s = 0
            for v, n in enumerate(layout):
                name = pathlib.Path("/data/vol_%02d.h5" % v)
                self.volume_indices[name] = range(s, s + n)
                for k in range(n):
                    self.items.append((str(name), v, k))
                s += n

        def __len__(self):
            return len(self.items)

        def __getitem__(self, i):
            name, v, k = self.items[i]
            marker = 100 * (v + 1) + k + 1
            d = {"filename": name, "slice_no": k, "marker": torch.tensor(float(marker)), "scaling_factor": torch.tensor(2.0 ** ((v + k) % 5 - 2))}
            if recon is not None:
                rv = _recon_of(v, recon)
                d["reconstruction_size"] = [rv[0], rv[1], 1]
            return d

    return VolDataset()


def _engine(hw):
    import torch
    from direct.engine import DoIterationOutput
    from direct.nn.mri_models import MRIModelEngine
    from .. import engine_harness as H

    class MarkerEngine(MRIModelEngine):
        def build_loss(self):
            return {}

        def _do_iteration(self, data, loss_fns=None, regularizer_fns=None):
            m = data["marker"].to(torch.float32)
            b = m.shape[0]
            h, w = hw
            base = torch.arange(h * w, dtype=torch.float32).reshape(1, h, w) / 1024.0
            img = (m.view(b, 1, 1) + base) / data["scaling_factor"].to(torch.float32).view(b, 1, 1)
            return DoIterationOutput(output_image=img, sensitivity_map=None, data_dict={})

    cfg = H.make_cfg(10)
    return MarkerEngine(cfg, torch.nn.Linear(1, 1), device="cpu")


def run_impl(layout, bs, world, rank, workers, crop, root):
    """Engine.predict with a marker model. Returns (per-volume [name idx, [markers]], batches as delivered, pixel check ok)."""
    import torch
    from direct.utils import communication
    from .. import engine_harness as H

    H.setup()
    hw = (5, 4)
    recon = (2, 2) if crop else None
    ds = _make_dataset(layout, hw, recon)
    eng = _engine(hw)
    old = (communication.get_rank, communication.get_world_size)
    communication.get_rank = lambda: rank
    communication.get_world_size = lambda: world
    d = tempfile.mkdtemp(prefix="c14_", dir=root)
    try:
        out = eng.predict(ds, pathlib.Path(d), checkpoint=None, num_workers=workers, batch_size=bs, crop="header" if crop else None)
        # the batches the sampler hands to the loader (for the model)
        bsamp = eng.build_batch_sampler(ds, batch_size=bs, sampler_type="sequential", limit_number_of_volumes=None)
        batches = [[int(i) for i in b] for b in bsamp]
    finally:
        communication.get_rank, communication.get_world_size = old
        shutil.rmtree(d, ignore_errors=True)
    names = [str(k) for k in ds.volume_indices]
    res = []
    pix_ok = True
    h, w = hw
    full = torch.arange(h * w, dtype=torch.float32).reshape(h, w) / 1024.0
    for vol, _loss, fname in out:
        v = names.index(str(fname))
        base = full
        if crop:
            rv = _recon_of(v, recon)
            lo2, lo1 = (h - rv[0]) // 2, (w - rv[1]) // 2
            base = full[lo2 : lo2 + rv[0], lo1 : lo1 + rv[1]]
        markers = []
        if vol.ndim != 4 or vol.shape[1] != 1 or tuple(vol.shape[2:]) != tuple(base.shape):
            pix_ok = False
        for k in range(vol.shape[0]):
            sl = vol[k, 0] if vol.ndim == 4 else vol[k]
            m = float(sl.reshape(-1)[0] - base.reshape(-1)[0]) if sl.numel() else -1.0
            markers.append(int(round(m)))
            if sl.shape == base.shape and not torch.allclose(sl - m, base, atol=1e-3):
                pix_ok = False
        res.append([v, markers])
    # written volumes: one file per volume, (slices, height, width), same values
    import h5py
    from direct.utils.writers import write_output_to_h5

    wd = tempfile.mkdtemp(prefix="c14w_", dir=root)
    try:
        write_output_to_h5(out, pathlib.Path(wd))
        for vol, _loss, fname in out:
            with h5py.File(os.path.join(wd, pathlib.Path(fname).name), "r") as f:
                rec = f["reconstruction"][()]
            if tuple(rec.shape) != (vol.shape[0],) + tuple(vol.shape[2:]) or not (rec == vol.numpy()[:, 0]).all():
                pix_ok = False
        if sorted(os.listdir(wd)) != sorted(pathlib.Path(f).name for _, _, f in out):
            pix_ok = False
    finally:
        shutil.rmtree(wd, ignore_errors=True)
    return res, batches, ds, pix_ok


def gen_cases(ctx):
    rng = ctx.rng
    cases = [([3, 5], 2, 1, 0, 0, False), ([1, 4, 2], 3, 2, 1, 0, True), ([2, 2], 2, 3, 2, 0, False)]
    for _ in range(ctx.n(45, 500)):
        layout = [rng.randint(1, 7) for _ in range(rng.randint(1, 5))]
        bs = rng.randint(1, 8)
        world = rng.choice([1, 1, 2, 3, 4])
        rank = rng.randrange(world)
        workers = rng.choice([0, 0, 0, 0, 0, 1, 2])
        cases.append((layout, bs, world, rank, workers, rng.random() < 0.3))
    return cases


def expected(layout, world, rank):
    d, r = divmod(len(layout), world)
    sizes = [d + 1 if i < r else d for i in range(world)]
    start = sum(sizes[:rank])
    return [[v, [100 * (v + 1) + k + 1 for k in range(layout[v])]] for v in range(start, start + sizes[rank])]


def correspond(ctx):
    from .. import shims

    shims.install(ctx.repo)
    corr = Corr()
    corr.rule = RULE
    root = os.path.join(ctx.work, "exp")
    os.makedirs(root, exist_ok=True)
    cases = gen_cases(ctx)
    impls, terms, results = [], [], []
    for (layout, bs, world, rank, workers, crop) in cases:
        try:
            res, batches, ds, pix_ok = run_impl(layout, bs, world, rank, workers, crop, root)
            impls.append(["ok", res])
            results.append((res, pix_ok))
            # model input: batches as (volume number, [markers])
            mb = []
            for b in batches:
                name, v, _ = ds.items[b[0]]
                mb.append((v, [100 * (ds.items[i][1] + 1) + ds.items[i][2] + 1 for i in b]))
        except Exception as e:  # noqa
            impls.append(["raises", type(e).__name__ + ": " + str(e)[:100]])
            results.append((None, False))
            mb = []
        terms.append("reconstruct nat nat nat Nat.eqb (fun x => x) (fun nm => nth nm %s 0) %s" % (coqrun.lit(layout), coqrun.lit(mb) if mb else "(@nil (nat * list nat))"))
    vals = coqrun.eval_sharded("c14_cases", PRE, terms, ctx.work, shard=100)
    for case, im, mv in zip(cases, impls, vals):
        layout, bs, world, rank, workers, crop = case
        model = ["raises"] if mv is None else ["ok", [[a, b] for (a, b) in mv["Some"]]]
        corr.dist("volumes", len(layout))
        corr.dist("workers", workers)
        corr.dist("world", world)
        corr.dist("crop", crop)
        im_c = im if im[0] == "ok" else ["raises"]
        corr.compare({"layout": layout, "bs": bs, "world": world, "rank": rank, "workers": workers, "crop": crop}, im_c, model, nontrivial=len(layout) >= 2 and any(n > bs for n in layout))
    ctx._c14 = list(zip(cases, impls, results))
    shutil.rmtree(root, ignore_errors=True)
    return corr


def oracles(ctx, deep):
    from .. import shims

    shims.install(ctx.repo)
    out, seen, runs = [], set(), 0

    def add(v):
        if v.key() not in seen:
            seen.add(v.key())
            out.append(v)

    root = os.path.join(ctx.work, "expo")
    os.makedirs(root, exist_ok=True)
    done = getattr(ctx, "_c14", None)
    if done is None or deep:
        cases = gen_cases(ctx)
        if deep:
            rng = ctx.rng
            for _ in range(150):
                layout = [rng.randint(1, 9) for _ in range(rng.randint(1, 6))]
                cases.append((layout, rng.randint(1, 8), rng.choice([1, 2, 3, 4]), 0, 0, rng.random() < 0.3))
                cases[-1] = cases[-1][:3] + (rng.randrange(cases[-1][2]),) + cases[-1][4:]
        done = []
        for case in cases:
            try:
                res, batches, ds, pix_ok = run_impl(*case, root)
                done.append((case, ["ok", res], (res, pix_ok)))
            except Exception as e:  # noqa
                done.append((case, ["raises", type(e).__name__ + ": " + str(e)[:100]], (None, False)))
    for case, im, (res, pix_ok) in sorted(done, key=lambda t: (sum(t[0][0]), t[0][1])):
        layout, bs, world, rank, workers, crop = case
        runs += 1
        call = "Engine.predict(dataset with volumes %s, batch_size=%d, workers=%d, crop=%s) on rank %d of %d" % (layout, bs, workers, "header" if crop else None, rank, world)
        want = expected(layout, world, rank)
        if im[0] != "ok":
            add(Violation("predict-runs", "%s raises %s" % (call, im[1]), {"call": call, "expected": want}, {"kind": "raises", "empty_rank": len(want) == 0}))
            continue
        if res != want:
            add(Violation("each-volume-once-in-order", "%s returned %s, expected %s" % (call, res, want), {"call": call, "observed": res, "expected": want}, {"kind": "volumes"}))
        elif not pix_ok:
            add(Violation("slice-rescaled-and-cropped", "%s: slices are not the model output times the slice's scaling factor, centre-cropped to the size requested for that volume, or the written h5 files differ from the returned volumes" % call, {"call": call}, {"kind": "pixels", "crop": crop}))
    shutil.rmtree(root, ignore_errors=True)
    ctx.oracle_runs = runs
    return out
