"""C10 — cropping and zero-padding are exact, centred and mutually inverse."""
import ast
import itertools

from .. import coqrun, py2gallina as pg, symex as X
from ..core import Corr, Untranslatable, Violation

ID = "C10"
LEVEL = "proof"
COQ_FILES = ["Tie/C10_defs.v", "Tie/C10_tie.v", "Props/C10_props.v"]
PROPS_FILES = ["C10_props.v"]
TRUSTED_BASE = [
    "vlib/symex.py (symbolic execution of the translated Python subset on the ast: the translator reads value / outcome trees, so local names, intermediates, helpers and the form of branches do not matter; its assumptions - pure expressions, opaque calls, no aliasing writes, try handlers not modelled - are listed in DESIGN.md 12.7; fail-closed)",
    "py2gallina unit 'crop/pad' (center_crop bounds and guard, pad_tensor's list as passed to F.pad, complex_center_crop start)",
    "hand-written model coq/Model/C10.v (window, pad1, crop1, crop_nd, pad_nd, F.pad pair convention), tied by exact correspondence on integer tensors",
    "torch indexing / torch.nn.functional.pad(mode='constant') / numpy slicing",
    "contract of the Fourier pair used by CropKspace/PadKspace: backward(forward(x)) = x (C01)",
]
ASSUMPTIONS = ["tensors are rectangular with all axis lengths >= 1", "F.pad pairs the pad list with axes last-axis-first (validated by the correspondence run)"]
RULE = "function x shape x target/bbox cases on iota tensors; non-trivial = the crop/pad changes the shape on at least one axis; distinct by (function, shape, arguments)"


def generate(ctx):
    """Window arithmetic read off the value trees of a symbolic execution (vlib/symex.py): what is sliced / padded / boxed,
    in terms of the sizes, whatever the local names, intermediates and helpers of the source."""
    path = ctx.src("direct/data/transforms.py")
    tree, _ = pg.parse_file(path)
    out = ""
    S = lambda n: ("sym", n)
    # ---- center_crop: raises unless 0 < m <= n on both axes, else data[..., lo2:hi2, lo1:hi1] ----
    t, _n = X.run_function(tree, path, "center_crop")
    t = X.drop_do(t)
    shp, dshp = S("shape"), ("attr", S("data"), "shape")
    leaf = {("sub", shp, X.const(-2)): "m2", ("sub", shp, X.const(-1)): "m1", ("sub", dshp, X.const(-2)): "n2", ("sub", dshp, X.const(-1)): "n1",
            ("sub", shp, X.const(0)): "m2", ("sub", shp, X.const(1)): "m1"}
    em = X.Emit(lambda v: leaf.get(v), path)

    sig = "(n2 n1 m2 m1 : Z)"
    out += "Definition cc_raises %s : bool := %s.\n" % (sig, em.raises(t))
    t = X.prune_raises(t)
    if t is None or t[0] != "ret":
        raise Untranslatable("center_crop: the window depends on a branch", None, path)
    v = t[1]
    ok = v[0] == "sub" and v[1] == S("data") and v[2][0] == "tuple" and len(v[2][1]) == 3 and v[2][1][0] == X.const(Ellipsis) and all(x[0] == "slice" and x[3] == X.NONE and X.NONE not in (x[1], x[2]) for x in v[2][1][1:])
    if not ok and v[0] == "sub" and v[1] == S("data") and v[2][0] == "tuple":
        # slice(a, b) objects
        items = [("slice", x[2][0], x[2][1], X.NONE) if x[0] == "call" and x[1] == S("slice") and len(x[2]) == 2 and not x[3] else x for x in v[2][1]]
        v = ("sub", v[1], ("tuple", tuple(items)))
        ok = len(items) == 3 and items[0] == X.const(Ellipsis) and all(x[0] == "slice" and x[3] == X.NONE and X.NONE not in (x[1], x[2]) for x in items[1:])
    if not ok:
        raise Untranslatable("center_crop: result is not data[..., a:b, c:d]: %s" % X.show(v)[:100], None, path)
    s2, s1 = v[2][1][1], v[2][1][2]
    for nm, e in (("cc_lo2", s2[1]), ("cc_hi2", s2[2]), ("cc_lo1", s1[1]), ("cc_hi1", s1[2])):
        out += "Definition %s %s : Z := %s.\n" % (nm, sig, em.z(e))
    # ---- pad_tensor: the list handed to F.pad for 2 and 3 target sizes ----
    for k in (2, 3):
        targs = ("tuple", tuple(S("t%d" % i) for i in range(k)))
        t, _n = X.run_function(tree, path, "pad_tensor", args={"target_shape": targs})
        t = X.prune_raises(X.drop_do(t))
        if t is None or t[0] != "ret":
            raise Untranslatable("pad_tensor: the padding depends on a branch", None, path)
        v = t[1]
        img = S("input_image")
        ok = v[0] == "call" and v[1] == ("attr", ("attr", ("attr", S("torch"), "nn"), "functional"), "pad") and v[2][:1] == (img,) and dict(v[3]).get("mode", X.const("constant")) == X.const("constant") and dict(v[3]).get("value") == S("value")
        pads = (list(v[2][1:]) + [dict(v[3]).get("pad")])[0] if ok else None
        if not ok or pads is None or pads[0] not in ("list", "tuple") or len(pads[1]) != 2 * k:
            raise Untranslatable("pad_tensor: result is not F.pad(input_image, [2k amounts], mode='constant', value=value): %s" % X.show(v)[:100], None, path)
        leaf = {S("t%d" % i): "t%d" % i for i in range(k)}
        for i in range(k):
            leaf[("sub", ("attr", img, "shape"), X.const(i - k))] = "i%d" % i
        emp = X.Emit(lambda x: leaf.get(x), path)
        params = " ".join(["t%d" % i for i in range(k)] + ["i%d" % i for i in range(k)])
        out += "Definition pad_list%d (%s : Z) : list Z := [%s].\n" % (k, params, "; ".join(emp.z(x) for x in pads[1]))
    # ---- complex_center_crop: per cropped axis, the start and the size written into the bounding box ----
    forms = set()
    hooks = {S("ensure_list"): lambda a, kw: a[0] if a and a[0][0] == "list" else None}
    for rank, offset, k in ((4, 1, 2), (5, 1, 3), (3, 0, 2), (5, 2, 2)):
        d = S("d0")
        attrs = {(d, "shape"): ("tuple", tuple(S("n%d" % i) for i in range(rank))), (d, "ndim"): X.const(rank)}
        ms = tuple(S("m%d" % i) for i in range(k))
        t, _n = X.run_function(tree, path, "complex_center_crop", args={"data_list": ("list", (d,)), "crop_shape": ("tuple", ms), "offset": X.const(offset)}, opaque={"crop_to_bbox"}, attrs=attrs, callhooks=hooks, assume=[(m, True) for m in ms])
        t = X.lift_ife(X.prune_raises(X.drop_do(t)))
        for conds, lf in X.leaves(t):
            v = lf[1]
            if v[0] == "call" and v[1][0] == "attr" and v[1][2] == "contiguous":
                v = v[1][1]
            if not (v[0] == "call" and v[1] == S("crop_to_bbox") and len(v[2]) == 2 and v[2][0] == d and v[2][1][0] == "list" and len(v[2][1][1]) == 2 * rank and not v[3]):
                raise Untranslatable("complex_center_crop: result is not crop_to_bbox(data, [starts.., sizes..]): %s" % X.show(v)[:120], None, path)
            box = v[2][1][1]
            for ax in range(rank):
                if offset <= ax < offset + k:
                    lm = {S("n%d" % ax): "n", S("m%d" % (ax - offset)): "m"}
                    e = X.Emit(lambda x: lm.get(x), path)
                    forms.add((e.z(box[ax]), e.z(box[rank + ax])))
                elif box[ax] != X.const(0) or box[rank + ax] != S("n%d" % ax):
                    raise Untranslatable("complex_center_crop: an axis outside the crop is not kept whole (axis %d of rank %d)" % (ax, rank), None, path)
    if len(forms) != 1:
        raise Untranslatable("complex_center_crop: start / size expressions differ between axes or ranks: %s" % sorted(forms), None, path)
    starts, sizes = forms.pop()
    out += "Definition ccc_start (n m : Z) : Z := %s.\nDefinition ccc_size (n m : Z) : Z := %s.\n" % (starts, sizes)
    # the condition under which complex_center_crop rejects its arguments (rank 4, crop over axes 1 and 2, both crop sizes given)
    d = S("d0")
    attrs = {(d, "shape"): ("tuple", tuple(S("n%d" % i) for i in range(4))), (d, "ndim"): X.const(4)}
    t, _n = X.run_function(tree, path, "complex_center_crop", args={"data_list": ("list", (d,)), "crop_shape": ("tuple", (S("m0"), S("m1"))), "offset": X.const(1), "contiguous": X.const(False)}, opaque={"crop_to_bbox"}, attrs=attrs, callhooks=hooks, assume=[(S("m0"), True), (S("m1"), True)])
    lm = {S("n1"): "na", S("n2"): "nb", S("m0"): "ma", S("m1"): "mb"}
    out += "Definition ccc_raises (na nb ma mb : Z) : bool := %s.\n" % X.Emit(lambda x: lm.get(x), path).raises(X.drop_do(t))
    return [pg.write_gen(ctx, "C10_gen", out)]


# ------------------------------------------------------------------------------------------------
PRE = "From DV Require Import Base.Tactics Base.NList Model.C10.\nFrom G Require Import C10_gen C10_defs.\nOpen Scope Z_scope.\n"


def _iota(shape):
    import torch

    n = 1
    for s in shape:
        n *= s
    return (torch.arange(1, n + 1, dtype=torch.float32)).reshape(shape)


def _tolist(t):
    def conv(x):
        if isinstance(x, list):
            return [conv(y) for y in x]
        return int(x)

    return conv(t.tolist())


def gen_cases(ctx):
    rng = ctx.rng
    cases = []
    # center_crop: leading dims 0..2, sizes 1..7, every m in 0..n+1 (incl. rejected)
    for _ in range(ctx.n(150, 1500)):
        d = rng.choice([0, 1, 1, 2])
        lead = [rng.randint(1, 2) for _ in range(d)]
        n2, n1 = rng.randint(1, 7), rng.randint(1, 7)
        m2, m1 = rng.randint(0, n2 + 1), rng.randint(0, n1 + 1)
        cases.append(("center_crop", lead + [n2, n1], (m2, m1)))
    # pad_tensor: 2 or 3 target axes; targets smaller/equal/larger
    for _ in range(ctx.n(150, 1500)):
        k = rng.choice([2, 2, 3])
        d = rng.choice([0, 1]) if k == 3 else rng.choice([0, 1, 2])
        lead = [rng.randint(1, 2) for _ in range(d)]
        inp = [rng.randint(1, 5) for _ in range(k)]
        tgt = [max(1, n + rng.choice([-1, 0, 0, 1, 2, 3, 4])) for n in inp]
        cases.append(("pad_tensor", lead + inp, (tuple(tgt), rng.choice([0, 0, 7]))))
    # pad then crop (2-D): every (n, N) pair on both axes up to 6 is covered over the run
    for n2 in range(1, 5):
        for N2 in range(n2, n2 + 4):
            n1, N1 = rng.randint(1, 5), 0
            N1 = n1 + rng.randint(0, 3)
            cases.append(("pad_crop", [n2, n1], ((N2, N1),)))
            cases.append(("pad_crop", [n1, n2], ((N1, N2),)))
    # crop_to_bbox: rank 1..3, coordinates in [-4, n+4]
    for _ in range(ctx.n(250, 3000)):
        r = rng.choice([1, 1, 2, 2, 3])
        shape = [rng.randint(1, 5) for _ in range(r)]
        cs = [rng.randint(-4, n + 3) for n in shape]
        ss = [rng.randint(1, 5) for _ in range(r)]
        cases.append(("crop_to_bbox", shape, (tuple(cs), tuple(ss), rng.choice([0, 9]), rng.choice(["torch", "numpy"]))))
    # complex_center_crop: (coil, h, w, 2) / (coil, s, h, w, 2)
    for _ in range(ctx.n(100, 1000)):
        three = rng.random() < 0.3
        shape = [rng.randint(1, 2)] + [rng.randint(1, 6) for _ in range(3 if three else 2)] + [2]
        crop = [rng.choice([0, rng.randint(1, n + 1)]) for n in shape[1:-1]]
        cases.append(("complex_center_crop", shape, (tuple(crop), 1)))
    return cases


def run_impl(case):
    import numpy as np
    import torch
    from direct.data import transforms as T
    from direct.data.bbox import crop_to_bbox

    fn, shape, args = case
    x = _iota(shape)
    try:
        if fn == "center_crop":
            return ["ok", _tolist(T.center_crop(x, args[0:2]))]
        if fn == "pad_tensor":
            return ["ok", _tolist(T.pad_tensor(x, args[0], value=args[1]))]
        if fn == "pad_crop":
            return ["ok", _tolist(T.center_crop(T.pad_tensor(x, args[0]), shape[-2:]))]
        if fn == "crop_to_bbox":
            cs, ss, v, kind = args
            data = x if kind == "torch" else x.numpy()
            out = crop_to_bbox(data, list(cs) + list(ss), pad_value=v)
            return ["ok", _tolist(torch.as_tensor(np.asarray(out)))]
        if fn == "complex_center_crop":
            return ["ok", _tolist(T.complex_center_crop(x, args[0], offset=args[1]))]
    except Exception as e:  # noqa
        return ["raises", type(e).__name__]
    raise AssertionError(fn)


def model_term(case):
    fn, shape, args = case
    x = _tolist(_iota(shape))
    lit = coqrun.lit
    r = len(shape)
    if fn == "center_crop":
        d = r - 2
        return "center_crop_gen %d%%nat %d %d %d %d (%s : nl (%d + 2) Z)" % (d, shape[-2], shape[-1], args[0], args[1], lit(x), d)
    if fn == "pad_tensor":
        tgt, v = args
        k = len(tgt)
        return "Some (pad_tensor_gen%d %d%%nat %s %s %d (%s : nl %d Z))" % (k, r, " ".join(map(str, tgt)), " ".join(str(n) for n in shape[-k:]), v, lit(x), r)
    if fn == "pad_crop":
        (tgt,) = args
        return "center_crop_gen 0%%nat %d %d %d %d (pad_tensor_gen2 2%%nat %d %d %d %d 0 (%s : nl 2 Z))" % (tgt[0], tgt[1], shape[0], shape[1], tgt[0], tgt[1], shape[0], shape[1], lit(x))
    if fn == "crop_to_bbox":
        cs, ss, v, _ = args
        return "Some (@crop_nd Z %d%%nat %s %s %d (%s : nl %d Z))" % (r, lit(list(cs)), lit(list(ss)), v, lit(x), r)
    if fn == "complex_center_crop":
        crop, offset = args
        cs, ss = [], []
        for ax, n in enumerate(shape):
            j = ax - offset
            if 0 <= j < len(crop):
                m = crop[j] if crop[j] else n
                cs.append("ccc_start %d %d" % (n, m))
                ss.append("ccc_size %d %d" % (n, m))
            else:
                cs.append("0")
                ss.append(str(n))
        return "complex_center_crop_gen %d%%nat [%s] [%s] (%s : nl %d Z)" % (r, "; ".join(cs), "; ".join(ss), lit(x), r)
    raise AssertionError(fn)


def correspond(ctx):
    from .. import shims

    shims.install(ctx.repo)
    corr = Corr()
    corr.rule = RULE
    cases = gen_cases(ctx)
    impl = [run_impl(c) for c in cases]
    vals = coqrun.eval_sharded("c10_cases", PRE, [model_term(c) for c in cases], ctx.work, gen_dir=ctx.gen_dir, shard=150)
    for case, im, mv in zip(cases, impl, vals):
        fn, shape, args = case
        model = ["raises"] if mv is None else ["ok", mv["Some"]]
        im_c = ["raises"] if im[0] == "raises" else im
        nontriv = im[0] == "ok" and fn != "crop_to_bbox" or (fn == "crop_to_bbox" and (any(c < 0 for c in args[0]) or any(c + s > n for c, s, n in zip(args[0], args[1], shape))))
        corr.dist("function", fn)
        corr.dist("rank", len(shape))
        corr.dist("impl_kind", im[0] if im[0] == "ok" else "raises:" + im[1])
        corr.compare({"fn": fn, "shape": shape, "args": args}, im_c, model, bool(nontriv))
    return corr


# ------------------------------------------------------------------------------------------------
def oracles(ctx, deep):
    import numpy as np
    import torch
    from .. import shims

    shims.install(ctx.repo)
    from direct.data import transforms as T
    from direct.data.bbox import crop_to_bbox

    out, seen, runs = [], set(), 0

    def add(v):
        if v.key() not in seen:
            seen.add(v.key())
            out.append(v)

    lim = 9 if deep else 6
    # centre crop = central window with start floor((n-m)/2); pad-then-crop = identity; pad puts data at floor(diff/2)
    for n2, n1 in itertools.product(range(1, lim + 1), repeat=2):
        x = _iota([2, n2, n1])
        for m2, m1 in itertools.product(range(1, n2 + 1), range(1, n1 + 1)):
            if not deep and (m2 + m1 + n2 + n1) % 3:
                continue
            runs += 1
            try:
                got = T.center_crop(x, (m2, m1))
                lo2, lo1 = (n2 - m2) // 2, (n1 - m1) // 2
                want = x[:, lo2 : lo2 + m2, lo1 : lo1 + m1]
                if got.shape != want.shape or not torch.equal(got, want):
                    add(Violation("center-crop-window", "center_crop of %dx%d to %dx%d is not the central window starting at floor((n-m)/2)" % (n2, n1, m2, m1), {"call": "center_crop(iota(2,%d,%d), (%d,%d))" % (n2, n1, m2, m1), "observed": _tolist(got), "expected": _tolist(want)}, {"fn": "center_crop"}))
            except Exception as e:  # noqa
                add(Violation("center-crop-window", "center_crop raises %s for a valid crop %dx%d -> %dx%d" % (type(e).__name__, n2, n1, m2, m1), {"call": "center_crop(iota(2,%d,%d), (%d,%d))" % (n2, n1, m2, m1)}, {"fn": "center_crop", "raises": True}))
        for N2, N1 in itertools.product(range(n2, n2 + 4), range(n1, n1 + 4)):
            runs += 1
            try:
                p = T.pad_tensor(x, (N2, N1))
                back = T.center_crop(p, (n2, n1))
                if tuple(p.shape[-2:]) != (N2, N1) or not torch.equal(back, x):
                    add(Violation("pad-crop-identity", "center_crop(pad_tensor(x, (%d,%d)), (%d,%d)) != x" % (N2, N1, n2, n1), {"call": "center_crop(pad_tensor(iota(2,%d,%d), (%d,%d)), (%d,%d))" % (n2, n1, N2, N1, n2, n1), "observed": _tolist(back), "expected": _tolist(x)}, {"fn": "pad_tensor", "odd_diff": bool((N2 - n2) % 2 or (N1 - n1) % 2)}))
                pv = T.pad_tensor(x, (N2, N1), value=5.0)
                if float(pv.sum() - x.sum()) != 5.0 * 2 * (N2 * N1 - n2 * n1):
                    add(Violation("pad-value", "pad_tensor ignores the pad value", {"call": "pad_tensor(iota(2,%d,%d), (%d,%d), value=5)" % (n2, n1, N2, N1)}, {"fn": "pad_tensor"}))
            except Exception as e:  # noqa
                add(Violation("pad-crop-identity", "pad/crop raises %s" % type(e).__name__, {"call": "center_crop(pad_tensor(iota(2,%d,%d), (%d,%d)), (%d,%d))" % (n2, n1, N2, N1, n2, n1)}, {"fn": "pad_tensor", "raises": True}))
    # 3-D pad then complex_center_crop back
    for _ in range(ctx.n(60, 600)):
        shp = [ctx.rng.randint(1, 4) for _ in range(3)]
        tgt = [n + ctx.rng.randint(0, 3) for n in shp]
        x = _iota([2] + shp)
        runs += 1
        try:
            p = T.pad_tensor(x, tuple(tgt))
            back = crop_to_bbox(p, [0] + [(N - n) // 2 for N, n in zip(tgt, shp)] + [2] + shp)
            if not torch.equal(back, x):
                add(Violation("pad-crop-identity", "3-D pad_tensor to %s then centre window of %s != x" % (tgt, shp), {"shape": shp, "target": tgt, "observed": _tolist(back), "expected": _tolist(x)}, {"fn": "pad_tensor", "odd_diff": any((N - n) % 2 for N, n in zip(tgt, shp))}))
        except Exception as e:  # noqa
            add(Violation("pad-crop-identity", "3-D pad/crop raises %s" % type(e).__name__, {"shape": shp, "target": tgt}, {"fn": "pad_tensor", "raises": True}))
    # bbox crop = addressed window, pad value outside
    rng = ctx.rng
    for _ in range(ctx.n(400, 4000) * (3 if deep else 1)):
        r = rng.choice([1, 2, 2, 3])
        shape = [rng.randint(1, 5) for _ in range(r)]
        cs = [rng.randint(-5, n + 4) for n in shape]
        ss = [rng.randint(1, 5) for _ in range(r)]
        x = _iota(shape)
        want = np.full(ss, 9.0, dtype=np.float32)
        xn = x.numpy()
        for idx in itertools.product(*[range(s) for s in ss]):
            src = tuple(c + i for c, i in zip(cs, idx))
            if all(0 <= a < n for a, n in zip(src, shape)):
                want[idx] = xn[src]
        runs += 1
        overlap = all(c < n and c + s > 0 for c, s, n in zip(cs, ss, shape))
        for kind, data in (("torch", x), ("numpy", xn)):
            try:
                got = np.asarray(crop_to_bbox(data, cs + ss, pad_value=9))
                if got.shape != want.shape or not np.array_equal(got, want):
                    add(Violation("bbox-window", "crop_to_bbox(%s %s, %s) differs from the addressed window with pad value" % (kind, shape, cs + ss), {"shape": shape, "bbox": cs + ss, "observed": got.tolist(), "expected": want.tolist()}, {"fn": "crop_to_bbox", "box_overlaps_data": overlap}))
            except Exception as e:  # noqa
                add(Violation("bbox-window", "crop_to_bbox(%s %s, %s) raises %s" % (kind, shape, cs + ss, type(e).__name__), {"shape": shape, "bbox": cs + ss, "expected": want.tolist()}, {"fn": "crop_to_bbox", "raises": True, "box_overlaps_data": overlap}))
    # random crops (uniform and gaussian sampler): what comes back is a window of the data, never padding
    for t in range(ctx.n(60, 600)):
        three = rng.random() < 0.3
        sp = [rng.randint(2, 5)] * (1 if three else 0) + [rng.randint(3, 9), rng.randint(3, 9)]
        crop = [rng.randint(1, d) for d in sp]
        if rng.random() < 0.4:
            j = rng.randrange(len(sp))
            crop[j] = sp[j]  # an axis that is not cropped at all
        sampler = rng.choice(["uniform", "gaussian", "gaussian"])
        seed = rng.randrange(10**6)
        n = 1
        for d in sp:
            n *= d
        data = (torch.arange(2 * n * 2, dtype=torch.float32) + 1.0).reshape(2, *sp, 2)
        runs += 1
        cfg = {"shape": [2] + sp + [2], "crop": crop, "sampler": sampler, "seed": seed}
        try:
            got = T.complex_random_crop(data, crop, sampler=sampler, seed=seed)
        except Exception as e:  # noqa
            add(Violation("random-crop-window", "complex_random_crop raises %s for %s" % (type(e).__name__, cfg), {"config": cfg}, {"fn": "complex_random_crop", "kind": "raises"}))
            continue
        ok = list(got.shape) == [2] + crop + [2] and bool((got != 0).all())
        if ok:
            # all values are distinct: the first element addresses the window
            first = int(got.reshape(-1)[0].item()) - 1
            idx = np.unravel_index(first, data.shape)
            sl = tuple([slice(None)] + [slice(int(a), int(a) + c) for a, c in zip(idx[1:-1], crop)] + [slice(None)])
            ok = tuple(idx[1:-1]) is not None and idx[0] == 0 and idx[-1] == 0 and data[sl].shape == got.shape and bool(torch.equal(data[sl], got))
        if not ok:
            add(Violation("random-crop-window", "complex_random_crop(%s sampler) does not return a window of the data (zero-filled border or wrong shape %s) for %s" % (sampler, list(got.shape), cfg), {"config": cfg}, {"fn": "complex_random_crop", "kind": "window", "sampler": sampler}))
    # CropKspace / PadKspace = forward(crop/pad(backward(kspace)))
    out_k, runs_k = _kspace_oracles(ctx, deep)
    for v in out_k:
        add(v)
    ctx.oracle_runs = runs + runs_k
    return out


def _kspace_oracles(ctx, deep):
    import functools

    import torch
    from direct.data import mri_transforms as M
    from direct.data import transforms as T

    out, runs = [], 0
    rng = ctx.rng
    for _ in range(ctx.n(60, 600) * (3 if deep else 1)):
        h, w = rng.randint(2, 9), rng.randint(2, 9)
        coils = rng.randint(1, 3)
        three = rng.random() < 0.3
        nz = rng.randint(1, 3)
        g = torch.Generator().manual_seed(rng.randrange(1 << 30))
        k = torch.randn(*((coils, nz, h, w, 2) if three else (coils, h, w, 2)), generator=g)
        centered = rng.random() < 0.7
        fwd = functools.partial(T.fft2, centered=centered)
        bwd = functools.partial(T.ifft2, centered=centered)
        dim = (2, 3) if three else (1, 2)
        runs += 1
        try:
            # pad targets: larger, equal or smaller than the data on each axis (pad_tensor only pads where larger)
            H, W = max(1, h + rng.randint(-2, 3)), max(1, w + rng.randint(-2, 3))
            tgt = (H, W) if not three or rng.random() < 0.5 else (max(1, nz + rng.randint(-1, 2)), H, W)
            s = M.PadKspace(tgt, forward_operator=fwd, backward_operator=bwd)({"kspace": k.clone()})
            img = bwd(s["kspace"], dim=dim)
            want = T.view_as_real(T.pad_tensor(T.view_as_complex(bwd(k, dim=dim)), tgt))
            if img.shape != want.shape or not torch.allclose(img, want, atol=1e-4):
                out.append(Violation("padkspace-is-image-pad", "backward(PadKspace(k)) != pad(backward(k)) for k-space %s -> pad shape %s" % (list(k.shape[:-1]), list(tgt)), {"shape": list(k.shape), "target": list(tgt), "centered": centered, "observed_shape": list(img.shape), "expected_shape": list(want.shape)}, {"fn": "PadKspace", "mixed": any(a < b for a, b in zip(tgt[-2:], (h, w)))}))
            if not three and H >= h and W >= w:
                # and cropping back returns the original k-space
                c = M.CropKspace((h, w), forward_operator=fwd, backward_operator=bwd, image_space_center_crop=True)({"kspace": s["kspace"].clone()})
                if c["kspace"].shape != k.shape or not torch.allclose(c["kspace"], k, atol=1e-4):
                    out.append(Violation("crop-after-pad-kspace", "CropKspace(PadKspace(k)) != k for %dx%d via %dx%d" % (h, w, H, W), {"shape": list(k.shape), "target": [H, W], "centered": centered}, {"fn": "CropKspace", "odd_diff": bool((H - h) % 2 or (W - w) % 2)}))
            mh, mw = rng.randint(1, h), rng.randint(1, w)
            c2 = M.CropKspace((mh, mw), forward_operator=fwd, backward_operator=bwd, image_space_center_crop=True)({"kspace": k.clone()})
            img2 = bwd(c2["kspace"], dim=dim)
            want2 = T.complex_center_crop(bwd(k, dim=dim), ((nz, mh, mw) if three else (mh, mw)))
            if img2.shape != want2.shape or not torch.allclose(img2, want2, atol=1e-4):
                out.append(Violation("cropkspace-is-image-crop", "backward(CropKspace(k)) != crop(backward(k)) for k-space %s, crop (%d, %d)" % (list(k.shape[:-1]), mh, mw), {"shape": list(k.shape), "crop": [mh, mw], "centered": centered}, {"fn": "CropKspace"}))
            # seeded random crop: the same file name gives the same window, and the window is a window of the image
            c3 = M.CropKspace((mh, mw), forward_operator=fwd, backward_operator=bwd, image_space_center_crop=False, random_crop_sampler_type="uniform")
            a1 = c3({"kspace": k.clone(), "filename": "file_a"})["kspace"]
            a2 = c3({"kspace": k.clone(), "filename": "file_a"})["kspace"]
            if a1.shape != a2.shape or not torch.equal(a1, a2):
                out.append(Violation("random-crop-seeded", "CropKspace random crop differs between two calls with the same file name", {"shape": list(k.shape), "crop": [mh, mw]}, {"fn": "CropKspace-random"}))
            im3 = bwd(a1, dim=dim)
            full = bwd(k, dim=dim)
            found = False
            for oy in range(h - mh + 1):
                for ox in range(w - mw + 1):
                    win = full[..., oy : oy + mh, ox : ox + mw, :]
                    if win.shape == im3.shape and torch.allclose(win, im3, atol=1e-4):
                        found = True
            if not found:
                out.append(Violation("random-crop-window", "CropKspace random crop is not a window of the back-projected image", {"shape": list(k.shape), "crop": [mh, mw]}, {"fn": "CropKspace-random"}))
        except Exception as e:  # noqa
            out.append(Violation("kspace-crop-pad-raises", "CropKspace/PadKspace raises %s: %s" % (type(e).__name__, str(e)[:100]), {"shape": list(k.shape)}, {"fn": "kspace", "raises": type(e).__name__}))
    # a crop larger than the data has start index floor(diff / 2) < 0 and is rejected (never answered by an off-centre,
    # zero-filled window): differences of -1 (where truncation and floor differ), -2, -3 on one or both axes
    for h, w in ((4, 5), (6, 7), (3, 3), (1, 2)):
        for dh, dw in ((1, 0), (0, 1), (1, 1), (2, 0), (0, 3), (1, -1), (-1, 1), (2, 1)):
            if h + dh < 1 or w + dw < 1:
                continue
            k = (torch.arange(2 * h * w * 2, dtype=torch.float32) + 1.0).reshape(2, h, w, 2)
            for name, call in (("complex_center_crop", lambda: T.complex_center_crop(k, (h + dh, w + dw))),
                               ("CropKspace", lambda: M.CropKspace((h + dh, w + dw), forward_operator=functools.partial(T.fft2, centered=True), backward_operator=functools.partial(T.ifft2, centered=True), image_space_center_crop=True)({"kspace": k.clone()})["kspace"])):
                runs += 1
                try:
                    got = call()
                    out.append(Violation("oversize-crop-rejected", "%s of %dx%d data to the larger shape %dx%d returns a tensor of shape %s instead of raising ValueError (start index floor(diff/2) is negative)" % (name, h, w, h + dh, w + dw, list(got.shape)), {"call": name, "data_shape": [2, h, w, 2], "crop": [h + dh, w + dw], "observed_shape": list(got.shape)}, {"fn": name, "kind": "oversize", "diff": [-dh, -dw]}))
                except ValueError:
                    pass
                except Exception as e:  # noqa
                    out.append(Violation("oversize-crop-rejected", "%s of %dx%d data to the larger shape %dx%d raises %s instead of ValueError" % (name, h, w, h + dh, w + dw, type(e).__name__), {"call": name, "data_shape": [2, h, w, 2], "crop": [h + dh, w + dw]}, {"fn": name, "kind": "oversize-raises"}))
    # one transform object over a sequence of samples of different matrix size / number of slices / dimensionality:
    # every call must equal the call on a freshly built object (nothing resolved for one sample may serve the next)
    for _ in range(ctx.n(25, 250)):
        centered = rng.random() < 0.7
        fwd = functools.partial(T.fft2, centered=centered)
        bwd = functools.partial(T.ifft2, centered=centered)
        mh, mw = rng.randint(1, 4), rng.randint(1, 4)
        kinds = {"CropKspace": lambda: M.CropKspace((mh, mw), forward_operator=fwd, backward_operator=bwd, image_space_center_crop=True),
                 "PadKspace": lambda: M.PadKspace((mh + 6, mw + 6), forward_operator=fwd, backward_operator=bwd)}
        for name, make in kinds.items():
            shared = make()
            hist = []
            for step in range(rng.randint(2, 4)):
                three = rng.random() < 0.6
                h, w, nz, coils = rng.randint(4, 8), rng.randint(4, 8), rng.randint(1, 5), rng.randint(1, 3)
                g = torch.Generator().manual_seed(rng.randrange(1 << 30))
                k = torch.randn(*((coils, nz, h, w, 2) if three else (coils, h, w, 2)), generator=g)
                hist.append(list(k.shape))
                runs += 1
                try:
                    want = make()({"kspace": k.clone()})["kspace"]
                except Exception:  # noqa  (the fresh object rejects the sample: nothing to compare)
                    continue
                try:
                    got = shared({"kspace": k.clone()})["kspace"]
                    bad = got.shape != want.shape or not torch.allclose(got, want, atol=1e-5)
                    what = "returns shape %s where a fresh object returns %s" % (list(got.shape), list(want.shape)) if got.shape != want.shape else "returns other values than a fresh object"
                except Exception as e:  # noqa
                    bad, what = True, "raises %s where a fresh object answers" % type(e).__name__
                if bad:
                    out.append(Violation("transform-object-history", "%s((%d, %d)) used for samples of shapes %s: call %d %s" % (name, mh, mw, hist, len(hist), what), {"transform": name, "crop_or_pad": [mh, mw], "sample_shapes": hist, "centered": centered}, {"fn": name, "kind": "history"}))
                    break
    return out, runs
