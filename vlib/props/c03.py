"""C03 — under-sampling never leaks or alters k-space."""
import struct

from .. import coqrun, opir, py2gallina as pg
from ..core import Corr, Violation

ID = "C03"
LEVEL = "proof"
COQ_FILES = ["Tie/C03_tie.v", "Props/C03_props.v"]
PROPS_FILES = ["C03_props.v"]
TRUSTED_BASE = [
    "vlib/symex.py (symbolic execution of the translated Python subset on the ast: the translator reads value / outcome trees, so local names, intermediates, helpers and the form of branches do not matter; its assumptions - pure expressions, opaque calls, no aliasing writes, try handlers not modelled - are listed in DESIGN.md 12.7; fail-closed)",
    "vlib/opir.py (AST -> operator-expression IR of coq/Base/OpIR.v) for apply_mask, apply_padding, ApplyMaskModule.forward, MRIModelEngine._forward_operator/_backward_operator, MRILogLikelihood.forward, ConjGrad._A_star_op/_A_star_A_op/B_op",
    "torch.where(mask == 0, 0, x) is element-wise selection with broadcasting (the selection model coq/Model/C03.v is tied by bit-exact correspondence incl. -0.0, NaN and inf values, bool / int / float masks, every broadcastable mask shape)",
    "the forward/backward operators, expand/reduce and arithmetic are arbitrary functions in the non-interference theorem (nothing about them is assumed)",
]
ASSUMPTIONS = ["the mask given as a callable is evaluated once, on shape kspace.shape[1:] with the given seed (checked structurally by the translator and exercised by an oracle)"]
RULE = "apply_mask / apply_padding / ApplyMaskModule on tensors of rank 3-5 with every broadcastable mask shape, mask dtypes bool/int/float incl. -0.0 and NaN entries, data incl. -0.0, inf, denormals; compared bit-exactly through element ids; non-trivial = mask neither all-zero nor all-one; distinct by (function, shapes, seed)"


def generate(ctx):
    text, terms = opir.standard_terms(ctx)
    return [pg.write_gen(ctx, "C03_gen", text)]


PRE = "From DV Require Import Base.Tactics Model.C03.\nOpen Scope nat_scope.\n"

SPECIAL = [0.0, -0.0, 1.0, -1.0, float("inf"), float("-inf"), 1e-45, -1e-45, 3.4028234663852886e38, 1.1754943508222875e-38, 0.5, 2.0]


def _bits(x):
    return struct.unpack("<I", struct.pack("<f", x))[0]


def gen_cases(ctx):
    rng = ctx.rng
    cases = []
    for _ in range(ctx.n(220, 3000)):
        fn = rng.choice(["apply_mask", "apply_mask", "apply_padding", "module"])
        r = rng.choice([3, 4, 4, 5])  # (coil, [slice], h, w, 2) or batched
        shape = [rng.randint(1, 3) for _ in range(r - 1)] + [2]
        # broadcastable mask: each axis either the data size or 1; may have fewer leading axes
        drop = rng.randint(0, 1) if r > 3 else 0
        mshape = [n if rng.random() < 0.6 else 1 for n in shape[drop:]]
        mdtype = rng.choice(["bool", "int", "float", "float"])
        cases.append((fn, shape, mshape, mdtype, rng.randrange(1 << 30)))
    return cases


def _make(case):
    import random

    import torch

    fn, shape, mshape, mdtype, seed = case
    rng = random.Random(seed)
    n = 1
    for s in shape:
        n *= s
    vals = [rng.choice(SPECIAL) if rng.random() < 0.4 else rng.uniform(-9, 9) for _ in range(n)]
    x = torch.tensor(vals, dtype=torch.float32).reshape(shape)
    mn = 1
    for s in mshape:
        mn *= s
    kind = rng.choice(["mixed", "mixed", "mixed", "zeros", "ones"])
    if mdtype == "bool":
        mv = [{"zeros": False, "ones": True}.get(kind, rng.random() < 0.5) for _ in range(mn)]
        m = torch.tensor(mv, dtype=torch.bool).reshape(mshape)
    elif mdtype == "int":
        mv = [{"zeros": 0, "ones": 1}.get(kind, rng.choice([0, 1, 1, 2])) for _ in range(mn)]
        m = torch.tensor(mv, dtype=torch.int64).reshape(mshape)
    else:
        mv = [{"zeros": 0.0, "ones": 1.0}.get(kind, rng.choice([0.0, 1.0, -0.0, float("nan"), 0.5, 1.0])) for _ in range(mn)]
        m = torch.tensor(mv, dtype=torch.float32).reshape(mshape)
    return x, m


def run_impl(case):
    import torch
    from direct.data import mri_transforms as M
    from direct.data import transforms as T

    fn, shape, mshape, mdtype, seed = case
    x, m = _make(case)
    if fn == "apply_mask":
        y = T.apply_mask(x, m, return_mask=False)
        hit = (m == 0)
    elif fn == "module":
        y = M.ApplyMaskModule()({"kspace": x, "sampling_mask": m})["masked_kspace"]
        hit = (m == 0)
    else:
        y = T.apply_padding(x, m)
        hit = (m == 1)
    xb = x.reshape(-1).view(torch.int32).tolist()
    yb = y.reshape(-1).view(torch.int32).tolist()
    zero_bits = 0
    ids = []
    for i, (a, b) in enumerate(zip(xb, yb)):
        if b == a and a != zero_bits:
            ids.append(i + 1)
        elif b == zero_bits:
            ids.append(0)
        else:
            ids.append(-1)
    # broadcast index table: position in data -> position in mask
    idx = torch.arange(m.numel()).reshape(m.shape).expand(x.shape[len(x.shape) - len(m.shape) :] if len(m.shape) < len(x.shape) else x.shape)
    idx = idx.expand(x.shape).reshape(-1).tolist()
    in_ids = [(i + 1) if xb[i] != zero_bits else 0 for i in range(len(xb))]
    return ids, in_ids, idx, [bool(v) for v in hit.reshape(-1).tolist()], list(y.shape)


def correspond(ctx):
    from .. import shims

    shims.install(ctx.repo)
    corr = Corr()
    corr.rule = RULE
    cases = gen_cases(ctx)
    impls, terms = [], []
    for c in cases:
        try:
            ids, in_ids, idx, hit, yshape = run_impl(c)
            impls.append(["ok", ids] if yshape == c[1] else ["shape", yshape])
            terms.append("where_hit nat bool 0 (fun b => b) false (fun i => nth i %s 0) %s %s" % (coqrun.lit(idx), coqrun.lit(hit), coqrun.lit(in_ids)))
        except Exception as e:  # noqa
            impls.append(["raises", type(e).__name__ + ": " + str(e)[:80]])
            terms.append("@nil nat")
    vals = coqrun.eval_sharded("c03_cases", PRE, terms, ctx.work, shard=150)
    for c, im, mv in zip(cases, impls, vals):
        corr.dist("function", c[0])
        corr.dist("mask_dtype", c[3])
        corr.dist("rank", len(c[1]))
        corr.compare({"fn": c[0], "shape": c[1], "mask_shape": c[2], "mask_dtype": c[3], "seed": c[4]}, im, ["ok", mv], nontrivial=True)
    return corr


def oracles(ctx, deep):
    import functools

    import numpy as np
    import torch
    from .. import shims

    shims.install(ctx.repo)
    from direct.data import transforms as T

    out, seen, runs = [], set(), 0

    def add(v):
        if v.key() not in seen:
            seen.add(v.key())
            out.append(v)

    rng = ctx.rng
    # 1. selection semantics, idempotence, mask given as a function with a seed
    for case in gen_cases(ctx)[: ctx.n(150, 1500)]:
        runs += 1
        x, m = _make(case)
        try:
            x_before = x.clone()
            y = T.apply_mask(x, m, return_mask=False)
            if not torch.equal(x.view(torch.int32), x_before.view(torch.int32)):
                # masking must not alter the k-space it is given: the caller masks it again with another mask
                add(Violation("mask-alters-input", "apply_mask(return_mask=False) changes the k-space tensor it is given, shape %s mask %s %s" % (case[1], case[2], case[3]), {"case": list(case)}, {"fn": "apply_mask-inplace"}))
                x = x_before.clone()
                y = T.apply_mask(x.clone(), m, return_mask=False)
            y_keep = y.clone()
            ym, _ = T.apply_mask(x, m, return_mask=True)
            if not torch.equal(x.view(torch.int32), x_before.view(torch.int32)) or not torch.equal(ym.view(torch.int32), y_keep.view(torch.int32)):
                add(Violation("mask-alters-input", "apply_mask(return_mask=True) changes its input or disagrees with return_mask=False, shape %s mask %s %s" % (case[1], case[2], case[3]), {"case": list(case)}, {"fn": "apply_mask-inplace"}))
                x = x_before.clone()
            y2 = T.apply_mask(y, m, return_mask=False)
            hit = (m == 0).expand_as(x) if m.dim() == x.dim() else (m == 0).expand(x.shape)
            xb, yb = x.view(torch.int32), y.view(torch.int32)
            ok_support = bool(torch.equal(yb[~hit], xb[~hit]))
            ok_zero = bool((yb[hit] == 0).all())
            if not ok_support or not ok_zero or not torch.equal(y2.view(torch.int32), yb):
                add(Violation("mask-selection", "apply_mask is not bit-exact selection (support kept: %s, exact zero elsewhere: %s, idempotent: %s) for shape %s mask %s %s" % (ok_support, ok_zero, torch.equal(y2.view(torch.int32), yb), case[1], case[2], case[3]), {"case": list(case)}, {"fn": "apply_mask"}))
        except Exception as e:  # noqa
            add(Violation("mask-raises", "apply_mask raises %s: %s" % (type(e).__name__, str(e)[:80]), {"case": list(case)}, {"fn": "apply_mask-raises"}))
    for _ in range(ctx.n(20, 200)):
        runs += 1
        shape = (rng.randint(1, 3), rng.randint(2, 5), rng.randint(2, 5), 2)
        seed = rng.randrange(1000)
        calls = []

        def mf(shape, seed=None):
            calls.append((tuple(int(s) for s in shape), seed))
            g = torch.Generator().manual_seed(seed)
            return (torch.rand(1, shape[0], shape[1], 1, generator=g) < 0.5)

        x = torch.randn(*shape)
        y, mret = T.apply_mask(x, mf, seed=seed)
        want = mf(shape[1:], seed)
        if calls[0] != (tuple(shape[1:]), seed) or not torch.equal(mret, want) or not torch.equal(y, torch.where(want == 0, torch.zeros(1), x)):
            add(Violation("mask-function", "apply_mask with a mask function does not use mask_func(kspace.shape[1:], seed) once", {"shape": list(shape), "seed": seed, "calls": [list(map(str, c)) for c in calls]}, {"fn": "apply_mask-callable"}))
    # 2. the masked operators of the engines and blocks: zero off the support / blind to unsampled k-space
    from direct.nn.conjgradnet.conjgrad import ConjGrad
    from direct.nn.mri_models import MRIModelEngine
    from direct.nn.rim.rim import MRILogLikelihood
    from .. import engine_harness as H

    H.setup()

    class _Eng(MRIModelEngine):  # the constructor of the real engine runs; only the abstract loss builder is filled in
        def build_loss(self):
            return {}

    engines = {}
    for _ in range(ctx.n(40, 400) * (2 if deep else 1)):
        runs += 1
        centered = rng.random() < 0.7
        fwd = functools.partial(T.fft2, centered=centered)
        bwd = functools.partial(T.ifft2, centered=centered)
        N, C, h, w = rng.randint(1, 2), rng.randint(1, 3), rng.randint(2, 6), rng.randint(2, 6)
        g = torch.Generator().manual_seed(rng.randrange(1 << 30))
        k = torch.randn(N, C, h, w, 2, generator=g)
        S = torch.randn(N, C, h, w, 2, generator=g)
        img = torch.randn(N, h, w, 2, generator=g)
        mask = (torch.rand(N, 1, h, w, 1, generator=g) < rng.choice([0.0, 0.3, 0.6, 1.0]))
        noise = torch.randn(N, C, h, w, 2, generator=g) * 1e3
        k2 = torch.where(mask == 0, noise, k)  # differs only where the mask is not set
        cfg = {"shape": [N, C, h, w], "centered": centered, "mask_fraction": float(mask.float().mean())}
        try:
            # one engine per operator pair, used for the whole run: an engine sees many masks in its life
            if centered not in engines:
                engines[centered] = _Eng(H.make_cfg(10), torch.nn.Linear(1, 1), device="cpu", forward_operator=fwd, backward_operator=bwd)
            eng = engines[centered]
            fwd, bwd = eng.forward_operator, eng.backward_operator
            f = eng._forward_operator(img, S, mask)
            off = (mask == 0).expand_as(f)
            if not bool((f.view(torch.int32)[off] == 0).all()):
                add(Violation("forward-operator-zero-off-support", "MRIModelEngine._forward_operator is not exactly zero where the mask is unset, %s" % cfg, {"config": cfg}, {"fn": "_forward_operator"}))
            ref = torch.where(mask == 0, torch.zeros(1), fwd(T.expand_operator(img, S, dim=1), dim=(2, 3)))
            if not torch.equal(f, ref):
                add(Violation("forward-operator-value", "MRIModelEngine._forward_operator != mask * F(S x) on the support, %s" % cfg, {"config": cfg}, {"fn": "_forward_operator"}))
            k_before, k2_before = k.clone(), k2.clone()
            b1, b2 = eng._backward_operator(k, S, mask), eng._backward_operator(k2, S, mask)
            if not torch.equal(k, k_before) or not torch.equal(k2, k2_before):
                add(Violation("mask-alters-input", "MRIModelEngine._backward_operator changes the k-space tensor it is given, %s" % cfg, {"config": cfg}, {"fn": "_backward_operator-inplace"}))
                k, k2 = k_before.clone(), k2_before.clone()
            if not torch.equal(b1, b2):
                add(Violation("noninterference", "MRIModelEngine._backward_operator depends on unsampled k-space (max diff %.3g), %s" % (float((b1 - b2).abs().max()), cfg), {"config": cfg}, {"fn": "_backward_operator"}))
            # the mask the operators use is the one they are given now: the same tensor object updated in place, and a
            # transposed view of it (same storage, same shape when square), select what their current contents say
            mask2 = mask.clone()
            first = eng._forward_operator(img, S, mask2)
            mask2.copy_(~mask2 if rng.random() < 0.5 else torch.rand(mask2.shape, generator=g) < 0.5)
            for nm, mm in (("updated in place", mask2), ("transposed view", mask2.transpose(2, 3) if h == w else None)):
                if mm is None:
                    continue
                got_f, got_b = eng._forward_operator(img, S, mm), eng._backward_operator(k, S, mm)
                want_f = torch.where(mm == 0, torch.zeros(1), fwd(T.expand_operator(img, S, dim=1), dim=(2, 3)))
                want_b = T.reduce_operator(bwd(torch.where(mm == 0, torch.zeros(1), k), dim=(2, 3)), S, dim=1)
                if not torch.equal(got_f, want_f) or not torch.equal(got_b, want_b):
                    add(Violation("operator-stale-mask", "MRIModelEngine masked operators do not use the current contents of a sampling mask %s after an earlier call, %s" % (nm, cfg), {"config": cfg, "history": nm}, {"fn": "_forward_operator-history"}))
            ll = MRILogLikelihood(fwd, bwd)
            xin = img.permute(0, 3, 1, 2)
            l1, l2 = ll(xin, k, S, mask), ll(xin, k2, S, mask)
            if not torch.equal(l1, l2):
                add(Violation("noninterference", "MRILogLikelihood depends on unsampled k-space (max diff %.3g), %s" % (float((l1 - l2).abs().max()), cfg), {"config": cfg}, {"fn": "MRILogLikelihood"}))
            # the same with the scaling argument the RIM engine always passes (one value, or one per batch element)
            for sc in (torch.tensor([0.25]), torch.full((N,), 0.5)):
                s1, s2 = ll(xin, k, S, mask, sc), ll(xin, k2, S, mask, sc)
                if not torch.equal(s1, s2):
                    add(Violation("noninterference", "MRILogLikelihood with loglikelihood_scaling depends on unsampled k-space (max diff %.3g), %s" % (float((s1 - s2).abs().max()), cfg), {"config": cfg, "scaling": sc.tolist()}, {"fn": "MRILogLikelihood-scaled"}))
                if not torch.allclose(s1, float(sc[0]) * l1, rtol=1e-4, atol=1e-4 * max(1.0, float(l1.abs().max()))):
                    add(Violation("likelihood-scaling-linear", "MRILogLikelihood(scaling=c) != c * MRILogLikelihood() (max diff %.3g), %s" % (float((s1 - float(sc[0]) * l1).abs().max()), cfg), {"config": cfg, "scaling": sc.tolist()}, {"fn": "MRILogLikelihood-scaled"}))
            # the prediction term is masked too: with all data consistent on the support the block vanishes there
            kc = fwd(T.expand_operator(img, S, dim=1), dim=(2, 3)) + torch.where(mask == 0, noise, torch.zeros(1))
            l3 = ll(xin, kc, S, mask)
            if float(l3.abs().max()) > 1e-3 * max(1.0, float(kc.abs().max()) * 1e-3):
                add(Violation("likelihood-masks-both-terms", "MRILogLikelihood does not vanish on data consistent on the support (max %.3g), %s" % (float(l3.abs().max()), cfg), {"config": cfg}, {"fn": "MRILogLikelihood-consistent"}))
            cg = ConjGrad.__new__(ConjGrad)
            cg.forward_operator, cg.backward_operator, cg._spatial_dims, cg._coil_dim = fwd, bwd, (2, 3), 1
            a1, a2 = cg._A_star_op(k, S, mask), cg._A_star_op(k2, S, mask)
            if not torch.equal(a1, a2):
                add(Violation("noninterference", "ConjGrad._A_star_op depends on unsampled k-space, %s" % cfg, {"config": cfg}, {"fn": "_A_star_op"}))
        except Exception as e:  # noqa
            add(Violation("operator-raises", "%s: %s (%s)" % (type(e).__name__, str(e)[:100], cfg), {"config": cfg}, {"fn": "raises"}))
    ctx.oracle_runs = runs
    return out
