"""C04 — every mask generator returns a boolean mask of the documented geometry (and returns at all)."""
import ast
import re

from .. import coqrun, maskgen as G, py2gallina as pg, symex as X
from ..core import Corr, Untranslatable, Violation

ID = "C04"
LEVEL = "proof"
COQ_FILES = ["Tie/C04_defs.v", "Tie/C04_tie.v", "Props/C04_props.v"]
PROPS_FILES = ["C04_props.v"]
TRUSTED_BASE = [
    "vlib/symex.py (symbolic execution of the translated Python subset on the ast: the translator reads value / outcome trees, so local names, intermediates, helpers and the form of branches do not matter; its assumptions - pure expressions, opaque calls, no aliasing writes, try handlers not modelled - are listed in DESIGN.md 12.7; fail-closed)",
    "py2gallina unit 'mask shapes' (BaseMaskFunc.__call__ rank guards, _reshape_and_add_coil_axis shape list, control skeleton of the slope bisection in VariableDensityPoissonMaskFunc.poisson, loop condition of the Cython rejection kernels read from the .pyx text)",
    "the sampling patterns themselves (numpy RandomState draws, libc rand inside the Cython kernels, scipy rotate, float spiral arithmetic) are oracles: only shape, dtype, row-constancy and return-or-documented-error are decided, by oracles on the implementation",
    "floats in the bisection are modelled by their ordinal among representable values with the contract lo <= midpoint(lo, hi) <= hi",
    "torch reshape / numpy tile semantics (the shape model is tied by exact correspondence of the produced shapes)",
]
ASSUMPTIONS = ["'returns promptly' is decided as termination under the stated guard; wall-clock is only bounded by the harness alarm (8 s)"]
RULE = "(generator, mode, shape of rank 3-5, acceleration, centre fraction, seed) over the 14 generators; the produced mask / ACS shapes are compared exactly with the regenerated shape function; non-trivial = dynamic or multislice mode or rank >= 4; distinct by configuration"


def _idx(node):
    """-k of a constant negative subscript."""
    if isinstance(node, ast.UnaryOp) and isinstance(node.op, ast.USub) and isinstance(node.operand, ast.Constant):
        return node.operand.value
    return None


def generate(ctx):
    path = ctx.src("direct/common/subsample.py")
    tree, src = pg.parse_file(path)
    out = "From DV Require Import Model.C04.\n"
    # ---- _reshape_and_add_coil_axis: the list handed to reshape, per mode (symbolic execution, vlib/symex.py) ----
    S = lambda n: ("sym", n)
    shape = S("shape")
    modes = ("list", (("attr", S("MaskFuncMode"), "DYNAMIC"), ("attr", S("MaskFuncMode"), "MULTISLICE")))
    modes_alt = ("list", (modes[1][1], modes[1][0]))
    is_dyn = lambda c: c[0] == "cmp" and c[1] == "in" and c[2] == ("attr", S("self"), "mode") and c[3] in (modes, modes_alt, ("tuple", modes[1]), ("tuple", modes_alt[1]))
    t, _n = X.run_function(tree, path, "BaseMaskFunc._reshape_and_add_coil_axis", const_fill=True)
    t = X.lift_ife(X.prune_raises(X.drop_do(t)))
    terms = {}
    for conds, lf in X.leaves(t):
        dyn = [pol for c, pol in conds if is_dyn(c)]
        if len(set(dyn)) != 1:
            raise Untranslatable("_reshape_and_add_coil_axis: the path does not decide the mode test", None, path)
        v = lf[1]
        # coil axis in front: x[None, ...] or x.unsqueeze(0)
        if v[0] == "sub" and v[2] == ("tuple", (X.NONE, X.const(Ellipsis))):
            v = v[1]
        elif v[0] == "call" and v[1][0] == "attr" and v[1][2] == "unsqueeze" and (list(v[2]) + [dict(v[3]).get("dim")])[0] == X.const(0):
            v = v[1][1]
        else:
            raise Untranslatable("_reshape_and_add_coil_axis: no coil axis added in front: %s" % X.show(v)[:100], None, path)
        if not (v[0] == "call" and v[1][0] == "attr" and v[1][2] == "bool" and not v[2]):
            raise Untranslatable("_reshape_and_add_coil_axis: result is not made boolean", None, path)
        v = v[1][1]
        if not (v[0] == "call" and v[1][0] == "attr" and v[1][2] == "reshape" and len(v[2]) == 1 and not v[3]):
            raise Untranslatable("_reshape_and_add_coil_axis: no reshape(*mask_shape): %s" % X.show(v)[:100], None, path)
        m, lst = v[1][1], v[2][0]
        if m not in (S("mask"), ("call", ("attr", S("torch"), "from_numpy"), (S("mask"),), ())):
            raise Untranslatable("_reshape_and_add_coil_axis: what is reshaped is not the mask", None, path)
        lst = lst[1] if lst[0] == "star" else lst
        writes = {}
        while lst[0] == "set":
            k, val = lst[2], lst[3]
            if not (X.is_const(k) and type(k[1]) is int and k[1] < 0 and val[0] == "sub" and val[1] == shape and X.is_const(val[2]) and type(val[2][1]) is int and val[2][1] < 0):
                raise Untranslatable("_reshape_and_add_coil_axis: a size is written that is not shape[-j] at a fixed place from the end: %s" % X.show(lst)[:100], None, path)
            writes.setdefault(-k[1], -val[2][1])  # the outermost (last) write of a slot counts
            lst = lst[1]
        if lst != ("map", X.const(1), shape):
            raise Untranslatable("_reshape_and_add_coil_axis: the list does not start as one 1 per entry of shape: %s" % X.show(lst)[:80], None, path)
        term = "(map (fun _ => 1) shape)"
        for k in sorted(writes):  # writes at distinct places commute: emitted from the last axis outwards
            term = "(set_neg %d (get_neg %d shape) %s)" % (k, writes[k], term)
        terms.setdefault(dyn[0], set()).add(term)
    if set(terms) != {True, False} or any(len(v) != 1 for v in terms.values()):
        raise Untranslatable("_reshape_and_add_coil_axis: the reshape list is not determined by the mode alone", None, path)
    out += "Definition reshape_shape (dyn : bool) (shape : list Z) : list Z := 1 :: (if dyn then %s else %s).\n" % (terms[True].pop(), terms[False].pop())
    # ---- __call__ guards: when the call raises, and that otherwise it is mask_func(shape, *args, **kwargs) ----
    t, _n = X.run_function(tree, path, "BaseMaskFunc.__call__", opaque={"mask_func"})
    t = X.drop_do(t)
    rank = ("call", S("len"), (shape,), ())
    em = X.Emit(lambda v: "rank" if v == rank else ("dyn" if v[0] == "as_bool" and is_dyn(v[1]) else None), path)

    out += "Definition call_rejects (dyn : bool) (rank : Z) : bool := %s.\n" % em.raises(t)
    ok = X.prune_raises(t)
    want = ("call", ("attr", S("self"), "mask_func"), (shape, ("star", S("args"))), (("**", S("kwargs")),))
    for conds, lf in X.leaves(ok):
        if lf[1] != want:
            raise Untranslatable("__call__: the result is not self.mask_func(shape, *args, **kwargs): %s" % X.show(lf[1])[:100], None, path)
    # ---- slope bisection skeleton ----
    fn = pg.find_def(tree, "VariableDensityPoissonMaskFunc.poisson", path)
    loop = [s for s in fn.body if isinstance(s, ast.While)]
    if len(loop) != 1 or ast.unparse(loop[0].test) != "slope_min < slope_max":
        raise Untranslatable("poisson: bisection loop `while slope_min < slope_max` not found", fn.lineno, path)
    steps = []
    for s in loop[0].body:
        u = ast.unparse(s)
        if u == "slope = (slope_max + slope_min) / 2" or u == "slope = (slope_min + slope_max) / 2":
            steps.append("SetMid")
        elif isinstance(s, ast.If) and isinstance(s.body[0], ast.Break) and not s.orelse and "slope" in ast.unparse(s.test) and "actual_acceleration" not in ast.unparse(s.test):
            t = ast.unparse(s.test).replace(" ", "")
            if t not in ("slopein(slope_min,slope_max)", "slope==slope_minorslope==slope_max", "slope==slope_maxorslope==slope_min", "slope<=slope_minorslope>=slope_max"):
                raise Untranslatable("poisson: unrecognised stall test %s" % ast.unparse(s.test), s.lineno, path)
            steps.append("IfStallBreak")
        elif u == "if abs(actual_acceleration - acceleration) < self.tol:\n    break":
            steps.append("IfTolBreak")
        elif u == "if actual_acceleration < acceleration:\n    slope_min = slope\nelse:\n    slope_max = slope":
            steps.append("Narrow")
        elif any(w in u for w in ("slope_min =", "slope_max =", "break", "continue", "return")):
            raise Untranslatable("poisson: loop control outside subset: %s" % u[:60], s.lineno, path)
        else:
            if not steps or steps[-1] != "Work":
                steps.append("Work")
    out += "Definition vdp_bisect : list bstep := [%s].\n" % "; ".join(steps)
    after = [ast.unparse(s) for s in fn.body[fn.body.index(loop[0]) + 1 :]]
    raises_after = bool(after) and after[0].startswith("if abs(actual_acceleration - acceleration) >= self.tol:\n    raise ValueError")
    out += "Definition vdp_raises_when_out_of_tolerance : bool := %s.\n" % ("true" if raises_after else "false")
    # ---- rejection kernels (.pyx text): loop condition and the guarded update ----
    for name, rel, fname in (("g1d", "direct/common/_gaussian.pyx", "gaussian_mask_1d"), ("g2d", "direct/common/_gaussian.pyx", "gaussian_mask_2d"), ("gfill", "direct/ssl/_gaussian_fill.pyx", "gaussian_fill")):
        txt = open(ctx.src(rel)).read()
        m = re.search(r"def %s\(.*?\n\n(?=def |\Z)" % fname, txt, re.S)
        blk = m.group(0) if m else txt[txt.index("def %s(" % fname) :]
        cond = re.search(r"while count (<=|<) (\w+):", blk)
        inc = re.search(r"count = count \+ 1|count \+= 1", blk)
        if not cond or not inc or "srand(seed)" not in blk:
            raise Untranslatable("%s: rejection loop outside subset" % fname, None, rel)
        out += "Definition %s_need (c : Z) : Z := %s.\n" % (name, "c + 1" if cond.group(1) == "<=" else "c")
    return [pg.write_gen(ctx, "C04_gen", out)]


PRE = "From DV Require Import Base.Tactics Model.C04.\nFrom G Require Import C04_gen.\nOpen Scope Z_scope.\n"


def gen_cases(ctx):
    cases = [G.random_config(ctx.rng) + (ctx.rng.randrange(10**6),) for _ in range(ctx.n(230, 3000))]
    # every generator x mode at its boundaries (a single frame, odd widths): random shapes reach these too rarely
    return cases + list(G.boundary_configs(ctx.rng, seeds=ctx.n(2, 8)))


def correspond(ctx):
    from .. import shims

    shims.install(ctx.repo)
    corr = Corr()
    corr.rule = RULE
    cases = gen_cases(ctx)
    impls, terms, results = [], [], []
    for (name, mode, shape, accel, cf, seed) in cases:
        rec = {"mask": None, "acs": None}
        try:
            mf = G.build(name, accel, cf, mode)
            r = G.call(mf, shape, seed, False, seconds=8)
            a = G.call(mf, shape, seed, True, seconds=8)
            rec = {"mask": r, "acs": a}
            im = [r[0], list(r[1].shape) if r[0] == "ok" else None]
        except Exception as e:  # noqa
            im = ["build-raises", type(e).__name__]
        results.append(rec)
        impls.append(im)
        dyn = "true" if mode != "static" else "false"
        terms.append("(call_rejects %s %d, reshape_shape %s %s)" % (dyn, len(shape), dyn, coqrun.lit(shape)))
    vals = coqrun.eval_sharded("c04_cases", PRE, terms, ctx.work, gen_dir=ctx.gen_dir, shard=400)
    for c, im, mv in zip(cases, impls, vals):
        rej, shp = mv
        corr.dist("generator", c[0])
        corr.dist("mode", c[1])
        corr.dist("rank", len(c[2]))
        corr.dist("impl", im[0])
        if im[0] in ("hang", "raises"):
            # termination / errors are judged by the oracles; the shape model has nothing to compare with
            corr.count({"config": c[:5]}, False)
            continue
        model = ["raises"] if rej else ["ok", shp]
        corr.compare({"generator": c[0], "mode": c[1], "shape": c[2], "acceleration": c[3], "center_fraction": c[4], "seed": c[5]}, im, model, nontrivial=(c[1] != "static" or len(c[2]) >= 4))
    ctx._c04 = list(zip(cases, results))
    return corr


def oracles(ctx, deep):
    import torch

    out, seen, runs = [], set(), 0

    def add(v):
        if v.key() not in seen:
            seen.add(v.key())
            out.append(v)

    done = getattr(ctx, "_c04", None)
    if done is None or deep:
        done = []
        cases = gen_cases(ctx)
        if deep:
            for _ in range(300):
                cases.append(G.random_config(ctx.rng, ["VariableDensityPoisson", "Gaussian1D", "Gaussian2D", "Radial", "Spiral"], small=True) + (ctx.rng.randrange(10**6),))
        for c in cases:
            name, mode, shape, accel, cf, seed = c
            try:
                mf = G.build(name, accel, cf, mode)
                done.append((c, {"mask": G.call(mf, shape, seed, False, seconds=8), "acs": G.call(mf, shape, seed, True, seconds=8)}))
            except Exception as e:  # noqa
                done.append((c, {"mask": ("build", type(e).__name__, str(e)[:100]), "acs": None}))
    for (name, mode, shape, accel, cf, seed), rec in sorted(done, key=lambda t: (t[0][2][-3] * t[0][2][-2], len(t[0][2]))):
        runs += 1
        cfg = {"generator": name, "mode": mode, "shape": shape, "acceleration": accel, "center_fraction": cf, "seed": seed}
        for which in ("mask", "acs"):
            r = rec[which]
            if r is None:
                continue
            if r[0] == "build":
                add(Violation("generator-constructible", "%s cannot be built: %s" % (name, r[2]), {"config": cfg}, {"generator": name, "kind": "build"}))
                continue
            if r[0] == "hang":
                add(Violation("returns", "%s (%s) did not return within 8 s for shape %s, acceleration %s, centre fraction %s, seed %d (%s)" % (name, mode, shape, accel, cf, seed, which), {"config": cfg, "which": which}, {"generator": name, "kind": "hang"}))
                continue
            if r[0] == "raises":
                if r[1] != "ValueError" or "Cannot generate mask to satisfy accel" not in r[2]:
                    add(Violation("documented-error", "%s (%s) raises %s: %s for a feasible configuration (%s)" % (name, mode, r[1], r[2], which), {"config": cfg, "which": which}, {"generator": name, "kind": "raises", "exception": r[1]}))
                continue
            m = r[1]
            want = [1] + [shape[i] if (i in (len(shape) - 2, len(shape) - 3) or (mode != "static" and i == len(shape) - 4)) else 1 for i in range(len(shape))]
            ok_b = len(m.shape) <= len(want) and all(a == 1 or a == b for a, b in zip(reversed(list(m.shape)), reversed([99] + shape)))
            geom = list(m.shape) == want or (which == "acs" and ok_b and [d for d in m.shape if d != 1] == [d for d in want if d != 1])
            if m.dtype != torch.bool or not geom:
                add(Violation("geometry", "%s (%s): %s has dtype %s and shape %s; documented: bool %s for k-space shape %s" % (name, mode, which, m.dtype, list(m.shape), want, shape), {"config": cfg, "which": which, "observed_shape": list(m.shape), "expected_shape": want}, {"generator": name, "kind": "geometry", "which": which}))
                continue
            if name in G.LINE or name in ("KtUniform", "KtGaussian1D"):
                mm = m.reshape(-1, shape[-3], shape[-2])
                if not bool((mm == mm[:, :1, :]).all()):
                    add(Violation("line-rows-identical", "%s (%s): the %s of a line generator differs between rows of a frame" % (name, mode, which), {"config": cfg, "which": which}, {"generator": name, "kind": "rows"}))
    # one generator object serves every sample of a data set: shapes change from call to call
    rng = ctx.rng
    for name in G.ALL:
        for rep in range(ctx.n(1, 4)):
            mode = "dynamic" if name in G.KT else rng.choice(["static", "dynamic"])
            seq = []
            for _ in range(60):
                cfg0 = G.random_config(rng, names=[name], small=True)
                if cfg0[1] == mode or (mode == "static" and cfg0[1] == "static"):
                    seq.append(cfg0)
                if len(seq) == 4:
                    break
            if len(seq) < 2:
                continue
            accel, cf = seq[0][3], seq[0][4]
            seq = [c_ for c_ in seq if cf == 0 or G.feasible(name, c_[2], accel, cf)]
            if len(seq) < 2:
                continue
            try:
                mf = G.build(name, accel, cf, mode)
            except Exception:  # noqa
                continue
            for i, c_ in enumerate(seq):
                shape = c_[2]
                runs += 1
                for which, acs in (("mask", False), ("acs", True)):
                    r = G.call(mf, shape, rng.randrange(10**6), acs, seconds=8)
                    cfgd = {"generator": name, "mode": mode, "shapes_served_before": [x[2] for x in seq[:i]], "shape": shape, "acceleration": accel, "center_fraction": cf}
                    if r[0] == "hang":
                        add(Violation("returns", "%s (%s): a generator that served other shapes before did not return within 8 s for shape %s (%s)" % (name, mode, shape, which), {"config": cfgd, "which": which}, {"generator": name, "kind": "hang-reuse"}))
                    elif r[0] == "raises" and (r[1] != "ValueError" or "Cannot generate mask to satisfy accel" not in r[2]):
                        add(Violation("documented-error", "%s (%s): a generator that served shapes %s before raises %s: %s for shape %s (%s)" % (name, mode, cfgd["shapes_served_before"], r[1], r[2], shape, which), {"config": cfgd, "which": which}, {"generator": name, "kind": "raises-reuse", "exception": r[1]}))
                    elif r[0] == "ok":
                        m = r[1]
                        if m.dtype != torch.bool or list(m.shape)[-3:-1] != list(shape)[-3:-1]:
                            add(Violation("geometry", "%s (%s): a reused generator returns %s of shape %s for k-space shape %s" % (name, mode, which, list(m.shape), shape), {"config": cfgd, "which": which}, {"generator": name, "kind": "geometry-reuse"}))
    # how the configuration layer builds generators: the mode as a string in any spelling (DirectEnum compares
    # case-insensitively), and the builder's default mode, which the k-t generators (always per-frame) do not take
    from direct.common.subsample import build_masking_function

    for name in G.ALL:
        for rep in range(ctx.n(1, 3)):
            cfg0 = None
            for _ in range(80):
                c_ = G.random_config(rng, names=[name], ranks=(5,), small=True)
                if len(c_[2]) == 5 and c_[2][1] > 1 and (c_[4] == 0 or G.feasible(name, c_[2], c_[3], c_[4])):
                    cfg0 = c_
                    break
            if cfg0 is None:
                continue
            shape, accel, cf = cfg0[2], cfg0[3], cfg0[4]
            seed = rng.randrange(10**6)
            spellings = [("dynamic", "DYNAMIC"), ("multislice", "Multislice"), ("dynamic", "Dynamic"), ("multislice", "MULTISLICE"), ("static", "STATIC")]
            if name in G.KT:
                spellings = [("dynamic", "DYNAMIC"), ("dynamic", "<builder default>"), ("dynamic", "static")]
            for canon, spelled in spellings:
                runs += 1
                cfgd = {"generator": name, "mode_given_as": spelled, "shape": shape, "acceleration": accel, "center_fraction": cf, "seed": seed, "built_by": "build_masking_function"}
                try:
                    ref = G.build(name, accel, cf, canon)
                    kw = {} if spelled == "<builder default>" else {"mode": spelled}
                    mf = build_masking_function(name, accelerations=[accel], center_fractions=[cf], uniform_range=False, **kw)
                except Exception as e:  # noqa
                    add(Violation("generator-constructible", "%s cannot be built by build_masking_function with mode %r: %s" % (name, spelled, str(e)[:100]), {"config": cfgd}, {"generator": name, "kind": "build-spelling"}))
                    continue
                for which, acs in (("mask", False), ("acs", True)):
                    r0 = G.call(ref, shape, seed, acs, seconds=8)
                    r1 = G.call(mf, shape, seed, acs, seconds=8)
                    if r0[0] != "ok":
                        continue
                    if r1[0] == "hang":
                        add(Violation("returns", "%s built with mode %r did not return within 8 s for shape %s (%s)" % (name, spelled, shape, which), {"config": cfgd, "which": which}, {"generator": name, "kind": "hang-spelling"}))
                    elif r1[0] == "raises":
                        add(Violation("documented-error", "%s built by build_masking_function with mode %r raises %s: %s for shape %s (%s); with the enum member %s it returns a mask" % (name, spelled, r1[1], r1[2], shape, which, canon), {"config": cfgd, "which": which}, {"generator": name, "kind": "raises-spelling", "exception": r1[1]}))
                    elif list(r1[1].shape) != list(r0[1].shape) or r1[1].dtype != torch.bool:
                        add(Violation("geometry", "%s built by build_masking_function with mode %r: %s has shape %s; with the enum member %s it has the documented shape %s (k-space shape %s)" % (name, spelled, which, list(r1[1].shape), canon, list(r0[1].shape), shape), {"config": cfgd, "which": which, "observed_shape": list(r1[1].shape), "expected_shape": list(r0[1].shape)}, {"generator": name, "kind": "geometry-spelling"}))
    ctx.oracle_runs = runs
    return out
