"""Symbolic execution of a small Python subset on the `ast` (never imports or runs the translated module).

The per-property translators used to match the *text* of the statements they translate, which made every renaming of a
local, every named intermediate, extracted helper or guard clause a broken obligation. This module executes a function
body symbolically instead and hands the translators a *value tree* of what the function returns in terms of its
parameters, in which local names, intermediates, the choice between `if/else` and early return, loops versus
comprehensions over the same list and private helpers no longer appear. The translators then recognise the shape of
that tree (e.g. "a cat of narrows of the input") and emit its arithmetic to Gallina, where `lia` decides equalities such
as `offset - 1 + 3 = offset + 2`.

Fail closed: anything outside the subset raises `Untranslatable`.

Values (hashable tuples)
    ("const", v)                       int / float / bool / None / str / Ellipsis
    ("sym", name)                      parameter or free (module-level) name
    ("bin", op, a, b)  ("un", op, a)   op is the Python operator text
    ("cmp", op, a, b)                  one comparison (chains become "and")
    ("bool", "and"|"or", (v, ...))
    ("ife", c, a, b)
    ("attr", obj, name)  ("sub", obj, idx)  ("slice", lo, hi, step)
    ("call", f, (args...), ((kw, v), ...))
    ("tuple", (v, ...))  ("list", (v, ...))  ("dict", ((k, v), ...))
    ("set", obj, idx, val)             the value of obj after `obj[idx] = val`
    ("map", body, iterable)            [body(x) for x in iterable]; the element is ("bv", depth), the index ("bi", depth)
    ("fold", i, bodies, inits, iterable)   the i-th loop-carried local after `for x in iterable: a, b, .. = bodies`; inside the
                                       bodies the carried locals are ("ba", depth, j) and the element ("bv", depth)
    ("raisev", exc)                    an inlined helper that raises (hoisted to an outcome by the statement level)

Outcome trees of a function body
    ("ret", value) | ("raise", exception class name) | ("if", cond, tree, tree) | ("do", call value, tree)
"""
import ast

from .core import Untranslatable

BINOPS = {ast.Add: "+", ast.Sub: "-", ast.Mult: "*", ast.Div: "/", ast.FloorDiv: "//", ast.Mod: "%", ast.Pow: "**", ast.BitOr: "|", ast.BitAnd: "&", ast.BitXor: "^", ast.LShift: "<<", ast.RShift: ">>", ast.MatMult: "@"}
CMPOPS = {ast.Lt: "<", ast.LtE: "<=", ast.Gt: ">", ast.GtE: ">=", ast.Eq: "==", ast.NotEq: "!=", ast.Is: "is", ast.IsNot: "isnot", ast.In: "in", ast.NotIn: "notin"}
UNOPS = {ast.USub: "-", ast.UAdd: "+", ast.Invert: "~", ast.Not: "not"}

NONE = ("const", None)
TRUE = ("const", True)
FALSE = ("const", False)


def const(v):
    return ("const", v)


def is_const(v):
    return isinstance(v, tuple) and v[0] == "const"


# parameter order of library callables whose arguments are often written either way (only the leading parameters that
# may be given positionally are listed); methods are looked up by their name alone
KNOWN_SIGNATURES = {
    "torch.cat": ["tensors", "dim"], "torch.stack": ["tensors", "dim"], "torch.sum": ["input", "dim"], "torch.where": ["condition", "input", "other"],
    "torch.sqrt": ["input"], "torch.narrow": ["input", "dim", "start", "length"], "torch.zeros_like": ["input"], "torch.ones_like": ["input"],
    "np.concatenate": ["arrays", "axis"], "np.stack": ["arrays", "axis"], "np.swapaxes": ["a", "axis1", "axis2"], "np.repeat": ["a", "repeats", "axis"],
    ".sum": ["dim"], ".mean": ["dim"], ".unsqueeze": ["dim"], ".squeeze": ["dim"], ".size": ["dim"], ".narrow": ["dim", "start", "length"],
    ".select": ["dim", "index"], ".flatten": ["start_dim", "end_dim"], ".repeat": ["repeats", "axis"],
}
_EXTERNAL_CACHE = {}


def _external_signatures(path):
    """name -> parameter list for the functions this module imports from other modules of the same package, and
    alias -> {name -> parameter list} for `from pkg import module as alias` / `import pkg.module as alias`."""
    key = path
    if key in _EXTERNAL_CACHE:
        return _EXTERNAL_CACHE[key]
    names, aliases = {}, {}
    try:
        import os

        root = path[: path.index("/direct/")] if "/direct/" in path else None
        tree = ast.parse(open(path).read()) if root else None

        def sigs_of(modname):
            f = os.path.join(root, modname.replace(".", "/"))
            for cand in (f + ".py", os.path.join(f, "__init__.py")):
                if os.path.isfile(cand):
                    t = ast.parse(open(cand).read())
                    return {n.name: [a.arg for a in n.args.posonlyargs + n.args.args] for n in t.body if isinstance(n, ast.FunctionDef)}
            return None

        for n in (tree.body if tree else []):
            if isinstance(n, ast.ImportFrom) and n.module and n.module.startswith("direct") and n.level == 0:
                sg = sigs_of(n.module)
                for a in n.names:
                    if sg and a.name in sg:
                        names[a.asname or a.name] = sg[a.name]
                    sub = sigs_of(n.module + "." + a.name)
                    if sub is not None:
                        aliases[a.asname or a.name] = sub
            if isinstance(n, ast.Import):
                for a in n.names:
                    if a.name.startswith("direct") and a.asname:
                        sub = sigs_of(a.name)
                        if sub is not None:
                            aliases[a.asname] = sub
    except Exception:  # pragma: no cover
        pass
    _EXTERNAL_CACHE[key] = (names, aliases)
    return names, aliases


class Exec:
    """One symbolic execution context (a module, optionally a class for `self.` / `cls.` / `ClassName.` helpers).

    opaque    : names of functions / methods that must stay calls (they are primitives of the model)
    inline    : if not None, only these helper names may be inlined; every other call stays opaque
    max_depth : inlining depth
    """

    def __init__(self, tree, path, cls=None, opaque=(), inline=None, max_depth=4):
        self.tree, self.path, self.cls = tree, path, cls
        self.opaque, self.inline, self.max_depth = set(opaque), (None if inline is None else set(inline)), max_depth
        self.depth = 0
        self.bound = 0  # depth of enclosing comprehensions / map loops
        self.known = []  # path conditions (value, polarity) of the branch being executed
        self.attrs = {}  # (value, attribute name) -> value: what the caller fixes about its symbols (e.g. the rank of x.shape)
        self.fresh = set()  # names of constructors whose every evaluation is a distinct object (RandomState, ..): tagged #id=n
        self.fresh_count = [0]
        self.const_fill = False  # read `[c] * len(xs)` as `[c for _ in xs]` (off where the slots are then written by index in a loop)
        self.callhooks = {}  # function value -> f(args, kwargs) -> value or None: semantics the caller gives to an external helper
        self.loops = []  # one record per probed loop: iterable, locals before, and how each path of one generic iteration ends
        self.loop_sink = None
        self.probes = []  # (line, path conditions, iterable, locals after one generic iteration) of loops that end a path
        self.watch = {}  # function / method name -> list of (path conditions, args, kwargs) of every call met
        self.funcs = {n.name: n for n in tree.body if isinstance(n, ast.FunctionDef)}
        # module-level constants: NAME = <number or string literal> (assigned once)
        self.consts = {}
        seen = {}
        for n in tree.body:
            if isinstance(n, (ast.Assign, ast.AnnAssign)):
                for t in (n.targets if isinstance(n, ast.Assign) else [n.target]):
                    if isinstance(t, ast.Name):
                        seen[t.id] = seen.get(t.id, 0) + 1
                        if isinstance(n.value, ast.Constant) and isinstance(n.value.value, (int, float, str)) and not isinstance(n.value.value, bool):
                            self.consts[t.id] = ("const", n.value.value)
        self.consts = {k: v for k, v in self.consts.items() if seen.get(k) == 1}
        self.classes = {n.name: n for n in tree.body if isinstance(n, ast.ClassDef)}

    # ---------------------------------------------------------------------------------------- helpers
    def fail(self, node, why):
        try:
            src = ast.unparse(node)[:90]
        except Exception:  # pragma: no cover
            src = "?"
        raise Untranslatable("symbolic execution: %s: %s" % (why, src), getattr(node, "lineno", None), self.path)

    def _method(self, clsname, name):
        seen = set()
        todo = [clsname]
        while todo:
            c = todo.pop(0)
            if c in seen or c not in self.classes:
                continue
            seen.add(c)
            for n in self.classes[c].body:
                if isinstance(n, ast.FunctionDef) and n.name == name:
                    return n, c
            for b in self.classes[c].bases:
                if isinstance(b, ast.Name):
                    todo.append(b.id)
        return None, None

    # ---------------------------------------------------------------------------------------- expressions
    def ev(self, node, env):
        if isinstance(node, ast.Constant):
            return ("const", node.value)
        if isinstance(node, ast.Name):
            if node.id in env:
                return env[node.id]
            if node.id in self.consts:
                return self.consts[node.id]
            return ("sym", node.id)
        if isinstance(node, ast.Attribute):
            obj = self.ev(node.value, env)
            if (obj, node.attr) in env.get("$dirty", ()):
                self.fail(node, "attribute read after it was written on this path")
            if (obj, node.attr) in self.attrs:
                return self.attrs[(obj, node.attr)]
            return ("attr", obj, node.attr)
        if isinstance(node, ast.BinOp):
            for k, sym in BINOPS.items():
                if isinstance(node.op, k):
                    return self.binop(sym, self.ev(node.left, env), self.ev(node.right, env))
            self.fail(node, "operator outside subset")
        if isinstance(node, ast.UnaryOp):
            a = self.ev(node.operand, env)
            op = UNOPS[type(node.op)]
            if op == "not":
                return self.neg(a)
            if is_const(a) and isinstance(a[1], (int, float)) and not isinstance(a[1], bool) and op in "+-":
                return ("const", -a[1] if op == "-" else a[1])
            return ("un", op, a)
        if isinstance(node, ast.BoolOp):
            op = "and" if isinstance(node.op, ast.And) else "or"
            vals = []
            for v in node.values:
                x = self.ev(v, env)
                if x[0] == "bool" and x[1] == op:
                    vals.extend(x[2])
                else:
                    vals.append(x)
            # constant folding of literal True / False only (truthiness of other constants is left alone)
            out = []
            for x in vals:
                if x == (TRUE if op == "and" else FALSE):
                    continue
                if x == (FALSE if op == "and" else TRUE):
                    out.append(x)
                    break
                out.append(x)
            if not out:
                return TRUE if op == "and" else FALSE
            return out[0] if len(out) == 1 else ("bool", op, tuple(out))
        if isinstance(node, ast.Compare):
            parts = []
            left = self.ev(node.left, env)
            for op, r in zip(node.ops, node.comparators):
                right = self.ev(r, env)
                parts.append(self.compare(CMPOPS[type(op)], left, right))
                left = right
            parts = [p for p in parts if p != TRUE]
            if FALSE in parts:
                return FALSE
            if not parts:
                return TRUE
            return parts[0] if len(parts) == 1 else ("bool", "and", tuple(parts))
        if isinstance(node, ast.IfExp):
            c = self.decide(self.ev(node.test, env))
            if c == TRUE:
                return self.ev(node.body, env)
            if c == FALSE:
                return self.ev(node.orelse, env)
            if c[0] == "un" and c[1] == "not":  # canonical polarity, as for statements
                return ("ife", c[2], self.ev(node.orelse, env), self.ev(node.body, env))
            return ("ife", c, self.ev(node.body, env), self.ev(node.orelse, env))
        if isinstance(node, ast.Tuple):
            return ("tuple", tuple(self._elts(node.elts, env)))
        if isinstance(node, ast.List):
            return ("list", tuple(self._elts(node.elts, env)))
        if isinstance(node, ast.Dict):
            if any(k is None for k in node.keys):
                self.fail(node, "dict unpacking")
            return ("dict", tuple((self.ev(k, env), self.ev(v, env)) for k, v in zip(node.keys, node.values)))
        if isinstance(node, ast.Subscript):
            return self.subscript(self.ev(node.value, env), self.index(node.slice, env))
        if isinstance(node, ast.Slice):
            return self.index(node, env)
        if isinstance(node, ast.Call):
            return self.call(node, env)
        if isinstance(node, (ast.ListComp, ast.GeneratorExp)):
            return self.comprehension(node, env)
        if isinstance(node, ast.JoinedStr):
            parts = []
            for v in node.values:
                if isinstance(v, ast.Constant):
                    parts.append(("const", v.value))
                elif isinstance(v, ast.FormattedValue):
                    parts.append(self.ev(v.value, env))
            if all(is_const(x) for x in parts):
                return ("const", "".join(str(x[1]) for x in parts))
            return ("fstr", tuple(parts))
        if isinstance(node, ast.Starred):
            self.fail(node, "starred expression")
        self.fail(node, "expression outside subset")

    def _elts(self, elts, env):
        out = []
        for e in elts:
            if isinstance(e, ast.Starred):
                v = self.ev(e.value, env)
                if v[0] in ("tuple", "list"):
                    out.extend(v[1])
                else:
                    out.append(("star", v))
            else:
                out.append(self.ev(e, env))
        return out

    def index(self, node, env):
        if isinstance(node, ast.Slice):
            f = lambda x: NONE if x is None else self.ev(x, env)
            return ("slice", f(node.lower), f(node.upper), f(node.step))
        if isinstance(node, ast.Tuple):
            return ("tuple", tuple(self.index(e, env) for e in node.elts))
        return self.ev(node, env)

    def decide(self, c):
        """A condition already decided on the current path (the same test twice, e.g. `if centered:` before and after)."""
        for k, pol in self.known:
            if k == c:
                return TRUE if pol else FALSE
            if k == self.neg(c):
                return FALSE if pol else TRUE
        return c

    def branch(self, c, then_fn, else_fn):
        if c[0] == "un" and c[1] == "not":  # canonical polarity: `if not c: A else: B` is `if c: B else: A`
            return self.branch(c[2], else_fn, then_fn)
        # a path that leaves the subset becomes a ("stuck", reason) leaf, so that the other paths are still explored;
        # run_function rejects trees with such leaves unless asked not to
        self.known.append((c, True))
        try:
            a = then_fn()
        except Untranslatable as e:
            a = ("stuck", e)
        finally:
            self.known.pop()
        self.known.append((c, False))
        try:
            b = else_fn()
        except Untranslatable as e:
            b = ("stuck", e)
        finally:
            self.known.pop()
        return ("if", c, a, b)

    def compare(self, op, a, b):
        if is_const(a) and is_const(b) and type(a[1]) is int and type(b[1]) is int:
            r = {"<": a[1] < b[1], "<=": a[1] <= b[1], ">": a[1] > b[1], ">=": a[1] >= b[1], "==": a[1] == b[1], "!=": a[1] != b[1]}.get(op)
            if r is not None:
                return TRUE if r else FALSE
        return ("cmp", op, a, b)

    def neg(self, a):
        if a == TRUE:
            return FALSE
        if a == FALSE:
            return TRUE
        if a[0] == "un" and a[1] == "not":
            return a[2]
        return ("un", "not", a)

    def binop(self, op, a, b):
        if is_const(a) and is_const(b) and type(a[1]) is int and type(b[1]) is int:
            try:
                if op == "+":
                    return const(a[1] + b[1])
                if op == "-":
                    return const(a[1] - b[1])
                if op == "*":
                    return const(a[1] * b[1])
                if op == "//" and b[1] != 0:
                    return const(a[1] // b[1])
                if op == "%" and b[1] != 0:
                    return const(a[1] % b[1])
            except Exception:  # pragma: no cover
                pass
        # list arithmetic on concrete lists
        if op == "+" and a[0] == b[0] and a[0] in ("list", "tuple"):
            return (a[0], a[1] + b[1])
        if op == "*" and a[0] in ("list", "tuple") and is_const(b) and type(b[1]) is int:
            return (a[0], a[1] * b[1])
        # [c] * len(xs) with a constant c is [c for _ in xs]
        if op == "*" and a[0] == "list" and len(a[1]) == 1 and is_const(a[1][0]) and b[0] == "call" and b[1] == ("sym", "len") and len(b[2]) == 1 and not b[3] and self.const_fill:
            return ("map", a[1][0], b[2][0])
        return ("bin", op, a, b)

    def subscript(self, obj, idx):
        if obj[0] in ("tuple", "list") and is_const(idx) and type(idx[1]) is int and -len(obj[1]) <= idx[1] < len(obj[1]) and not any(x[0] == "star" for x in obj[1]):
            return obj[1][idx[1]]
        if obj[0] in ("tuple", "list") and idx[0] == "slice" and all(is_const(x) and (x[1] is None or type(x[1]) is int) for x in idx[1:]) and not any(x[0] == "star" for x in obj[1]):
            return (obj[0], obj[1][slice(idx[1][1], idx[2][1], idx[3][1])])
        # the last k sizes of a tensor of unknown rank: x.shape[-k:] has k entries (the rank is at least k where this is used)
        if obj[0] == "attr" and obj[2] == "shape" and idx[0] == "slice" and is_const(idx[1]) and type(idx[1][1]) is int and idx[1][1] < 0 and idx[2] == NONE and idx[3] == NONE:
            return ("tuple", tuple(("sub", obj, const(i)) for i in range(idx[1][1], 0)))
        # an element of a slice taken from the end: x[-3:-1][0] is x[-3]
        if obj[0] == "sub" and obj[2][0] == "slice" and is_const(idx) and type(idx[1]) is int and obj[2][3] == NONE and is_const(obj[2][1]) and type(obj[2][1][1]) is int and obj[2][1][1] < 0 and (obj[2][2] == NONE or (is_const(obj[2][2]) and type(obj[2][2][1]) is int and obj[2][2][1] < 0)):
            lo = obj[2][1][1]
            hi = 0 if obj[2][2] == NONE else obj[2][2][1]
            if 0 <= idx[1] < hi - lo:
                return ("sub", obj[1], const(lo + idx[1]))
        if obj[0] == "dict" and is_const(idx):
            for k, v in obj[1]:
                if k == idx:
                    return v
        return ("sub", obj, idx)

    def comprehension(self, node, env):
        if len(node.generators) != 1 or node.generators[0].is_async:
            self.fail(node, "nested comprehension")
        g = node.generators[0]
        it = self.ev(g.iter, env)
        conc = self.concrete_iter(it)
        if conc is not None and not g.ifs:
            out = []
            for item in conc:
                e2 = dict(env)
                self.bind(g.target, item, e2)
                out.append(self.ev(node.elt, e2))
            return ("list", tuple(out)) if isinstance(node, ast.ListComp) else ("gen", tuple(out))
        e2 = dict(env)
        self.bound += 1
        try:
            it2 = self.bind_symbolic_element(g.target, it, e2, node)
            body = self.ev(node.elt, e2)
            preds = [self.ev(c, e2) for c in g.ifs]
        finally:
            self.bound -= 1
        if preds:
            # [body(x) for x in xs if p(x)]
            return ("filter", preds[0] if len(preds) == 1 else ("bool", "and", tuple(preds)), body, it2)
        return ("map", body, it2)

    def bind_symbolic_element(self, target, it, env, node):
        """Binds the loop target to the bound element of depth self.bound; returns the iterable actually mapped over."""
        d = self.bound
        if it[0] == "call" and it[1] == ("sym", "enumerate") and len(it[2]) == 1 and isinstance(target, ast.Tuple) and len(target.elts) == 2:
            self.bind(target.elts[0], ("bi", d), env)
            self.bind(target.elts[1], ("bv", d), env)
            return it[2][0]
        if it[0] == "call" and it[1] == ("sym", "zip") and isinstance(target, ast.Tuple) and len(target.elts) == len(it[2]):
            for k, t in enumerate(target.elts):
                self.bind(t, ("sub", ("bv", d), const(k)), env)
            return it
        self.bind(target, ("bv", d), env)
        return it

    def concrete_iter(self, it):
        """A Python list of values if the iterable has a length known here, else None."""
        if it[0] in ("tuple", "list", "gen") and not any(x[0] == "star" for x in it[1]):
            return list(it[1])
        if it[0] == "call" and it[1] == ("sym", "range") and all(is_const(a) and type(a[1]) is int for a in it[2]) and not it[3]:
            return [const(i) for i in range(*[a[1] for a in it[2]])]
        if it[0] == "call" and it[1] == ("sym", "enumerate") and len(it[2]) == 1:
            inner = self.concrete_iter(it[2][0])
            if inner is not None:
                return [("tuple", (const(i), x)) for i, x in enumerate(inner)]
        if it[0] == "call" and it[1] == ("sym", "zip") and it[2]:
            inners = [self.concrete_iter(a) for a in it[2]]
            if all(i is not None for i in inners):
                return [("tuple", tuple(xs)) for xs in zip(*inners)]
        if it[0] == "call" and it[1] == ("sym", "reversed") and len(it[2]) == 1:
            inner = self.concrete_iter(it[2][0])
            if inner is not None:
                return list(reversed(inner))
        return None

    # ---------------------------------------------------------------------------------------- calls
    def call(self, node, env):
        f = self.ev(node.func, env)
        args = tuple(self._elts(node.args, env))
        kwargs = tuple((k.arg if k.arg is not None else "**", self.ev(k.value, env)) for k in node.keywords)
        # a few builtins on concrete data
        if f == ("sym", "len") and len(args) == 1 and args[0][0] in ("tuple", "list") and not any(x[0] == "star" for x in args[0][1]):
            return const(len(args[0][1]))
        if f in (("sym", "list"), ("sym", "tuple")) and len(args) == 1:
            conc = self.concrete_iter(args[0])
            if conc is not None:
                return (f[1], tuple(conc))
            if args[0][0] == "map":
                return args[0]
            if args[0][0] == "call" and args[0][1] == ("sym", "range") and not args[0][3]:
                return ("map", ("bv", self.bound + 1), args[0])  # [i for i in range(..)]
        if f == ("sym", "int") and len(args) == 1 and is_const(args[0]) and type(args[0][1]) is int:
            return args[0]
        if f == ("sym", "slice") and 1 <= len(args) <= 3 and not kwargs:
            lo, hi, st = (NONE, args[0], NONE) if len(args) == 1 else (args[0], args[1], args[2] if len(args) == 3 else NONE)
            return ("slice", lo, hi, st)  # slice(a, b) objects are slices
        if f == ("sym", "map") and len(args) == 2 and args[0][0] in ("sym", "attr") and not kwargs:
            return ("map", ("call", args[0], (("bv", self.bound + 1),), ()), args[1])  # map(f, xs) is [f(x) for x in xs]
        if f == ("sym", "sum") and len(args) == 1 and args[0][0] in ("list", "tuple", "gen") and all(is_const(x) and type(x[1]) is int for x in args[0][1]) and not kwargs:
            return const(sum(x[1] for x in args[0][1]))
        if f == ("sym", "divmod") and len(args) == 2 and not kwargs:
            return ("tuple", (self.binop("//", args[0], args[1]), self.binop("%", args[0], args[1])))
        if f in (("sym", "all"), ("sym", "any")) and len(args) == 1 and args[0][0] in ("gen", "list", "tuple") and not kwargs:
            op = "and" if f[1] == "all" else "or"
            items = [x for x in args[0][1] if x != (TRUE if op == "and" else FALSE)]
            if any(x == (FALSE if op == "and" else TRUE) for x in items):
                return FALSE if op == "and" else TRUE
            if not items:
                return TRUE if op == "and" else FALSE
            return items[0] if len(items) == 1 else ("bool", op, tuple(items))
        args, kwargs = self.positional(f, args, kwargs)
        if f in self.callhooks:
            r = self.callhooks[f](args, kwargs)
            if r is not None:
                return r
        wname = f[1] if f[0] == "sym" else f[2] if f[0] == "attr" else None
        if wname in self.watch:
            self.watch[wname].append((tuple(self.known), args, kwargs))
        target = self.resolve(f)
        if target is not None:
            fn, selfv, owner = target
            try:
                return self.inline_call(fn, selfv, owner, args, kwargs, node)
            except Untranslatable:
                pass  # a helper outside the subset stays a call
        if wname in self.fresh:
            self.fresh_count[0] += 1
            kwargs = kwargs + (("#id", const(self.fresh_count[0])),)
        return ("call", f, args, kwargs)

    def signature(self, f):
        """Parameter names (in order, without self) of the callee, where known: a function / method of this module, a
        function imported from another module of the package, or a library callable of KNOWN_SIGNATURES."""
        if f[0] == "sym":
            if f[1] in self.funcs:
                fn = self.funcs[f[1]]
                return [a.arg for a in fn.args.posonlyargs + fn.args.args]
            names, _al = _external_signatures(self.path)
            return names.get(f[1])
        if f[0] == "attr":
            if f[1][0] == "sym" and f[1][1] in ("self", "cls") and self.cls:
                fn, _o = self._method(self.cls, f[2])
                if fn is not None:
                    ps = [a.arg for a in fn.args.posonlyargs + fn.args.args]
                    deco = [ast.unparse(d) for d in fn.decorator_list]
                    return ps if "staticmethod" in deco else ps[1:]
            if f[1][0] == "sym":
                _n, aliases = _external_signatures(self.path)
                if f[1][1] in aliases:
                    return aliases[f[1][1]].get(f[2])
                if f[1][1] in self.classes:
                    fn, _o = self._method(f[1][1], f[2])
                    if fn is not None:
                        ps = [a.arg for a in fn.args.posonlyargs + fn.args.args]
                        deco = [ast.unparse(d) for d in fn.decorator_list]
                        return ps if "staticmethod" in deco else ps[1:]
            dotted = show(f)
            if dotted in KNOWN_SIGNATURES:
                return KNOWN_SIGNATURES[dotted]
            return KNOWN_SIGNATURES.get("." + f[2])
        return None

    def positional(self, f, args, kwargs):
        """Keyword arguments moved to their positional place when the callee's parameter order is known: f(a, dim=d) and
        f(a, d) are the same value."""
        if not kwargs or any(a[0] == "star" for a in args) or any(k == "**" for k, _v in kwargs):
            return args, kwargs
        sig = self.signature(f)
        if not sig:
            return args, kwargs
        kw = dict(kwargs)
        out = list(args)
        while len(out) < len(sig) and sig[len(out)] in kw:
            out.append(kw.pop(sig[len(out)]))
        return tuple(out), tuple((k, v) for k, v in kwargs if k in kw)

    def resolve(self, f):
        """(FunctionDef, value bound to the first parameter or None, owning class) of a helper that may be inlined."""
        name = None
        selfv = None
        owner = self.cls
        fn = None
        if f[0] == "sym" and f[1] in self.funcs:
            name, fn, owner = f[1], self.funcs[f[1]], None
        elif f[0] == "attr" and f[1][0] == "sym" and f[1][1] in ("self", "cls") and self.cls:
            fn, owner = self._method(self.cls, f[2])
            name = f[2]
            if fn is not None:
                deco = [ast.unparse(d) for d in fn.decorator_list]
                selfv = None if "staticmethod" in deco else f[1]
        elif f[0] == "attr" and f[1][0] == "sym" and f[1][1] in self.classes:
            fn, owner = self._method(f[1][1], f[2])
            name = f[2]
            if fn is not None:
                deco = [ast.unparse(d) for d in fn.decorator_list]
                if "staticmethod" not in deco and "classmethod" not in deco:
                    return None
                selfv = None if "staticmethod" in deco else ("sym", "cls")
        if fn is None or name in self.opaque:
            return None
        if self.inline is not None and name not in self.inline:
            return None
        if self.depth >= self.max_depth:
            return None
        if not self.simple(fn):
            return None
        return fn, selfv, owner

    def simple(self, fn):
        """Helpers are inlined only when their body is loop-free apart from loops this executor can handle, and they
        do not use constructs the executor rejects; checked by trying, so here only the cheap syntactic exclusions."""
        for n in ast.walk(fn):
            if isinstance(n, (ast.While, ast.Yield, ast.YieldFrom, ast.Global, ast.Nonlocal, ast.Lambda, ast.Await)):
                return False
        if fn.args.vararg or fn.args.kwarg:
            return False
        if any(ast.unparse(d) not in PLAIN_DECORATORS for d in fn.decorator_list):
            return False
        return True

    def inline_call(self, fn, selfv, owner, args, kwargs, node):
        params = [a.arg for a in fn.args.posonlyargs + fn.args.args]
        env = {}
        if selfv is not None:
            if not params:
                self.fail(node, "method without self")
            env[params[0]] = selfv
            params = params[1:]
        if len(args) > len(params):
            self.fail(node, "too many positional arguments for %s" % fn.name)
        for p, a in zip(params, args):
            env[p] = a
        kwonly = [a.arg for a in fn.args.kwonlyargs]
        for k, v in kwargs:
            if k not in params and k not in kwonly or k in env:
                self.fail(node, "unexpected keyword %s for %s" % (k, fn.name))
            env[k] = v
        defaults = fn.args.defaults
        for p, d in zip(params[len(params) - len(defaults):], defaults):
            if p not in env:
                env[p] = self.ev(d, {})
        for p, d in zip(kwonly, fn.args.kw_defaults):
            if p not in env and d is not None:
                env[p] = self.ev(d, {})
        for p in params + kwonly:
            if p not in env:
                self.fail(node, "missing argument %s for %s" % (p, fn.name))
        sub = Exec(self.tree, self.path, cls=owner if owner else None, opaque=self.opaque, inline=self.inline, max_depth=self.max_depth)
        sub.depth = self.depth + 1
        sub.bound = self.bound
        sub.known = self.known
        sub.watch = self.watch
        sub.attrs = self.attrs
        sub.probes = self.probes
        sub.loops = self.loops
        sub.loop_sink = self.loop_sink
        sub.callhooks = self.callhooks
        sub.const_fill = self.const_fill
        sub.fresh, sub.fresh_count = self.fresh, self.fresh_count
        tree = sub.block(strip_doc(fn.body), env, lambda e: ("ret", NONE))
        return self.tree_value(tree, node)

    def tree_value(self, tree, node):
        if tree[0] == "ret":
            return tree[1]
        if tree[0] == "raise":
            return ("raisev", tree[1])
        if tree[0] == "if":
            return ("ife", tree[1], self.tree_value(tree[2], node), self.tree_value(tree[3], node))
        if tree[0] == "stuck":
            raise tree[1]
        self.fail(node, "inlined helper with effects")

    # ---------------------------------------------------------------------------------------- statements
    # writes to attributes (self.x = v, self.x[k] = v, self.x += v) are effects (`do $store(target, op, value)`); what such an
    # attribute holds afterwards is not modelled, so reading it again on the same path is refused
    @staticmethod
    def attr_target(t):
        while isinstance(t, ast.Subscript):
            t = t.value
        return isinstance(t, ast.Attribute)

    def ev_target(self, t, env):
        if isinstance(t, ast.Subscript):
            return ("sub", self.ev_target(t.value, env), self.index(t.slice, env))
        return ("attr", self.ev(t.value, env), t.attr)

    def mark_dirty(self, t, env):
        while isinstance(t, ast.Subscript):
            t = t.value
        e2 = dict(env)
        e2["$dirty"] = tuple(env.get("$dirty", ())) + ((self.ev(t.value, env), t.attr),)
        return e2

    def bind(self, target, value, env):
        if isinstance(target, ast.Name):
            env[target.id] = value
            return
        if isinstance(target, (ast.Tuple, ast.List)):
            if value[0] in ("tuple", "list") and len(value[1]) == len(target.elts) and not any(x[0] == "star" for x in value[1]):
                for t, v in zip(target.elts, value[1]):
                    self.bind(t, v, env)
                return
            for k, t in enumerate(target.elts):
                if isinstance(t, ast.Starred):
                    self.fail(target, "starred target")
                self.bind(t, self.subscript(value, const(k)), env)
            return
        self.fail(target, "assignment target outside subset")

    def block(self, stmts, env, k):
        """Executes stmts in env, then continues with k(env); returns an outcome tree."""
        if not stmts:
            return k(env)
        s, rest = stmts[0], stmts[1:]
        cont = lambda e: self.block(rest, e, k)
        if isinstance(s, ast.Expr) and isinstance(s.value, ast.Yield):
            # a generator's yield is an effect: `do yield(value)`; watchers see it under the name "yield"
            v = NONE if s.value.value is None else self.ev(s.value.value, env)
            if "yield" in self.watch:
                self.watch["yield"].append((tuple(self.known), (v,), ()))
            return ("do", ("call", ("sym", "yield"), (v,), ()), cont(env))
        if isinstance(s, ast.Expr):
            if isinstance(s.value, ast.Constant):
                return cont(env)
            # a method called for its effect on a local value (x.append(..), mask.zero_()): the local changes
            if isinstance(s.value, ast.Call) and isinstance(s.value.func, ast.Attribute) and isinstance(s.value.func.value, ast.Name) and s.value.func.value.id in env and env[s.value.func.value.id][0] != "sym":
                name, meth = s.value.func.value.id, s.value.func.attr
                cur = env[name]
                if meth in ("append", "extend") and cur[0] == "list" and len(s.value.args) == 1 and not s.value.keywords:
                    if any(n != name and v is cur for n, v in env.items()):
                        self.fail(s, "append through an aliased local")
                    arg = self.ev(s.value.args[0], env)
                    if meth == "extend":
                        more = self.concrete_iter(arg)
                        if more is None:
                            self.fail(s, "extend by an iterable of unknown length")
                    else:
                        more = [arg]
                    e2 = dict(env)
                    e2[name] = ("list", cur[1] + tuple(more))
                    return cont(e2)
                if meth in ("close", "flush", "info", "debug", "warning", "error", "exception"):
                    # resource / logging calls: an effect that does not change what the local stands for
                    return ("do", self.ev(s.value, env), cont(env))
                if meth == "append" and cur[0] in ("havoc", "after", "appended") and len(s.value.args) == 1 and not s.value.keywords:
                    e2 = dict(env)
                    e2[name] = ("appended", cur, self.ev(s.value.args[0], env))  # a list of unknown contents, grown by one
                    return cont(e2)
                self.fail(s, "method called for its effect on a local value")
            v = self.ev(s.value, env)
            return self.hoist(v, lambda v2: ("do", v2, cont(env)) if v2[0] == "call" else cont(env))
        if isinstance(s, ast.Pass):
            return cont(env)
        if isinstance(s, (ast.Assign, ast.AnnAssign)):
            if isinstance(s, ast.AnnAssign):
                if s.value is None:
                    return cont(env)
                targets = [s.target]
            else:
                targets = s.targets
            v = self.ev(s.value, env)

            def after(v2):
                e2 = dict(env)
                effs = []
                for t in targets:
                    if self.attr_target(t):
                        effs.append(("call", ("sym", "$store"), (self.ev_target(t, env), const("="), v2), ()))
                        e2 = self.mark_dirty(t, e2)
                    else:
                        self.assign(t, v2, e2)
                tree = cont(e2)
                for eff in reversed(effs):
                    tree = ("do", eff, tree)
                return tree

            return self.hoist(v, after)
        if isinstance(s, ast.AugAssign):
            if self.attr_target(s.target):
                eff = ("call", ("sym", "$store"), (self.ev_target(s.target, env), const(BINOPS[type(s.op)] + "="), self.ev(s.value, env)), ())
                return ("do", eff, cont(self.mark_dirty(s.target, env)))
            cur = self.ev(s.target, env)
            v = self.binop(BINOPS[type(s.op)], cur, self.ev(s.value, env))
            e2 = dict(env)
            self.assign(s.target, v, e2)
            return cont(e2)
        if isinstance(s, ast.Return):
            v = NONE if s.value is None else self.ev(s.value, env)
            return self.hoist(v, lambda v2: ("ret", v2))
        if isinstance(s, ast.Raise):
            exc = "Exception"
            if s.exc is not None:
                e = s.exc.func if isinstance(s.exc, ast.Call) else s.exc
                exc = ast.unparse(e)
            return ("raise", exc)
        if isinstance(s, ast.Assert):
            c = self.decide(self.ev(s.test, env))
            if c == TRUE:
                return cont(env)
            return self.branch(c, lambda: cont(env), lambda: ("raise", "AssertionError"))
        if isinstance(s, ast.If):
            c = self.decide(self.ev(s.test, env))
            if c == TRUE:
                return self.block(list(s.body) + rest, env, k)
            if c == FALSE:
                return self.block(list(s.orelse) + rest, env, k)
            return self.hoist(c, lambda c2: self.branch(c2, lambda: self.block(list(s.body), dict(env), cont), lambda: self.block(list(s.orelse), dict(env), cont)))
        if isinstance(s, ast.For):
            if s.orelse:
                self.fail(s, "for/else")
            it = self.ev(s.iter, env)
            conc = self.concrete_iter(it)
            if conc is not None:
                return self.unroll(s, conc, 0, env, cont)
            return self.map_loop(s, it, env, cont)
        if isinstance(s, (ast.Import, ast.ImportFrom)):
            return cont(env)
        if isinstance(s, ast.Delete):
            e2 = dict(env)
            for t in s.targets:
                for n in ast.walk(t):
                    if isinstance(n, ast.Name):
                        e2.pop(n.id, None)
            return cont(e2)
        if isinstance(s, (ast.Break, ast.Continue)):
            if self.loop_sink is None:
                self.fail(s, "break / continue outside a probed loop")
            kind = "break" if isinstance(s, ast.Break) else "continue"
            self.loop_sink(kind, env)
            return (kind,)
        if isinstance(s, ast.Try):
            # exceptions are not modelled: the body (then else / finally) runs; handlers are what happens when it raises
            return self.block(list(s.body) + list(s.orelse) + list(s.finalbody) + rest, env, k)
        if isinstance(s, ast.With):
            # context managers (seeding, no_grad, ..) are effects around the body; the body is executed in place
            e2 = dict(env)
            ctxs = []
            for item in s.items:
                v = self.ev(item.context_expr, e2)
                ctxs.append(v)
                if item.optional_vars is not None:
                    self.bind(item.optional_vars, ("call", ("attr", v, "__enter__"), (), ()), e2)
            inner = self.block(list(s.body) + rest, e2, k)
            for v in reversed(ctxs):
                inner = ("do", ("call", ("sym", "with"), (v,), ()), inner)
            return inner
        self.fail(s, "statement outside subset")

    def unroll(self, s, items, i, env, cont):
        if i == len(items):
            return cont(env)
        e2 = dict(env)
        self.bind(s.target, items[i], e2)
        for n in ast.walk(s):
            if isinstance(n, (ast.Break, ast.Continue)):
                self.fail(s, "break / continue in an unrolled loop")
        return self.block(list(s.body), e2, lambda e3: self.unroll(s, items, i + 1, e3, cont))

    def map_loop(self, s, it, env, cont):
        """Loops over an iterable of unknown length: `for i, x in enumerate(xs): acc[i] = f(x)` and
        `for x in xs: acc.append(f(x))` become maps, `for i in range(a, n): acc[i] = f(i)` on `acc = [c] * n` becomes a map
        over range(n), and a body of plain assignments to locals becomes a fold over the carried locals."""
        e3 = self._map_loop_env(s, it, env)
        if e3 is None:
            try:
                e3 = self._fold_loop_env(s, it, env)
            except Untranslatable:
                # neither a map nor a fold: one generic iteration is recorded, and execution goes on after the loop with
                # every local the loop assigns unknown (("after", name, depth)): nothing is assumed about the loop
                d, assigned = self.probe_loop(s, it, env)
                e3 = dict(env)
                for n in assigned:
                    e3[n] = ("after", n, d)
        return cont(e3)

    def probe_loop(self, s, it, env):
        """A loop that is neither a map nor a fold ends the path, but one generic iteration of its body is still executed
        (every local the body assigns is first replaced by an unknown, so nothing is assumed about earlier iterations):
        the calls it makes are seen by `watch`, and the locals after the iteration are recorded in `probes`."""
        assigned = set()
        for n in ast.walk(s):
            if isinstance(n, (ast.Assign, ast.AugAssign, ast.AnnAssign)):
                todo = list(n.targets if isinstance(n, ast.Assign) else [n.target])
                while todo:
                    t = todo.pop()
                    if isinstance(t, (ast.Tuple, ast.List)):
                        todo.extend(t.elts)
                    elif isinstance(t, ast.Starred):
                        todo.append(t.value)
                    elif isinstance(t, ast.Name):
                        assigned.add(t.id)
                    elif isinstance(t, ast.Subscript):
                        b_ = t.value
                        while isinstance(b_, ast.Subscript):
                            b_ = b_.value
                        if isinstance(b_, ast.Name):
                            assigned.add(b_.id)  # a local container written by index; attribute-rooted targets are effects
            if isinstance(n, ast.Call) and isinstance(n.func, ast.Attribute) and isinstance(n.func.value, ast.Name) and n.func.attr in ("append", "extend", "insert", "pop", "clear"):
                assigned.add(n.func.value.id)
        e2 = dict(env)
        self.bound += 1
        try:
            d = self.bound
            for n in assigned:
                if n in e2:
                    e2[n] = ("havoc", n, d)
            it2 = self.bind_symbolic_element(s.target, it, e2, s)
            out = {}
            paths = []  # (how the iteration ends: "end" | "break" | "continue", path conditions, locals)
            base = len(self.known)

            def done(e3):
                out.update(e3)
                paths.append(("end", tuple(self.known[base:]), dict(e3)))
                return ("ret", NONE)

            saved = self.loop_sink
            self.loop_sink = lambda kind, e3: paths.append((kind, tuple(self.known[base:]), dict(e3)))
            itree = None
            try:
                itree = self.block(list(s.body), e2, done)
            except Untranslatable:
                pass
            finally:
                self.loop_sink = saved
            self.probes.append((getattr(s, "lineno", None), tuple(self.known), it2, out))
            self.loops.append({"line": getattr(s, "lineno", None), "known": tuple(self.known), "iter": it2, "before": dict(env), "paths": paths, "depth": d, "assigned": sorted(assigned), "tree": itree})
        finally:
            self.bound -= 1
        return d, assigned

    def _map_loop_env(self, s, it, env):
        if not s.body:
            return None
        b = s.body[-1]
        temps = s.body[:-1]  # per-element temporaries (`size = data.shape[d]`) ahead of the one write
        if any(not (isinstance(t, ast.Assign) and len(t.targets) == 1 and isinstance(t.targets[0], ast.Name) and t.targets[0].id not in env) for t in temps):
            return None
        e2 = dict(env)
        self.bound += 1
        try:
            it2 = self.bind_symbolic_element(s.target, it, e2, s)
            d = self.bound
            for t in temps:
                e2[t.targets[0].id] = self.ev(t.value, e2)
            if isinstance(b, ast.Assign) and len(b.targets) == 1 and isinstance(b.targets[0], ast.Subscript) and isinstance(b.targets[0].value, ast.Name):
                acc = b.targets[0].value.id
                idx = self.ev(b.targets[0].slice, e2)
                cur = env.get(acc)
                slots = cur is not None and cur[0] == "bin" and cur[1] == "*" and cur[2][0] == "list" and len(cur[2][1]) == 1
                # acc = [c] * len(xs)  (one slot per element), written at the element's own index
                if slots and idx == ("bi", d) and cur[3] == ("call", ("sym", "len"), (it2,), ()):
                    e3 = dict(env)
                    e3[acc] = ("map", self.ev(b.value, e2), it2)
                    return e3
                # acc = [c] * n; for i in range(a, n): acc[i] = f(i)   ==   [c if i < a else f(i) for i in range(n)]
                if slots and idx == ("bv", d) and it2[0] == "call" and it2[1] == ("sym", "range") and len(it2[2]) == 2 and it2[2][1] == cur[3] and not it2[3]:
                    e3 = dict(env)
                    e3[acc] = ("map", ("ife", ("cmp", "<", ("bv", d), it2[2][0]), cur[2][1][0], self.ev(b.value, e2)), ("call", ("sym", "range"), (cur[3],), ()))
                    return e3
            if isinstance(b, ast.Expr) and isinstance(b.value, ast.Call) and isinstance(b.value.func, ast.Attribute) and b.value.func.attr == "append" and isinstance(b.value.func.value, ast.Name) and len(b.value.args) == 1:
                acc = b.value.func.value.id
                if env.get(acc) == ("list", ()):
                    e3 = dict(env)
                    e3[acc] = ("map", self.ev(b.value.args[0], e2), it2)
                    return e3
        finally:
            self.bound -= 1
        return None

    def _fold_loop_env(self, s, it, env):
        """`for x in xs: a = f(a, x); b = g(a, b, x)`: the carried locals after the loop are folds over xs."""
        carried = []
        for b in s.body:
            if not (isinstance(b, ast.Assign) and len(b.targets) == 1 and isinstance(b.targets[0], ast.Name)):
                self.fail(s, "loop over a symbolic iterable")
            if b.targets[0].id not in carried:
                carried.append(b.targets[0].id)
        for n in carried:
            if n not in env:
                self.fail(s, "loop-carried local %s not initialised before a loop over a symbolic iterable" % n)
        e2 = dict(env)
        self.bound += 1
        try:
            d = self.bound
            it2 = self.bind_symbolic_element(s.target, it, e2, s)
            for n in carried:
                e2[n] = ("ba", d, carried.index(n))
            tree = self.block(list(s.body), e2, lambda e3: ("ret", ("tuple", tuple(e3[n] for n in carried))))
        finally:
            self.bound -= 1
        if tree[0] != "ret":
            self.fail(s, "branching inside a loop over a symbolic iterable")
        bodies = tree[1][1]
        e4 = dict(env)
        inits = tuple(env[n] for n in carried)
        for i, n in enumerate(carried):
            e4[n] = ("fold", i, bodies, inits, it2)
        return e4

    def assign(self, target, value, env):
        if isinstance(target, ast.Subscript) and isinstance(target.value, ast.Name):
            name = target.value.id
            cur = env.get(name, ("sym", name))
            idx = self.index(target.slice, env)
            # aliasing: another local bound to the very same mutable value would see this write in Python
            if cur[0] not in ("sym",) and any(n != name and v is cur for n, v in env.items()):
                self.fail(target, "write through an aliased local")
            if cur[0] == "sym" and cur[1] != name and name in env:
                # `t = mask; t[i] = v` also changes `mask` (an input, or a global): refused rather than mis-modelled
                self.fail(target, "write through an alias of an input")
            if cur[0] == "list" and is_const(idx) and type(idx[1]) is int and -len(cur[1]) <= idx[1] < len(cur[1]):
                items = list(cur[1])
                items[idx[1]] = value
                env[name] = ("list", tuple(items))
            else:
                env[name] = ("set", cur, idx, value)
            return
        if isinstance(target, ast.Attribute):
            self.fail(target, "attribute assignment")
        self.bind(target, value, env)

    def hoist(self, v, k):
        """Turns `raisev` leaves of a conditional value into outcomes."""
        if v[0] == "raisev":
            return ("raise", v[1])
        if v[0] == "ife" and _has_raise(v):
            return self.branch(v[1], lambda: self.hoist(v[2], k), lambda: self.hoist(v[3], k))
        if _has_raise(v):
            raise Untranslatable("symbolic execution: a helper that may raise is used inside a larger expression", None, self.path)
        return k(v)


def _has_raise(v):
    if not isinstance(v, tuple):
        return False
    if v and v[0] == "raisev":
        return True
    return any(_has_raise(x) for x in v[1:] if isinstance(x, tuple))


def strip_doc(body):
    if body and isinstance(body[0], ast.Expr) and isinstance(body[0].value, ast.Constant) and isinstance(body[0].value.value, str):
        return list(body[1:])
    return list(body)


PLAIN_DECORATORS = {"staticmethod", "classmethod", "abstractmethod", "abc.abstractmethod", "torch.no_grad()", "torch.inference_mode()", "torch.jit.unused", "torch.jit.export", "override", "typing.override"}


def _check_decorators(node, qualname, path):
    """A decorator can change what a function does (caching, wrapping): anything but the plain ones is refused."""
    for d in getattr(node, "decorator_list", []):
        if ast.unparse(d) not in PLAIN_DECORATORS:
            raise Untranslatable("symbolic execution: %s is decorated with %s" % (qualname, ast.unparse(d)[:60]), getattr(node, "lineno", None), path)


def watch_calls(tree, path, qualname, names, opaque=(), inline=None):
    """Every call of the named functions / methods met while executing `qualname` symbolically, as (path conditions,
    args, kwargs); execution goes as far as the subset allows (the calls met before an untranslatable statement are still
    reported, together with the reason execution stopped)."""
    parts = qualname.split(".")
    node = tree
    for p in parts:
        node = next((ch for ch in node.body if isinstance(ch, (ast.FunctionDef, ast.ClassDef)) and ch.name == p), None)
        if node is None:
            raise Untranslatable("definition %s not found" % qualname, None, path)
    _check_decorators(node, qualname, path)
    ex = Exec(tree, path, cls=parts[0] if len(parts) == 2 else None, opaque=set(opaque) | {parts[-1]} | set(names), inline=inline)
    ex.watch = {n: [] for n in names}
    env = {a.arg: ("sym", a.arg) for a in node.args.posonlyargs + node.args.args + node.args.kwonlyargs}
    stopped = None
    try:
        ex.block(strip_doc(node.body), env, lambda e: ("ret", NONE))
    except Untranslatable as e:
        stopped = e
    ex.watch["$probes"] = ex.probes
    ex.watch["$loops"] = ex.loops
    return ex.watch, stopped


def render(tree, ind=0):
    """Canonical text of an outcome tree (what a function does, free of the names and statement forms of its source)."""
    pad = "  " * ind
    if tree[0] == "if":
        return "%sif %s:\n%s\n%selse:\n%s" % (pad, show(tree[1]), render(tree[2], ind + 1), pad, render(tree[3], ind + 1))
    if tree[0] == "do":
        return "%sdo %s\n%s" % (pad, show(tree[1]), render(tree[2], ind))
    if tree[0] == "ret":
        return "%sreturn %s" % (pad, show(tree[1]))
    if tree[0] == "raise":
        return "%sraise %s" % (pad, tree[1])
    return "%s%s" % (pad, tree[0])


def alpha_source(fn):
    """Source text of a function body with its local variables renamed in order of first binding (v0, v1, ..), without
    docstring: for the few functions that are pinned as text (generators with try / finally), so that renaming a local
    or editing the docstring does not matter."""
    params = {a.arg for a in fn.args.posonlyargs + fn.args.args + fn.args.kwonlyargs}
    order = []
    for n in ast.walk(fn):
        if isinstance(n, ast.Name) and isinstance(n.ctx, ast.Store) and n.id not in params and n.id not in order:
            order.append((getattr(n, "lineno", 0), getattr(n, "col_offset", 0), n.id))
    names = []
    for _l, _c, nm in sorted(order):
        if nm not in names:
            names.append(nm)
    table = {nm: "v%d" % i for i, nm in enumerate(names)}

    class R(ast.NodeTransformer):
        def visit_Name(self, node):
            return ast.copy_location(ast.Name(id=table.get(node.id, node.id), ctx=node.ctx), node)

    import copy

    body = [R().visit(copy.deepcopy(st)) for st in strip_doc(fn.body)]
    return "\n".join(ast.unparse(st) for st in body)


def arg(v, i, name):
    """Argument i of a call value, or the keyword `name` when it was not given positionally (None when absent)."""
    if len(v[2]) > i:
        return v[2][i]
    return dict(v[3]).get(name)


def parse_expr(src, env=None):
    """The value tree of a Python expression given as source text (for stating what a translator expects)."""
    tree = ast.parse("", mode="exec")
    ex = Exec(tree, "<expected>")
    return ex.ev(ast.parse(src, mode="eval").body, dict(env or {}))


def _subst_value(v, table):
    """v with the sub-values in `table` replaced."""
    if v in table:
        return table[v]
    if isinstance(v, tuple):
        return tuple(_subst_value(x, table) if isinstance(x, tuple) else x for x in v)
    return v


def find_nodes(v, pred, acc=None):
    """All sub-values of a value tree (or of a dict / list of them) satisfying pred."""
    acc = [] if acc is None else acc
    if isinstance(v, dict):
        for x in v.values():
            find_nodes(x, pred, acc)
        return acc
    if isinstance(v, tuple):
        if v and isinstance(v[0], str) and pred(v):
            acc.append(v)
        for x in v:
            if isinstance(x, (tuple, dict)):
                find_nodes(x, pred, acc)
    return acc


def run_function(tree, path, qualname, opaque=(), inline=None, args=None, max_depth=4, allow_stuck=False, attrs=None, assume=(), callhooks=None, const_fill=False, fresh=()):
    """Outcome tree of `func` / `Class.method` with its parameters as symbols (`args` may bind some to given values)."""
    parts = qualname.split(".")
    cls = parts[0] if len(parts) == 2 else None
    node = tree
    for p in parts:
        found = None
        for ch in node.body:
            if isinstance(ch, (ast.FunctionDef, ast.ClassDef)) and ch.name == p:
                found = ch
        if found is None:
            raise Untranslatable("definition %s not found" % qualname, None, path)
        node = found
    _check_decorators(node, qualname, path)
    ex = Exec(tree, path, cls=cls, opaque=set(opaque) | {parts[-1]}, inline=inline, max_depth=max_depth)
    ex.attrs = dict(attrs or {})
    ex.callhooks = dict(callhooks or {})
    ex.const_fill = const_fill
    ex.fresh = set(fresh)
    ex.known = list(assume)
    env = {}
    for a in node.args.posonlyargs + node.args.args + node.args.kwonlyargs:
        env[a.arg] = ("sym", a.arg)
    for a in (node.args.vararg, node.args.kwarg):
        if a is not None:
            env[a.arg] = ("sym", a.arg)
    if args:
        env.update(args)
    tree = ex.block(strip_doc(node.body), env, lambda e: ("ret", NONE))
    if not allow_stuck:
        st = first_stuck(tree)
        if st is not None:
            raise st
    return tree, node


def first_stuck(tree):
    if tree[0] == "stuck":
        return tree[1]
    if tree[0] == "if":
        return first_stuck(tree[2]) or first_stuck(tree[3])
    if tree[0] == "do":
        return first_stuck(tree[2])
    return None


# ------------------------------------------------------------------------------------------------ outcome-tree utilities
def leaves(tree, conds=()):
    """[(path conditions as (cond, polarity) tuples, leaf)] of an outcome tree; `do` nodes are kept in the path as ('do', call)."""
    if tree[0] == "if":
        return leaves(tree[2], conds + ((tree[1], True),)) + leaves(tree[3], conds + ((tree[1], False),))
    if tree[0] == "do":
        return leaves(tree[2], conds + (("do", tree[1]),))
    return [(conds, tree)]


def drop_do(tree, keep=lambda call: False):
    """Removes `do` nodes (calls made for their effect: assertions, logging) that the caller does not want to see."""
    if tree[0] == "do":
        if tree[1][0] == "call" and tree[1][1] == ("sym", "$store") and not keep(tree[1]):
            # a write to an attribute is state: only a translator that asks for it may see past it
            raise Untranslatable("symbolic execution: the function writes to %s" % show(tree[1][2][0])[:80], None, "?")
        inner = drop_do(tree[2], keep)
        return ("do", tree[1], inner) if keep(tree[1]) else inner
    if tree[0] == "if":
        return ("if", tree[1], drop_do(tree[2], keep), drop_do(tree[3], keep))
    return tree


def prune_raises(tree):
    """The function restricted to the inputs it accepts: (list of guard conditions with polarity that lead to a raise,
    tree without raise leaves). A branch whose both sides raise is a raise."""
    if tree[0] == "if":
        a, b = prune_raises(tree[2]), prune_raises(tree[3])
        if a is None and b is None:
            return None
        if a is None:
            return b
        if b is None:
            return a
        if a == b:
            return a
        return ("if", tree[1], a, b)
    if tree[0] == "do":
        inner = prune_raises(tree[2])
        return None if inner is None else ("do", tree[1], inner)
    if tree[0] == "raise":
        return None
    if tree[0] == "stuck":
        raise tree[1]
    return tree


def _pull_ife(v):
    """Moves a conditional out of the receiver position: (a if c else b)[i] -> a[i] if c else b[i], likewise for
    attributes and method calls on a conditional."""
    if v[0] == "ife":
        return ("ife", v[1], _pull_ife(v[2]), _pull_ife(v[3]))
    if v[0] in ("sub", "attr") and isinstance(v[1], tuple):
        inner = _pull_ife(v[1])
        if inner[0] == "ife":
            return ("ife", inner[1], _pull_ife((v[0], inner[2]) + v[2:]), _pull_ife((v[0], inner[3]) + v[2:]))
    if v[0] == "call" and v[1][0] == "attr":
        f = _pull_ife(v[1])
        if f[0] == "ife":
            return ("ife", f[1], _pull_ife(("call", f[2]) + v[2:]), _pull_ife(("call", f[3]) + v[2:]))
    return v


def lift_ife(tree):
    """Conditional return values (from inlined helpers with branches, or `a if c else b`) as branches of the outcome tree."""
    if tree[0] == "if":
        return ("if", tree[1], lift_ife(tree[2]), lift_ife(tree[3]))
    if tree[0] == "do":
        return ("do", tree[1], lift_ife(tree[2]))
    if tree[0] == "ret":
        v = _pull_ife(tree[1])
        if v[0] == "ife":
            return ("if", v[1], lift_ife(("ret", v[2])), lift_ife(("ret", v[3])))
        return ("ret", v)
    return tree


def tree_to_value(tree):
    """An outcome tree without raises / effects as one conditional value."""
    if tree[0] == "ret":
        return tree[1]
    if tree[0] == "if":
        return ("ife", tree[1], tree_to_value(tree[2]), tree_to_value(tree[3]))
    raise Untranslatable("symbolic execution: outcome is not a value: %s" % (tree[0],), None, "?")


# ------------------------------------------------------------------------------------------------ emission to Gallina (Z / bool)
class Emit:
    """Emits value trees as Gallina terms over Z and bool. `leaf(v)` returns a Coq term for a value it knows (parameters,
    sizes, ...), or None."""

    def __init__(self, leaf, path="?", truthy_int=False):
        self.leaf, self.path, self.truthy_int = leaf, path, truthy_int

    def fail(self, v, why):
        raise Untranslatable("emit: %s: %s" % (why, show(v)[:120]), None, self.path)

    def z(self, v):
        t = self.leaf(v)
        if t is not None:
            return t
        if v[0] == "const":
            if type(v[1]) is int:
                return str(v[1]) if v[1] >= 0 else "(%d)" % v[1]
            self.fail(v, "non-integer constant")
        if v[0] == "un" and v[1] == "-":
            return "(- %s)" % self.z(v[2])
        if v[0] == "un" and v[1] == "+":
            return self.z(v[2])
        if v[0] == "bin":
            ops = {"+": "+", "-": "-", "*": "*", "//": "/", "%": "mod"}
            if v[1] in ops:
                return "(%s %s %s)" % (self.z(v[2]), ops[v[1]], self.z(v[3]))
            if v[1] == "**" and v[3] == const(2):
                a = self.z(v[2])
                return "(%s * %s)" % (a, a)
            if v[1] == "|":
                return "(Z.lor %s %s)" % (self.z(v[2]), self.z(v[3]))
            if v[1] == "&":
                return "(Z.land %s %s)" % (self.z(v[2]), self.z(v[3]))
            self.fail(v, "operator outside subset")
        if v[0] == "ife":
            return "(if %s then %s else %s)" % (self.b(v[1]), self.z(v[2]), self.z(v[3]))
        if v[0] == "call" and v[1][0] == "sym" and not v[3]:
            fn, args = v[1][1], v[2]
            if fn in ("max", "min") and len(args) == 2:
                return "(Z.%s %s %s)" % (fn, self.z(args[0]), self.z(args[1]))
            if fn == "abs" and len(args) == 1:
                return "(Z.abs %s)" % self.z(args[0])
            if fn == "int" and len(args) == 1:
                return self.z(args[0])
        self.fail(v, "integer expression outside subset")

    def raises(self, tree):
        """The condition under which an outcome tree raises, as a boolean term."""
        if tree[0] == "do":
            return self.raises(tree[2])
        if tree[0] != "if":
            return "true" if tree[0] == "raise" else "false"
        a, b = self.raises(tree[2]), self.raises(tree[3])
        c = self.b(tree[1])
        if a == b:
            return a
        if a == "true":
            return c if b == "false" else "(%s || %s)" % (c, b)
        if b == "false":
            return "(%s && %s)" % (c, a)
        if a == "false":
            return "(negb %s)" % c if b == "true" else "((negb %s) && %s)" % (c, b)
        if b == "true":
            return "((negb %s) || %s)" % (c, a)
        return "(if %s then %s else %s)" % (c, a, b)

    def b(self, v):
        t = self.leaf(("as_bool", v))
        if t is not None:
            return t
        if v == TRUE:
            return "true"
        if v == FALSE:
            return "false"
        if v[0] == "bool":
            sym = "&&" if v[1] == "and" else "||"
            return "(" + (" %s " % sym).join(self.b(x) for x in v[2]) + ")"
        if v[0] == "un" and v[1] == "not":
            return "(negb %s)" % self.b(v[2])
        if v[0] == "cmp":
            a, c = self.z(v[2]), self.z(v[3])
            table = {"<": "(%s <? %s)", "<=": "(%s <=? %s)", ">": "(%s >? %s)", ">=": "(%s >=? %s)", "==": "(%s =? %s)"}
            if v[1] in table:
                return table[v[1]] % (a, c)
            if v[1] == "!=":
                return "(negb (%s =? %s))" % (a, c)
            self.fail(v, "comparison outside subset")
        if v[0] == "ife":
            return "(if %s then %s else %s)" % (self.b(v[1]), self.b(v[2]), self.b(v[3]))
        if self.truthy_int:
            return "(negb (%s =? 0))" % self.z(v)
        self.fail(v, "boolean expression outside subset")


def show(v):
    """Readable rendering of a value tree (for messages)."""
    if not isinstance(v, tuple):
        return repr(v)
    k = v[0]
    if k == "const":
        return repr(v[1])
    if k in ("sym",):
        return v[1]
    if k in ("bv", "bi"):
        return "%s%d" % (k, v[1])
    if k == "bin":
        return "(%s %s %s)" % (show(v[2]), v[1], show(v[3]))
    if k == "un":
        return "(%s %s)" % (v[1], show(v[2]))
    if k == "cmp":
        return "(%s %s %s)" % (show(v[2]), v[1], show(v[3]))
    if k == "bool":
        return "(" + (" %s " % v[1]).join(show(x) for x in v[2]) + ")"
    if k == "ife":
        return "(%s if %s else %s)" % (show(v[2]), show(v[1]), show(v[3]))
    if k == "attr":
        return "%s.%s" % (show(v[1]), v[2])
    if k == "sub":
        return "%s[%s]" % (show(v[1]), show(v[2]))
    if k == "slice":
        return "%s:%s:%s" % tuple(show(x) for x in v[1:])
    if k == "fstr":
        return "f'" + "".join(str(x[1]) if is_const(x) else "{%s}" % show(x) for x in v[1]) + "'"
    if k == "call":
        return "%s(%s)" % (show(v[1]), ", ".join([show(a) for a in v[2]] + ["%s=%s" % (n, show(x)) for n, x in v[3]]))
    if k in ("tuple", "list", "gen"):
        return ("(%s)" if k != "list" else "[%s]") % ", ".join(show(x) for x in v[1])
    if k == "set":
        return "%s{[%s] := %s}" % (show(v[1]), show(v[2]), show(v[3]))
    if k == "map":
        return "[%s for bv in %s]" % (show(v[1]), show(v[2]))
    return "(" + " ".join(show(x) if isinstance(x, tuple) else repr(x) for x in v) + ")"
