"""Loads a shipped YAML the way direct.environment.setup_common_environment does (without logging / experiment
directories) and instantiates model, engine, masking functions and transform pipelines on the CPU."""
import os
import pathlib
import tempfile

from . import shims


def _stub_calgary(cache_dir):
    import numpy as np
    import direct.common.subsample as S

    d = pathlib.Path(cache_dir) / "calgary_campinas_masks"
    d.mkdir(parents=True, exist_ok=True)
    for acc in (5, 10):
        for w in (170, 174, 180):
            f = d / ("R%d_218x%d.npy" % (acc, w))
            if not f.exists():
                np.save(f, np.ones((2, 218, w), dtype=bool))
    S.DIRECT_CACHE_DIR = pathlib.Path(cache_dir)
    S.download_url = lambda *a, **k: None


def resolve(yaml_path, cache_dir, instantiate=True):
    """Runs the real direct.environment.setup_common_environment on the file (logging set-up switched off; with
    instantiate=False the model classes are resolved but replaced by an empty module, so that all 87 files can be
    taken through the set-up quickly), then builds masking functions and transform pipelines of every dataset section.
    Returns ("ok", summary) or ("error", stage, exception type, message)."""
    shims.install()
    import torch

    import direct.environment as E
    from direct.common.subsample import build_masking_function
    from direct.data.mri_transforms import build_mri_transforms
    from direct.utils import dict_flatten, remove_keys

    _stub_calgary(cache_dir)
    st = {"stage": "load"}
    cap = {}
    saved = {k: getattr(E, k) for k in ("setup_logging", "load_models_into_environment_config", "build_operators", "initialize_models_from_config", "setup_engine", "load_model_from_name")}

    def staged(name, stage, after=None):
        real = saved[name]

        def f(*a, **k):
            st["stage"] = stage
            r = real(*a, **k)
            if after:
                st["stage"] = after
            return r

        return f

    def load_model(name):
        cls = saved["load_model_from_name"](name)  # resolution errors are observed
        if instantiate:
            return cls

        def cheap(*a, **k):
            return torch.nn.Identity()

        return cheap

    def init_models(cfg, models, fwd, bwd, device):
        st["stage"] = "model"
        cap.update(cfg=cfg, fwd=fwd, bwd=bwd)
        with torch.no_grad():
            return saved["initialize_models_from_config"](cfg, models, fwd, bwd, device)

    def engine(cfg, device, model, additional, **kw):
        st["stage"] = "engine"
        if instantiate:
            return saved["setup_engine"](cfg, device, model, additional, **kw)
        try:
            return saved["setup_engine"](cfg, device, model, additional, **kw)
        except SystemExit:
            raise
        except Exception:  # the engine constructor may look into the (replaced) model
            return None

    try:
        E.setup_logging = lambda *a, **k: None
        E.load_model_from_name = load_model
        E.load_models_into_environment_config = staged("load_models_into_environment_config", "models", after="merge")
        E.build_operators = staged("build_operators", "operators")
        E.initialize_models_from_config = init_models
        E.setup_engine = engine
        run_dir = tempfile.mkdtemp(prefix="env_", dir=cache_dir)
        env = E.setup_common_environment("run", pathlib.Path(run_dir), yaml_path, "cpu", 0, False)
        cfg, fwd, bwd = cap["cfg"], cap["fwd"], cap["bwd"]
        summary = {"model": cfg.model.model_name, "engine": type(env.engine).__name__}
        st["stage"] = "transforms"
        dsets = []
        for key in ("training", "validation"):
            if cfg.get(key) is not None and cfg[key].get("datasets"):
                dsets += list(cfg[key].datasets)
        if cfg.get("inference") is not None and cfg.inference.get("dataset") is not None and cfg.inference.dataset.get("name"):
            dsets.append(cfg.inference.dataset)
        summary["datasets"] = len(dsets)
        ntr = 0
        for ds in dsets:
            masking = ds.transforms.masking
            mask_func = None if masking is None else build_masking_function(**masking)
            build_mri_transforms(forward_operator=fwd, backward_operator=bwd, mask_func=mask_func, **dict_flatten(dict(remove_keys(ds.transforms, "masking"))))
            ntr += 1
        summary["transforms"] = ntr
        return ("ok", summary)
    except SystemExit as e:
        return ("error", st["stage"], "SystemExit", "name resolution failed (sys.exit(%s))" % e.code)
    except Exception as e:  # noqa
        return ("error", st["stage"], type(e).__name__, str(e)[:300])
    finally:
        for k, v in saved.items():
            setattr(E, k, v)
