"""Loads a shipped YAML the way direct.environment.setup_common_environment does (without logging / experiment
directories) and instantiates model, engine, masking functions and transform pipelines on the CPU."""
import os
import pathlib
import tempfile

from . import shims


def _stub_calgary(cache_dir):
    import numpy as np
    import direct.common.subsample as S

    d = pathlib.Path(cache_dir) / "calgary_campinas_masks"
    d.mkdir(parents=True, exist_ok=True)
    for acc in (5, 10):
        for w in (170, 174, 180):
            f = d / ("R%d_218x%d.npy" % (acc, w))
            if not f.exists():
                np.save(f, np.ones((2, 218, w), dtype=bool))
    S.DIRECT_CACHE_DIR = pathlib.Path(cache_dir)
    S.download_url = lambda *a, **k: None


def resolve(yaml_path, cache_dir, instantiate=True):
    """Returns ("ok", summary) or ("error", stage, exception type, message)."""
    shims.install()
    import torch
    from omegaconf import OmegaConf

    import direct.environment as E
    from direct.common.subsample import build_masking_function
    from direct.config.defaults import DefaultConfig, InferenceConfig, TrainingConfig, ValidationConfig
    from direct.data.mri_transforms import build_mri_transforms
    from direct.utils import dict_flatten, remove_keys

    _stub_calgary(cache_dir)
    stage = "load"
    try:
        ext = OmegaConf.load(yaml_path)
        stage = "models"
        cfg = OmegaConf.structured(DefaultConfig)
        models, models_config = E.load_models_into_environment_config(ext)
        cfg.model = models_config.model
        del models_config["model"]
        cfg.additional_models = models_config
        cfg.training = TrainingConfig
        cfg.validation = ValidationConfig
        cfg.inference = InferenceConfig
        new = ext.copy()
        ndatasets = 0
        for key in ext:
            stage = "merge:" + str(key)
            if key in ["models", "additional_models"]:
                continue
            if key in ["training", "validation", "inference"]:
                if not ext[key]:
                    continue
                if key in ["training", "validation"]:
                    for idx, (dname, dcfg) in enumerate(E.extract_names(ext[key].datasets)):
                        new[key].datasets[idx] = dcfg
                        cfg[key].datasets.append(E.load_dataset_config(dname))
                        ndatasets += 1
                else:
                    dname, dcfg = E.extract_names(ext[key].dataset)
                    new[key].dataset = dcfg
                    cfg[key].dataset = E.load_dataset_config(dname)
                    ndatasets += 1
            cfg[key] = OmegaConf.merge(cfg[key], new[key])
        stage = "operators"
        fwd, bwd = E.build_operators(cfg.physics)
        summary = {"model": cfg.model.model_name, "datasets": ndatasets}
        if instantiate:
            stage = "model"
            with torch.no_grad():
                model, additional = E.initialize_models_from_config(cfg, models, fwd, bwd, "cpu")
            stage = "engine"
            engine = E.setup_engine(cfg, "cpu", model, additional, forward_operator=fwd, backward_operator=bwd, mixed_precision=False)
            summary["engine"] = type(engine).__name__
        else:
            # resolve the engine class without building the model (the engine constructor only stores its arguments)
            stage = "engine"
            try:
                E.setup_engine(cfg, "cpu", torch.nn.Identity(), {}, forward_operator=fwd, backward_operator=bwd, mixed_precision=False)
            except SystemExit:
                raise
            except Exception:
                pass
        stage = "transforms"
        dsets = []
        for key in ("training", "validation"):
            if key in ext and ext[key]:
                dsets += list(cfg[key].datasets)
        if "inference" in ext and ext["inference"]:
            dsets.append(cfg.inference.dataset)
        ntr = 0
        for ds in dsets:
            masking = ds.transforms.masking
            mask_func = None if masking is None else build_masking_function(**masking)
            build_mri_transforms(forward_operator=fwd, backward_operator=bwd, mask_func=mask_func, **dict_flatten(dict(remove_keys(ds.transforms, "masking"))))
            ntr += 1
        summary["transforms"] = ntr
        return ("ok", summary)
    except SystemExit as e:
        return ("error", stage, "SystemExit", "name resolution failed (sys.exit(%s))" % e.code)
    except Exception as e:  # noqa
        return ("error", stage, type(e).__name__, str(e)[:300])
