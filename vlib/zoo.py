"""The model zoo of C17/C18 at small channel widths: one entry per (model, regulariser architecture / option) combination.

Each entry: name, build() -> nn.Module (seeded), call(model, batch) -> list of output tensors, kind ('image' | 'kspace' |
'image_cf' (N, 2, H, W) | 'raw' (same shape as the input tensor)), min (smallest admissible spatial size: the architecture's
minimum, from its pooling depth / wavelet scales / DIDN stride), coil_invariant (image does not depend on the coil order).
"""
import functools

from . import shims


def _ops():
    shims.install()
    from direct.data.transforms import fft2, ifft2

    return functools.partial(fft2, centered=True), functools.partial(ifft2, centered=True)


def make_batch(n, c, h, w, seed=0, scale=1.0, dtype=None):
    import torch

    g = torch.Generator().manual_seed(seed)
    dt = dtype or torch.float32
    ks = torch.randn(n, c, h, w, 2, generator=g, dtype=dt) * scale
    mask = (torch.rand(n, 1, h, w, 1, generator=g) < 0.5)
    mask[:, :, h // 2, :, :] = True
    mask[:, :, max(h // 2 - 1, 0), :, :] = True  # two sampled rows: a single one gives a constant-modulus image
    sens = torch.randn(n, c, h, w, 2, generator=g, dtype=dt)
    sens = sens / (sens**2).sum(dim=(1, -1), keepdim=True).sqrt()
    # per-sample scaling factors (as the data pipeline computes them), for the models that take them
    sf = 0.5 + 2.0 * torch.rand(n, generator=g, dtype=dt)
    # an initial image as a network hands it on: channels-first storage viewed channels-last (dense, not contiguous)
    img = (torch.randn(n, 2, h, w, generator=g, dtype=dt) * scale).permute(0, 2, 3, 1)
    return {"kspace": torch.where(mask, ks, torch.zeros(1, dtype=dt)), "mask": mask, "sens": sens, "scaling_factor": sf, "image": img}


def entries():
    """List of zoo entries. Imports happen lazily so that a model that fails to import only loses its own entries."""
    import torch

    F, B = _ops()
    out = []

    def add(name, build, call, kind, minsize, coil_invariant=True, family=None, unet=None, adm=None):
        # unet = pooling depth L of a plain (unpadded) U-Net inside: its bottleneck (h >> L, w >> L) feeds an instance
        # norm, which torch defines for more than one spatial element only
        def seeded():
            torch.manual_seed(1234)
            m = build()
            return m

        out.append({"name": name, "build": seeded, "call": call, "kind": kind, "min": minsize, "coil_invariant": coil_invariant, "family": family or name.split(":")[0],
                    "unet": unet, "adm": adm})

    kms = lambda m, b: [m(b["kspace"], b["mask"], b["sens"])]  # noqa: E731
    ksm = lambda m, b: [m(b["kspace"], b["sens"], b["mask"])]  # noqa: E731

    # ---- building-block denoisers (raw tensors (N, C, H, W)) ----
    def raw(m, b):
        n, c, h, w, _ = b["kspace"].shape
        return [m(b["kspace"][:, 0].permute(0, 3, 1, 2).contiguous())]

    from direct.nn.unet.unet_2d import NormUnetModel2d, Unet2d, UnetModel2d
    from direct.nn.mwcnn.mwcnn import MWCNN
    from direct.nn.didn.didn import DIDN
    from direct.nn.resnet.resnet import ResNet
    from direct.nn.conv.conv import Conv2d

    for L in (1, 2, 3):
        add("UnetModel2d:L%d" % L, lambda L=L: UnetModel2d(2, 2, 4, L, 0.0), raw, "raw", 2**L, unet=L)
        add("NormUnetModel2d:L%d" % L, lambda L=L: NormUnetModel2d(2, 2, 4, L, 0.0), raw, "raw", 1)
    for S in (1, 2, 3):
        add("MWCNN:S%d" % S, lambda S=S: MWCNN(2, 4, num_scales=S), raw, "raw", 2**S)
    add("MWCNN:S2-batchnorm", lambda: MWCNN(2, 4, num_scales=2, batchnorm=True), raw, "raw", 4)
    add("DIDN", lambda: DIDN(2, 2, hidden_channels=4, num_dubs=2, num_convs_recon=2), raw, "raw", 3)
    add("DIDN:skip", lambda: DIDN(2, 2, hidden_channels=4, num_dubs=1, num_convs_recon=1, skip_connection=True), raw, "raw", 3)
    add("ResNet", lambda: ResNet(hidden_channels=4, in_channels=2, num_blocks=2, batchnorm=True), raw, "raw", 1)
    add("ResNet:nobn", lambda: ResNet(hidden_channels=4, in_channels=2, num_blocks=2, batchnorm=False, scale=None), raw, "raw", 1)
    add("Conv2d", lambda: Conv2d(2, 2, 4, n_convs=3), raw, "raw", 1)
    add("Conv2d:batchnorm", lambda: Conv2d(2, 2, 4, n_convs=2, batchnorm=True), raw, "raw", 1)

    # ---- 3-D blocks ----
    from direct.nn.unet.unet_3d import NormUnetModel3d, UnetModel3d

    def raw3(m, b):
        x = b["kspace"].permute(0, 4, 1, 2, 3).contiguous()  # (N, 2, coil as depth, H, W)
        return [m(x)]

    # pad_to_pow_of_2 brings every axis up to 2^L; the bottleneck instance norm then needs more than one element
    add("UnetModel3d:L2", lambda: UnetModel3d(2, 2, 2, 2, 0.0), raw3, "raw3", 1, family="UnetModel3d", adm=lambda c, h, w: (max(c, 4) >> 2) * (max(h, 4) >> 2) * (max(w, 4) >> 2) >= 2)
    add("NormUnetModel3d:L2", lambda: NormUnetModel3d(2, 2, 2, 2, 0.0), raw3, "raw3", 1, family="UnetModel3d")

    # ---- full reconstruction models ----
    from direct.nn.varnet.varnet import EndToEndVarNet

    add("EndToEndVarNet", lambda: EndToEndVarNet(F, B, 2, regularizer_num_filters=4, regularizer_num_pull_layers=2), kms, "kspace", 4, coil_invariant=False, unet=2)

    add("Unet2d", lambda: Unet2d(F, B, num_filters=4, num_pool_layers=2, dropout_probability=0.0), lambda m, b: [m(b["kspace"], b["sens"])], "image", 4, unet=2)
    add("Unet2d:normalized-skip", lambda: Unet2d(F, B, num_filters=4, num_pool_layers=2, dropout_probability=0.0, normalized=True, skip_connection=True), lambda m, b: [m(b["kspace"], b["sens"])], "image", 1)
    from direct.nn.types import InitType

    add("Unet2d:sense", lambda: Unet2d(F, B, num_filters=4, num_pool_layers=2, dropout_probability=0.0, image_initialization=InitType.SENSE), lambda m, b: [m(b["kspace"], b["sens"])], "image", 4, unet=2)

    from direct.nn.rim.rim import RIM

    def rim_call(m, b):
        return [m(input_image=None, masked_kspace=b["kspace"], sampling_mask=b["mask"], sensitivity_map=b["sens"])[0][-1]]

    add("RIM", lambda: RIM(F, B, hidden_channels=4, length=2, depth=1), rim_call, "image_cf", 1)
    def rim_call_img(m, b):
        return [m(input_image=b["image"], masked_kspace=b["kspace"], sampling_mask=b["mask"], sensitivity_map=b["sens"])[0][-1]]

    add("RIM:given-initial-image", lambda: RIM(F, B, hidden_channels=4, length=2, depth=1, skip_connections=True), rim_call_img, "image_cf", 1)
    add("RIM:instance_norm-dense", lambda: RIM(F, B, hidden_channels=4, length=2, depth=2, instance_norm=True, dense_connect=True, no_parameter_sharing=False), rim_call, "image_cf", 1)
    add("RIM:sense-learned-init-normalized", lambda: RIM(F, B, hidden_channels=4, length=2, depth=1, image_initialization="sense", learned_initializer=True, initializer_channels=(4, 4, 4, 4), normalized=True), rim_call, "image_cf", 1)

    from direct.nn.lpd.lpd import LPDNet

    small = dict(primal_mwcnn_hidden_channels=4, primal_mwcnn_num_scales=2, primal_unet_num_filters=4, primal_unet_num_pool_layers=2, dual_conv_hidden_channels=4, dual_conv_n_convs=2, dual_didn_hidden_channels=4, dual_didn_num_dubs=1, dual_didn_num_convs_recon=1, dual_unet_num_filters=4, dual_unet_num_pool_layers=2)
    pmin = {"MWCNN": 4, "UNET": 4, "NORMUNET": 1}
    dmin = {"CONV": 1, "DIDN": 3, "UNET": 4, "NORMUNET": 1}
    for p in ("MWCNN", "UNET", "NORMUNET"):
        for d in ("CONV", "DIDN", "UNET", "NORMUNET"):
            add("LPDNet:%s-%s" % (p, d), lambda p=p, d=d: LPDNet(F, B, num_iter=2, num_primal=2, num_dual=2, primal_model_architecture=p, dual_model_architecture=d, **small), ksm, "image", max(pmin[p], dmin[d]), unet=2 if "UNET" in (p, d) else None)

    from direct.nn.xpdnet.xpdnet import XPDNet

    xs = dict(mwcnn_hidden_channels=4, mwcnn_num_scales=2, dual_conv_hidden_channels=4, dual_conv_n_convs=2, dual_didn_hidden_channels=4, dual_didn_num_dubs=1, dual_didn_num_convs_recon=1)
    add("XPDNet:primal-only", lambda: XPDNet(F, B, num_primal=2, num_dual=1, num_iter=2, use_primal_only=True, **xs), kms, "image", 4)
    add("XPDNet:CONV", lambda: XPDNet(F, B, num_primal=2, num_dual=2, num_iter=2, use_primal_only=False, kspace_model_architecture="CONV", **xs), kms, "image", 4)
    add("XPDNet:DIDN-normalize", lambda: XPDNet(F, B, num_primal=2, num_dual=2, num_iter=2, use_primal_only=False, kspace_model_architecture="DIDN", normalize=True, **xs), lambda m, b: [m(b["kspace"], b["mask"], b["sens"], b["scaling_factor"])], "image", 4)

    from direct.nn.kikinet.kikinet import KIKINet

    ksm_small = dict(image_mwcnn_hidden_channels=4, image_mwcnn_num_scales=2, image_unet_num_filters=4, image_unet_num_pool_layers=2, kspace_conv_hidden_channels=4, kspace_conv_n_convs=2, kspace_didn_hidden_channels=4, kspace_didn_num_dubs=1, kspace_didn_num_convs_recon=1, kspace_unet_num_filters=4, kspace_unet_num_pool_layers=2)
    for p in ("MWCNN", "UNET", "NORMUNET"):
        for d in ("CONV", "DIDN", "UNET", "NORMUNET"):
            add("KIKINet:%s-%s" % (p, d), lambda p=p, d=d: KIKINet(F, B, image_model_architecture=p, kspace_model_architecture=d, num_iter=2, **ksm_small), kms, "image", max(pmin[p], dmin[d]), unet=2 if "UNET" in (p, d) else None)
    kms_sf = lambda m, b: [m(b["kspace"], b["mask"], b["sens"], b["scaling_factor"])]  # noqa: E731
    add("KIKINet:normalize", lambda: KIKINet(F, B, image_model_architecture="UNET", kspace_model_architecture="CONV", num_iter=1, normalize=True, **ksm_small), kms_sf, "image", 4, unet=2)

    from direct.nn.jointicnet.jointicnet import JointICNet

    js = dict(image_unet_num_filters=4, image_unet_num_pool_layers=2, kspace_unet_num_filters=4, kspace_unet_num_pool_layers=2, sens_unet_num_filters=4, sens_unet_num_pool_layers=2)
    add("JointICNet", lambda: JointICNet(F, B, 2, False, **js), kms, "image", 4, unet=2)
    add("JointICNet:normunet", lambda: JointICNet(F, B, 2, True, **js), kms, "image", 1)

    from direct.nn.multidomainnet.multidomainnet import MultiDomainNet

    md = lambda m, b: [m(b["kspace"], b["sens"])]  # noqa: E731
    add("MultiDomainNet:standardization", lambda: MultiDomainNet(F, B, True, 4, 2), md, "kspace", 4, coil_invariant=False, unet=2)
    add("MultiDomainNet", lambda: MultiDomainNet(F, B, False, 4, 2), md, "kspace", 4, coil_invariant=False, unet=2)

    from direct.nn.recurrentvarnet.recurrentvarnet import RecurrentVarNet

    add("RecurrentVarNet", lambda: RecurrentVarNet(F, B, num_steps=2, recurrent_hidden_channels=4, recurrent_num_layers=2), kms, "kspace", 1, coil_invariant=False)
    add("RecurrentVarNet:learned-init-normalized", lambda: RecurrentVarNet(F, B, num_steps=2, recurrent_hidden_channels=4, recurrent_num_layers=2, no_parameter_sharing=False, learned_initializer=True, initializer_initialization=InitType.SENSE, initializer_channels=(4, 4, 4, 4), normalized=True), kms, "kspace", 1, coil_invariant=False)

    add("RecurrentVarNet:multiscale-init", lambda: RecurrentVarNet(F, B, num_steps=2, recurrent_hidden_channels=4, recurrent_num_layers=2, learned_initializer=True, initializer_initialization=InitType.SENSE, initializer_channels=(4, 4, 4, 4), initializer_multiscale=3), kms, "kspace", 1, coil_invariant=False)
    add("RIM:multiscale-init", lambda: RIM(F, B, hidden_channels=4, length=2, depth=2, image_initialization="sense", learned_initializer=True, initializer_channels=(4, 4, 4, 4), initializer_multiscale=2), rim_call, "image_cf", 1)

    from direct.nn.cirim.cirim import CIRIM

    def cirim_call(m, b):
        return [next(m(b["kspace"], b["mask"], b["sens"]))[-1][-1]]

    add("CIRIM", lambda: CIRIM(F, B, depth=2, time_steps=2, recurrent_hidden_channels=4, num_cascades=2), cirim_call, "modulus", 1)

    from direct.nn.iterdualnet.iterdualnet import IterDualNet

    it = dict(image_unet_num_filters=4, image_unet_num_pool_layers=2, kspace_unet_num_filters=4, kspace_unet_num_pool_layers=2)
    add("IterDualNet", lambda: IterDualNet(F, B, num_iter=2, **it), kms, "image", 4, unet=2)
    add("IterDualNet:normunet-shared-nocoil", lambda: IterDualNet(F, B, num_iter=2, image_normunet=True, kspace_normunet=True, image_no_parameter_sharing=False, kspace_no_parameter_sharing=False, compute_per_coil=False, **it), kms, "image", 1)

    from direct.nn.conjgradnet.conjgradnet import ConjGradNet
    from direct.nn.types import ModelName

    add("ConjGradNet:resnet", lambda: ConjGradNet(F, B, num_steps=2, denoiser_architecture=ModelName.RESNET, cg_iters=3, resnet_hidden_channels=4, resnet_num_blocks=2, resnet_batchnorm=True, resnet_scale=None), ksm, "image", 1)
    add("ConjGradNet:resnet-zeros", lambda: ConjGradNet(F, B, num_steps=2, denoiser_architecture=ModelName.RESNET, image_init=InitType.ZEROS, cg_iters=3, resnet_hidden_channels=4, resnet_num_blocks=1, resnet_batchnorm=False, resnet_scale=None), ksm, "image", 1)
    add("ConjGradNet:unet-zero-filled", lambda: ConjGradNet(F, B, num_steps=2, denoiser_architecture=ModelName.UNET, image_init=InitType.ZERO_FILLED, cg_iters=3, unet_num_filters=4, unet_num_pool_layers=2), ksm, "image", 4, unet=2)

    from direct.nn.varsplitnet.varsplitnet import MRIVarSplitNet

    add("MRIVarSplitNet:unet", lambda: MRIVarSplitNet(F, B, 2, 2, image_model_architecture=ModelName.UNET, image_unet_num_filters=4, image_unet_num_pool_layers=2), ksm, "image", 4, unet=2)
    add("MRIVarSplitNet:conv-kspace-conv", lambda: MRIVarSplitNet(F, B, 2, 1, InitType.ZERO_FILLED, False, ModelName.CONV, False, ModelName.CONV, image_conv_hidden_channels=4, image_conv_n_convs=2, kspace_conv_hidden_channels=4, kspace_conv_n_convs=2), lambda m, b: [m(b["kspace"], b["sens"], b["mask"], b["scaling_factor"])], "image", 1)

    from direct.nn.vsharp.vsharp import VSharpNet

    def vs_call(m, b):
        return list(m(b["kspace"], b["sens"], b["mask"]))

    add("VSharpNet:unet", lambda: VSharpNet(F, B, num_steps=2, num_steps_dc_gd=2, image_model_architecture=ModelName.UNET, initializer_channels=(4, 4, 4, 4), auxiliary_steps=-1, image_unet_num_filters=4, image_unet_num_pool_layers=2), vs_call, "image", 4, unet=2)
    add("VSharpNet:multiscale-init", lambda: VSharpNet(F, B, num_steps=2, num_steps_dc_gd=1, image_model_architecture=ModelName.CONV, initializer_channels=(4, 4, 4, 4), initializer_multiscale=2, auxiliary_steps=-1, image_conv_hidden_channels=4, image_conv_n_convs=2), vs_call, "image", 1)
    add("VSharpNet:didn-aux", lambda: VSharpNet(F, B, num_steps=2, num_steps_dc_gd=1, no_parameter_sharing=False, image_model_architecture=ModelName.DIDN, initializer_channels=(4, 4, 4, 4), auxiliary_steps=1, image_didn_hidden_channels=4, image_didn_num_dubs=1, image_didn_num_convs_recon=1), vs_call, "image", 3)
    return out


def expected_shape(kind, batch):
    n, c, h, w, _ = batch["kspace"].shape
    return {"image": (n, h, w, 2), "kspace": (n, c, h, w, 2), "image_cf": (n, 2, h, w), "raw": (n, 2, h, w), "raw3": (n, 2, c, h, w), "modulus": (n, h, w)}[kind]


def admissible(e, h, w, coils=3):
    """Sizes the architecture is defined for (below them torch itself rejects the input)."""
    if e.get("adm") is not None and not e["adm"](coils, h, w):
        return False
    if h < e["min"] or w < e["min"]:
        return False
    if h * w < 2:
        return False  # a (group / instance) normalisation over one element is undefined
    if e.get("unet") is not None and (h >> e["unet"]) * (w >> e["unet"]) < 2:
        return False
    return True
