"""AST -> operator-expression IR (coq/Base/OpIR.v) for the masked MRI operators (shared by C03 and C19)."""
import ast

from .core import Untranslatable
from . import py2gallina as pg

# variable numbering (tensor / mask / scalar namespaces are separate in the Coq semantics)
TVARS = {"kspace": 0, "masked_kspace": 0, "input_kspace": 0, "image": 1, "input_image": 1, "x": 1, "sensitivity_map": 2, "data": 0}
MVARS = {"sampling_mask": 0, "mask": 0, "mask_func": 0, "padding": 1}
SVARS = {"loglikelihood_scaling": 0, "lambd": 1}


class OpT:
    def __init__(self, path, env=None, inline=None):
        self.path = path
        self.env = dict(env or {})  # local name -> oexp string
        self.inline = inline or {}  # method name -> (params, body term builder)

    def fail(self, node, why):
        raise Untranslatable("operator IR: %s: %s" % (why, ast.unparse(node)[:80]), getattr(node, "lineno", None), self.path)

    def mask(self, node):
        nm = ast.unparse(node)
        if nm in self.env and self.env[nm].startswith("MASK:"):
            return self.env[nm][5:]
        if nm in MVARS:
            return str(MVARS[nm])
        self.fail(node, "mask expression is not a mask input")

    def zero_tensor(self, node):
        s = ast.unparse(node)
        return s.startswith("torch.tensor([0.0]") or s in ("0", "0.0")

    def t(self, node):
        src = ast.unparse(node)
        if isinstance(node, ast.Name):
            if node.id in self.env:
                v = self.env[node.id]
                if v.startswith("MASK:") or v.startswith("SCALAR:"):
                    self.fail(node, "mask/scalar used as tensor")
                return v
            if node.id in TVARS:
                return "(OVar %d)" % TVARS[node.id]
            self.fail(node, "unknown tensor name")
        if isinstance(node, ast.Call):
            fn = ast.unparse(node.func)
            kws = {k.arg: k.value for k in node.keywords}
            if fn == "torch.where" and len(node.args) == 3:
                c = node.args[0]
                if isinstance(c, ast.Compare) and len(c.ops) == 1 and isinstance(c.ops[0], ast.Eq) and self.zero_tensor(node.args[1]):
                    rhs = ast.unparse(c.comparators[0])
                    if rhs == "0":
                        return "(OWhere0 %s %s)" % (self.mask(c.left), self.t(node.args[2]))
                    if rhs == "1":
                        return "(OWherePad %s %s)" % (self.mask(c.left), self.t(node.args[2]))
                self.fail(node, "torch.where outside subset")
            if fn in ("T.apply_mask", "apply_mask"):
                rm = kws.get("return_mask")
                if len(node.args) != 2 or rm is None or ast.unparse(rm) != "False":
                    self.fail(node, "apply_mask call must be apply_mask(E, mask, return_mask=False)")
                return self.call_inlined("apply_mask", node.args)
            if fn in ("self.forward_operator", "self.backward_operator"):
                if len(node.args) != 1 or set(kws) != {"dim"} or ast.unparse(kws["dim"]) != "self._spatial_dims":
                    self.fail(node, "operator call must be op(E, dim=self._spatial_dims)")
                return "(%s %s)" % ("OFwd" if "forward" in fn else "OBwd", self.t(node.args[0]))
            if fn in ("T.expand_operator", "expand_operator"):
                if len(node.args) != 2 or ast.unparse(kws.get("dim", ast.Constant(None))) != "self._coil_dim":
                    self.fail(node, "expand_operator call outside subset")
                return "(OExpand %s %s)" % (self.t(node.args[0]), self.t(node.args[1]))
            if fn in ("T.reduce_operator", "reduce_operator"):
                if len(node.args) != 2 or ast.unparse(kws.get("dim", ast.Constant(None))) != "self._coil_dim":
                    self.fail(node, "reduce_operator call outside subset")
                return "(OReduce %s %s)" % (self.t(node.args[0]), self.t(node.args[1]))
            if fn in ("T.complex_multiplication", "complex_multiplication") and len(node.args) == 2:
                a, b = node.args
                # S * x.unsqueeze(coil): coil expansion
                if isinstance(b, ast.Call) and ast.unparse(b.func).endswith(".unsqueeze") and ast.unparse(b.args[0]) in ("1", "self._coil_dim"):
                    return "(OExpand %s %s)" % (self.t(b.func.value), self.t(a))
                self.fail(node, "complex_multiplication outside subset")
            if fn.endswith(".sum") and len(node.args) == 1 and ast.unparse(node.args[0]) == "self._coil_dim":
                inner = node.func.value
                if isinstance(inner, ast.Call) and ast.unparse(inner.func) in ("T.complex_multiplication", "complex_multiplication"):
                    a, b = inner.args
                    if isinstance(a, ast.Call) and ast.unparse(a.func) in ("T.conjugate", "conjugate"):
                        return "(OReduce %s %s)" % (self.t(b), self.t(a.args[0]))
                self.fail(node, "coil sum outside subset")
            if fn.endswith(".permute"):
                tag = {"(0, 2, 3, 1)": 1, "(0, 3, 1, 2)": 2}.get("(" + ", ".join(ast.unparse(a) for a in node.args) + ")")
                if tag is None:
                    self.fail(node, "permute outside subset")
                return "(OLayout %d %s)" % (tag, self.t(node.func.value))
            if fn.startswith("self.") and fn[5:] in self.inline:
                return self.call_inlined(fn[5:], node.args)
            self.fail(node, "call outside subset")
        if isinstance(node, ast.BinOp):
            if isinstance(node.op, ast.Sub):
                return "(OSub %s %s)" % (self.t(node.left), self.t(node.right))
            if isinstance(node.op, ast.Add):
                return "(OAdd %s %s)" % (self.t(node.left), self.t(node.right))
            if isinstance(node.op, ast.Mult):
                l = ast.unparse(node.left)
                if l in SVARS or (l in self.env and self.env[l].startswith("SCALAR:")):
                    sv = SVARS[l] if l in SVARS else int(self.env[l][7:])
                    return "(OScale %d %s)" % (sv, self.t(node.right))
            self.fail(node, "binary operation outside subset")
        self.fail(node, "expression outside subset")

    def call_inlined(self, name, args):
        params, term = self.inline[name]
        if len(args) != len(params):
            raise Untranslatable("operator IR: arity mismatch inlining %s" % name, None, self.path)
        sub = OpT(self.path, {}, self.inline)
        for p, a in zip(params, args):
            if p in MVARS:
                sub.env[p] = "MASK:" + self.mask(a)
            elif p in SVARS:
                sub.env[p] = "SCALAR:%d" % (SVARS[ast.unparse(a)] if ast.unparse(a) in SVARS else int(self.env[ast.unparse(a)][7:]))
            else:
                sub.env[p] = self.t(a)
        return term(sub)


def body_term(fn_node, path, inline=None, env=None, skip=(), if_rules=None):
    """Translate a function body made of local assignments and a final return into one oexp string.

    if_rules: {unparsed test: "body" | "skip"} - how to treat `if` statements (anything else is refused)."""
    tr = OpT(path, env, inline)
    stmts = list(pg.strip_doc(fn_node.body))
    while stmts:
        s = stmts.pop(0)
        src = ast.unparse(s)
        if any(src.startswith(p) for p in skip):
            continue
        if isinstance(s, ast.If):
            rule = (if_rules or {}).get(ast.unparse(s.test))
            if rule == "skip":
                continue
            if rule == "body":
                stmts = list(s.body) + stmts
                continue
            raise Untranslatable("operator IR: conditional outside subset: if %s" % ast.unparse(s.test)[:60], s.lineno, path)
        if isinstance(s, ast.Assign) and len(s.targets) == 1 and isinstance(s.targets[0], ast.Name):
            tr.env[s.targets[0].id] = tr.t(s.value)
        elif isinstance(s, ast.Return):
            return tr.t(s.value)
        else:
            raise Untranslatable("operator IR: statement outside subset: %s" % src[:70], s.lineno, path)
    raise Untranslatable("operator IR: no return", fn_node.lineno, path)


def standard_terms(ctx):
    """The operator terms shared by C03 and C19; returns (coq text, dict name -> term)."""
    terms = {}
    path = ctx.src("direct/data/transforms.py")
    tree, _ = pg.parse_file(path)
    # apply_mask: the torch.where expression, and the mask used when a callable is given
    fn = pg.find_def(tree, "apply_mask", path)
    body = pg.strip_doc(fn.body)
    srcs = [ast.unparse(x) for x in body]
    want_if = "if not isinstance(mask_func, torch.Tensor):\n    shape = np.array(kspace.shape)[1:]\n    mask = mask_func(shape=shape, seed=seed)\nelse:\n    mask = mask_func"
    if srcs[0] != "assert_complex(kspace, complex_last=True)" or srcs[1] != want_if or len(body) != 5 or srcs[3] != "if not return_mask:\n    return masked_kspace" or srcs[4] != "return (masked_kspace, mask)":
        raise Untranslatable("apply_mask: body outside subset", fn.lineno, path)
    where_ast = body[2].value
    if ast.unparse(body[2].targets[0]) != "masked_kspace":
        raise Untranslatable("apply_mask: expected masked_kspace = torch.where(...)", body[2].lineno, path)
    inline = {"apply_mask": (["kspace", "mask"], lambda sub: sub.t(where_ast))}
    top = OpT(path, {"mask": "MASK:0"}, inline)
    terms["apply_mask_t"] = top.t(where_ast)
    fn = pg.find_def(tree, "apply_padding", path)
    body = pg.strip_doc(fn.body)
    if ast.unparse(body[0]) != "if padding is None:\n    return data" or len(body) != 2 or not isinstance(body[1], ast.Return):
        raise Untranslatable("apply_padding: body outside subset", fn.lineno, path)
    terms["apply_padding_t"] = OpT(path, {}, inline).t(body[1].value)
    # ApplyMaskModule.forward
    path2 = ctx.src("direct/data/mri_transforms.py")
    tree2, _ = pg.parse_file(path2)
    fn = pg.find_def(tree2, "ApplyMaskModule.forward", path2)
    call = None
    stored = False
    for st in pg.strip_doc(fn.body):
        src = ast.unparse(st)
        if src == "target_kspace, _ = T.apply_mask(input_kspace, sampling_mask)":
            call = st.value
        elif src == "sample[self.target_kspace_key] = target_kspace":
            stored = True
        elif src.startswith("input_kspace = sample[self.input_kspace_key]") or src.startswith("sampling_mask = sample[self.sampling_mask_key]") or src.startswith("if self.") or src == "return sample":
            continue
        else:
            raise Untranslatable("ApplyMaskModule.forward: statement outside subset: %s" % src[:60], st.lineno, path2)
    if call is None or not stored:
        raise Untranslatable("ApplyMaskModule.forward: masked k-space is not apply_mask(input_kspace, sampling_mask)", fn.lineno, path2)
    terms["apply_mask_module_t"] = OpT(path2, {}, inline).call_inlined("apply_mask", call.args)
    # engine operators
    path3 = ctx.src("direct/nn/mri_models.py")
    tree3, _ = pg.parse_file(path3)
    terms["fwd_op_t"] = body_term(pg.find_def(tree3, "MRIModelEngine._forward_operator", path3), path3, inline)
    terms["bwd_op_t"] = body_term(pg.find_def(tree3, "MRIModelEngine._backward_operator", path3), path3, inline)
    # RIM likelihood gradient
    path4 = ctx.src("direct/nn/rim/rim.py")
    tree4, _ = pg.parse_file(path4)
    rules = {"loglikelihood_scaling is not None": "skip", "sensitivity_map is not None": "body"}
    terms["loglik_t"] = body_term(pg.find_def(tree4, "MRILogLikelihood.forward", path4), path4, inline, skip=("loglikelihood_scaling = ",), if_rules=rules)
    # conjugate-gradient operators
    path5 = ctx.src("direct/nn/conjgradnet/conjgrad.py")
    tree5, _ = pg.parse_file(path5)
    astar = pg.find_def(tree5, "ConjGrad._A_star_op", path5)
    terms["a_star_t"] = body_term(astar, path5, inline)
    inl2 = dict(inline)
    astar_ret = pg.strip_doc(astar.body)[-1].value
    inl2["_A_star_op"] = (["kspace", "sensitivity_map", "sampling_mask"], lambda sub: sub.t(astar_ret))
    asa = pg.find_def(tree5, "ConjGrad._A_star_A_op", path5)
    terms["a_star_a_t"] = body_term(asa, path5, inl2)
    asa_body = pg.strip_doc(asa.body)

    def asa_builder(sub):
        for st in asa_body[:-1]:
            sub.env[st.targets[0].id] = sub.t(st.value)
        return sub.t(asa_body[-1].value)

    inl3 = dict(inl2)
    inl3["_A_star_A_op"] = (["image", "sensitivity_map", "sampling_mask"], asa_builder)
    terms["b_op_t"] = body_term(pg.find_def(tree5, "ConjGrad.B_op", path5), path5, inl3)
    text = "From DV Require Import Base.OpIR.\nOpen Scope nat_scope.\n" + "".join("Definition %s : oexp := %s.\n" % kv for kv in terms.items())
    return text, terms
