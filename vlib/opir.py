"""AST -> operator-expression IR (coq/Base/OpIR.v) for the masked MRI operators (shared by C03 and C19)."""
import ast

from .core import Untranslatable
from . import py2gallina as pg, symex as X

# variable numbering (tensor / mask / scalar namespaces are separate in the Coq semantics)
TVARS = {"kspace": 0, "masked_kspace": 0, "input_kspace": 0, "image": 1, "input_image": 1, "x": 1, "sensitivity_map": 2, "data": 0}
MVARS = {"sampling_mask": 0, "mask": 0, "mask_func": 0, "padding": 1}
SVARS = {"loglikelihood_scaling": 0, "lambd": 1}


S = lambda n: ("sym", n)
SELF = S("self")


class OpV:
    """Value trees of a symbolic execution (vlib/symex.py) -> operator-expression IR. Local names, intermediates and
    helpers of the source do not appear in the value trees, so they do not matter here."""

    def __init__(self, path):
        self.path = path

    def fail(self, v, why):
        raise Untranslatable("operator IR: %s: %s" % (why, X.show(v)[:100]), None, self.path)

    def mask(self, v):
        if v[0] == "sym" and v[1] in MVARS:
            return str(MVARS[v[1]])
        self.fail(v, "mask expression is not a mask input")

    def scalar(self, v):
        """Index of a scalar input, looking through reshapes; the constant-one tensor used when no scaling is given
        stands for the same scalar (both paths must give the same term)."""
        while v[0] == "call" and v[1][0] == "attr" and v[1][2] in ("reshape", "view", "to"):
            v = v[1][1]
        if v[0] == "sym" and v[1] in SVARS:
            return SVARS[v[1]]
        if v[0] == "call" and v[1] == ("attr", S("torch"), "tensor") and v[2][:1] == (("list", (X.const(1.0),)),):
            return SVARS["loglikelihood_scaling"]
        return None

    def zero_tensor(self, v):
        while v[0] == "call" and v[1][0] == "attr" and v[1][2] == "to":
            v = v[1][1]
        return v in (X.const(0), X.const(0.0)) or (v[0] == "call" and v[1] == ("attr", S("torch"), "tensor") and v[2][:1] in ((("list", (X.const(0.0),)),), (X.const(0.0),)))

    def t(self, v):
        if v[0] == "sym":
            if v[1] in TVARS:
                return "(OVar %d)" % TVARS[v[1]]
            self.fail(v, "unknown tensor name")
        if v[0] == "call":
            f, args, kw = v[1], v[2], dict(v[3])
            if f == ("attr", S("torch"), "where") and len(args) == 3 and not kw:
                c = args[0]
                if c[0] == "cmp" and c[1] == "==" and self.zero_tensor(args[1]):
                    if c[3] in (X.const(0), X.const(0.0)):
                        return "(OWhere0 %s %s)" % (self.mask(c[2]), self.t(args[2]))
                    if c[3] in (X.const(1), X.const(1.0)):
                        return "(OWherePad %s %s)" % (self.mask(c[2]), self.t(args[2]))
                self.fail(v, "torch.where outside subset")
            if f in (("attr", SELF, "forward_operator"), ("attr", SELF, "backward_operator")):
                if len(args) != 1 or kw != {"dim": ("attr", SELF, "_spatial_dims")}:
                    self.fail(v, "operator call must be op(E, dim=self._spatial_dims)")
                return "(%s %s)" % ("OFwd" if "forward" in f[2] else "OBwd", self.t(args[0]))
            coil = (("attr", SELF, "_coil_dim"), X.const(1))
            if f in (("attr", S("T"), "expand_operator"), S("expand_operator")):
                a0, a1 = X.arg(v, 0, "data"), X.arg(v, 1, "sensitivity_map")
                if a0 is None or a1 is None or X.arg(v, 2, "dim") not in coil or len(args) + len(kw) != 3:
                    self.fail(v, "expand_operator call outside subset")
                return "(OExpand %s %s)" % (self.t(a0), self.t(a1))
            if f in (("attr", S("T"), "reduce_operator"), S("reduce_operator")):
                a0, a1 = X.arg(v, 0, "coil_data"), X.arg(v, 1, "sensitivity_map")
                if a0 is None or a1 is None or X.arg(v, 2, "dim") not in coil or len(args) + len(kw) != 3:
                    self.fail(v, "reduce_operator call outside subset")
                return "(OReduce %s %s)" % (self.t(a0), self.t(a1))
            cmul = (("attr", S("T"), "complex_multiplication"), S("complex_multiplication"))
            if f in cmul and len(args) == 2 and not kw:
                a, b = args
                if b[0] == "call" and b[1][0] == "attr" and b[1][2] == "unsqueeze" and (list(b[2]) + [dict(b[3]).get("dim")])[0] in coil:
                    return "(OExpand %s %s)" % (self.t(b[1][1]), self.t(a))
                self.fail(v, "complex_multiplication outside subset")
            if f[0] == "attr" and f[2] == "sum" and (list(args) + [kw.get("dim")])[0] in coil:
                inner = f[1]
                if inner[0] == "call" and inner[1] in cmul and len(inner[2]) == 2:
                    a, b = inner[2]
                    if a[0] == "call" and a[1] in (("attr", S("T"), "conjugate"), S("conjugate")) and len(a[2]) == 1:
                        return "(OReduce %s %s)" % (self.t(b), self.t(a[2][0]))
                self.fail(v, "coil sum outside subset")
            if f[0] == "attr" and f[2] == "permute" and not kw:
                perm = args[0][1] if len(args) == 1 and args[0][0] in ("tuple", "list") else args
                tag = {(0, 2, 3, 1): 1, (0, 3, 1, 2): 2}.get(tuple(x[1] if X.is_const(x) else None for x in perm))
                if tag is None:
                    self.fail(v, "permute outside subset")
                return "(OLayout %d %s)" % (tag, self.t(f[1]))
            self.fail(v, "call outside subset")
        if v[0] == "bin":
            if v[1] == "-":
                return "(OSub %s %s)" % (self.t(v[2]), self.t(v[3]))
            if v[1] == "+":
                return "(OAdd %s %s)" % (self.t(v[2]), self.t(v[3]))
            if v[1] == "*":
                for sc, te in ((v[2], v[3]), (v[3], v[2])):
                    k = self.scalar(sc)
                    if k is not None:
                        return "(OScale %d %s)" % (k, self.t(te))
            self.fail(v, "binary operation outside subset")
        self.fail(v, "expression outside subset")


def _apply_mask_hook(ctx):
    """T.apply_mask(E, mask, return_mask=False) in another module is executed in place: the masked k-space it returns."""
    path = ctx.src("direct/data/transforms.py")
    tree, _ = pg.parse_file(path)

    def hook(args, kwargs):
        kw = dict(kwargs)
        if len(args) != 2 or kw.get("return_mask") != X.FALSE or set(kw) != {"return_mask"}:
            return None
        tensor_test = ("call", S("isinstance"), (args[1], ("attr", S("torch"), "Tensor")), ())
        t, _n = X.run_function(tree, path, "apply_mask", args={"kspace": args[0], "mask_func": args[1], "return_mask": X.FALSE}, assume=[(tensor_test, True)])
        t = X.prune_raises(X.drop_do(t))
        if t is None or t[0] != "ret":
            raise Untranslatable("apply_mask: the masked k-space depends on a branch", None, path)
        return t[1]

    return hook


def _term(ctx, tree, path, qualname, hooks, select=None):
    """The operator term of a method: the value it returns on the selected paths (all paths must agree)."""
    t, _n = X.run_function(tree, path, qualname, callhooks=hooks)
    t = X.lift_ife(X.prune_raises(X.drop_do(t)))
    tr = OpV(path)
    forms = set()
    for conds, lf in X.leaves(t):
        if select is not None and not select(conds):
            continue
        forms.add(tr.t(lf[1]))
    if len(forms) != 1:
        raise Untranslatable("operator IR: %s: the result differs between paths (or no path selected): %s" % (qualname, sorted(forms)[:2]), None, path)
    return forms.pop()


def standard_terms(ctx):
    """The operator terms shared by C03 and C19; returns (coq text, dict name -> term)."""
    terms = {}
    path = ctx.src("direct/data/transforms.py")
    tree, _ = pg.parse_file(path)
    tr = OpV(path)
    # apply_mask with a tensor mask: the masked k-space, alone or with the mask it was given
    tensor_test = ("call", S("isinstance"), (S("mask_func"), ("attr", S("torch"), "Tensor")), ())
    t, _n = X.run_function(tree, path, "apply_mask", assume=[(tensor_test, True)])
    t = X.prune_raises(X.drop_do(t))
    forms = set()
    for conds, lf in X.leaves(t):
        v = lf[1]
        if v[0] == "tuple":
            if len(v[1]) != 2 or v[1][1] != S("mask_func"):
                raise Untranslatable("apply_mask: the mask returned is not the mask given", None, path)
            v = v[1][0]
        forms.add(tr.t(v))
    if len(forms) != 1:
        raise Untranslatable("apply_mask: the masked k-space differs between return_mask settings", None, path)
    terms["apply_mask_t"] = forms.pop()
    # ... and with a mask function: called once as mask_func(shape=kspace.shape[1:], seed=seed), its result used and returned
    t, _n = X.run_function(tree, path, "apply_mask", assume=[(tensor_test, False)])
    t = X.prune_raises(X.drop_do(t))
    gen = [n for n in X.find_nodes(t, lambda v: v[0] == "call" and v[1] == S("mask_func"))]
    shp = ("sub", ("call", ("attr", S("np"), "array"), (("attr", S("kspace"), "shape"),), ()), ("slice", X.const(1), X.NONE, X.NONE))
    if len(set(gen)) != 1 or gen[0][2] or dict(gen[0][3]) != {"shape": shp, "seed": S("seed")}:
        raise Untranslatable("apply_mask: a mask function is not called as mask_func(shape=np.array(kspace.shape)[1:], seed=seed)", None, path)
    for conds, lf in X.leaves(t):
        v = lf[1]
        if v[0] == "tuple" and v[1][1] != gen[0]:
            raise Untranslatable("apply_mask: the mask returned is not the generated one", None, path)
    hooks = {("attr", S("T"), "apply_mask"): _apply_mask_hook(ctx), S("apply_mask"): _apply_mask_hook(ctx)}
    no_padding = lambda c, pol: (c == ("cmp", "is", S("padding"), X.NONE) and pol) or (c == ("cmp", "isnot", S("padding"), X.NONE) and not pol)
    terms["apply_padding_t"] = _term(ctx, tree, path, "apply_padding", hooks, select=lambda conds: not any(no_padding(c, pol) for c, pol in conds))
    # ... and without a padding the data is returned as it is
    t0, _n = X.run_function(tree, path, "apply_padding", callhooks=hooks)
    for conds, lf in X.leaves(X.lift_ife(X.prune_raises(X.drop_do(t0)))):
        if any(no_padding(c, pol) for c, pol in conds) and lf != ("ret", S("data")):
            raise Untranslatable("apply_padding: without a padding the data is not returned unchanged", None, path)
    # ApplyMaskModule.forward: the target k-space is apply_mask(input k-space, sampling mask)
    path2 = ctx.src("direct/data/mri_transforms.py")
    tree2, _ = pg.parse_file(path2)
    t, _n = X.run_function(tree2, path2, "ApplyMaskModule.forward", callhooks=hooks)
    t = X.lift_ife(X.prune_raises(X.drop_do(t)))
    forms = set()
    sample = S("sample")
    for conds, lf in X.leaves(t):
        v = lf[1]
        if not (v[0] == "set" and v[1] == sample and v[2] == ("attr", SELF, "target_kspace_key")):
            raise Untranslatable("ApplyMaskModule.forward: does not return the sample with the target k-space set: %s" % X.show(v)[:80], None, path2)
        w = v[3]
        # `masked, _ = T.apply_mask(k, m)` (first of the pair) or `T.apply_mask(k, m, return_mask=False)`
        if w[0] == "sub" and w[2] == X.const(0) and w[1][0] == "call" and w[1][1] == ("attr", S("T"), "apply_mask"):
            call = w[1]
            if dict(call[3]).get("return_mask", X.TRUE) != X.TRUE or len(call[2]) != 2:
                raise Untranslatable("ApplyMaskModule.forward: apply_mask call outside subset", None, path2)
            w = hooks[S("apply_mask")](call[2], (("return_mask", X.FALSE),))
        subst = {("sub", sample, ("attr", SELF, "input_kspace_key")): S("kspace"), ("sub", sample, ("attr", SELF, "sampling_mask_key")): S("sampling_mask")}
        forms.add(OpV(path2).t(_subst(w, subst)))
    if len(forms) != 1:
        raise Untranslatable("ApplyMaskModule.forward: the target k-space differs between paths", None, path2)
    terms["apply_mask_module_t"] = forms.pop()
    # engine operators
    path3 = ctx.src("direct/nn/mri_models.py")
    tree3, _ = pg.parse_file(path3)
    terms["fwd_op_t"] = _term(ctx, tree3, path3, "MRIModelEngine._forward_operator", hooks)
    terms["bwd_op_t"] = _term(ctx, tree3, path3, "MRIModelEngine._backward_operator", hooks)
    # RIM likelihood gradient (with sensitivity maps; with and without a scaling: the same term)
    path4 = ctx.src("direct/nn/rim/rim.py")
    tree4, _ = pg.parse_file(path4)
    no_maps = ("cmp", "is", S("sensitivity_map"), X.NONE)
    have_maps = ("cmp", "isnot", S("sensitivity_map"), X.NONE)
    terms["loglik_t"] = _term(ctx, tree4, path4, "MRILogLikelihood.forward", hooks, select=lambda conds: all(not ((c == no_maps and pol) or (c == have_maps and not pol)) for c, pol in conds))
    # conjugate-gradient operators
    path5 = ctx.src("direct/nn/conjgradnet/conjgrad.py")
    tree5, _ = pg.parse_file(path5)
    terms["a_star_t"] = _term(ctx, tree5, path5, "ConjGrad._A_star_op", hooks)
    terms["a_star_a_t"] = _term(ctx, tree5, path5, "ConjGrad._A_star_A_op", hooks)
    terms["b_op_t"] = _term(ctx, tree5, path5, "ConjGrad.B_op", hooks)
    text = "From DV Require Import Base.OpIR.\nOpen Scope nat_scope.\n" + "".join("Definition %s : oexp := %s.\n" % kv for kv in terms.items())
    return text, terms


def _subst(v, table):
    if v in table:
        return table[v]
    if isinstance(v, tuple):
        return tuple(_subst(x, table) if isinstance(x, tuple) else x for x in v)
    return v
