"""Drives the real direct.engine.Engine.train / training_loop / Checkpointer with a one-parameter model.

Nothing in /repo is modified: a subclass supplies `_do_iteration` (backward on w * mean(g_batch)), the batch order is
made deterministic by replacing `direct.engine.ConcatDatasetBatchSampler` inside this process, and the optimiser /
scheduler are ordinary torch objects passed to `Engine.train`.
"""
import os
import pathlib
import sys
from fractions import Fraction

from . import shims


def setup():
    shims.install()
    import torch

    torch.set_num_threads(1)


def _GradDataset(grads):
    """Item i carries the gradient value g_i (a float)."""
    import torch
    from torch.utils.data import Dataset

    class GradDataset(Dataset):
        ndim = 2

        def __init__(self, grads):
            self.grads = list(grads)
            self.volume_indices = {pathlib.Path("vol"): range(len(self.grads))}

        def __len__(self):
            return len(self.grads)

        def __getitem__(self, i):
            return {"g": torch.tensor(float(self.grads[i]), dtype=torch.float64), "idx": i}

    return GradDataset(grads)


class _FixedBatches:
    """Deterministic stand-in for ConcatDatasetBatchSampler: yields the given batches in order."""

    batches = None

    start = 0

    def __init__(self, datasets=None, batch_size=None, seed=None):
        self.b = list(type(self).batches)[type(self).start :]

    def __iter__(self):
        return iter(self.b)

    def __len__(self):
        return len(self.b)


def make_engine_class():
    import torch
    from direct.engine import DoIterationOutput, Engine

    class TinyEngine(Engine):
        lazy = False
        validations = 0
        kill_kind = "kill"
        kill_at = None  # raise ProcessKilledException inside the iteration whose batch index equals kill_at
        seen = None

        def build_loss(self):
            return {}

        def _do_iteration(self, data, loss_fns=None, regularizer_fns=None):
            from direct.exceptions import ProcessKilledException

            first = int(data["idx"][0])
            if type(self).seen is not None:
                type(self).seen.append([int(i) for i in data["idx"]])
            if type(self).kill_at is not None and first == type(self).kill_at:
                type(self).kill_at = None
                if type(self).kill_kind == "runtime":
                    raise RuntimeError("simulated failure inside the iteration")
                raise ProcessKilledException(2, "SIGINT")
            w = self.model.w
            loss = (w * data["g"].to(w.dtype).mean()).sum()
            # the convention of MRIModelEngine._do_iteration and the other engines: back-propagate only in training mode
            if self.model.training:
                self._scaler.scale(loss).backward()
            return DoIterationOutput(None, None, {"l1_loss": loss.detach()})

        def reconstruct_volumes(self, *a, **k):
            return iter(())

        def evaluate(self, *a, **k):
            import torch as _t

            type(self).validations += 1
            img = _t.ones(1, 4, 4)
            return {"l1_loss": _t.tensor(0.0)}, {"vol": {"m_metric": _t.tensor(1.0)}}, [img], [img * 2]

        def log_first_training_example_and_model(self, data):
            pass

        def training_loop(self, training_datasets, start_iter, *a, **k):
            # the loader of a resumed run is given the batches of the iterations it is about to perform
            _FixedBatches.start = start_iter if type(self).lazy else 0
            return super().training_loop(training_datasets, start_iter, *a, **k)

    return TinyEngine


class OneParam:
    pass


def make_model(w0=0.0):
    import torch

    class M(torch.nn.Module):
        def __init__(self):
            super().__init__()
            self.w = torch.nn.Parameter(torch.tensor([float(w0)], dtype=torch.float64))

        def forward(self, x):
            return x * self.w

    return M()


def make_cfg(num_iterations, gradient_steps=1, gradient_clipping=0.0, checkpoint_steps=10**9, batch_size=1, validation_steps=10**9):
    from omegaconf import OmegaConf
    from direct.config.defaults import CheckpointerConfig, DefaultConfig, ModelConfig, TrainingConfig, ValidationConfig

    tr = TrainingConfig(
        num_iterations=num_iterations,
        gradient_steps=gradient_steps,
        gradient_clipping=gradient_clipping,
        batch_size=batch_size,
        validation_steps=validation_steps,
        checkpointer=CheckpointerConfig(checkpoint_steps=checkpoint_steps),
    )
    cfg = OmegaConf.structured(DefaultConfig(model=ModelConfig(model_name="tiny"), training=tr, validation=ValidationConfig()))
    return cfg


def train(exp_dir, grads, batches, num_iterations, k=1, clip=0.0, lr=0.5, opt="sgd", sched=None, resume=False, kill_at=None, w0=0.0, checkpoint_steps=10**9, seen=None, momentum=0.0, lazy_batches=False, validation_steps=None, extra_model=False, stale_grads=None, kill_kind="kill", no_val_datasets=False, first_run=None):
    """Run Engine.train once. Returns dict(w, lr_last_epoch, exited, lrs).

    sched: None -> LambdaLR with factor 2^-(epoch // 3); or a callable (optimizer) -> scheduler.
    """
    setup()
    import torch
    import direct.engine as E

    TinyEngine = make_engine_class()
    model = make_model(w0)
    cfg = make_cfg(num_iterations, k, clip, checkpoint_steps, batch_size=len(batches[0]) if batches else 1, validation_steps=validation_steps or 10**9)
    extra = make_model(0.0) if extra_model else None
    eng = TinyEngine(cfg, model, device="cpu", **({"additional_model": extra} if extra_model else {}))
    params = list(model.parameters()) + (list(extra.parameters()) if extra_model else [])
    if opt == "sgd":
        optimizer = torch.optim.SGD(params, lr=lr, momentum=momentum)
    else:
        optimizer = torch.optim.Adam(params, lr=lr)
    if stale_grads is not None:
        # gradients left over from a smoke test before training starts
        for p_, g_ in zip(params, stale_grads):
            p_.grad = torch.full_like(p_, float(g_))
    if sched is None:
        scheduler = torch.optim.lr_scheduler.LambdaLR(optimizer, lambda e: 2.0 ** (-(e // 3)))
    else:
        scheduler = sched(optimizer)
    lrs = []
    orig_step = optimizer.step

    def rec_step(*a, **kw):
        lrs.append([float(optimizer.param_groups[0]["lr"]), float(model.w.grad.item()) if model.w.grad is not None else None])
        r_ = orig_step(*a, **kw)
        if kill_kind == "kill-in-step" and kill_at is not None and len(lrs) - 1 == kill_at:
            # the interrupt arrives after the iteration's forward / backward pass, while the optimiser step completes
            from direct.exceptions import ProcessKilledException

            raise ProcessKilledException(2, "SIGINT")
        return r_

    optimizer.step = rec_step
    _FixedBatches.batches = batches
    old = E.ConcatDatasetBatchSampler
    E.ConcatDatasetBatchSampler = _FixedBatches
    TinyEngine.kill_at = kill_at if kill_kind != "kill-in-step" else None
    TinyEngine.kill_kind = kill_kind
    TinyEngine.lazy = lazy_batches
    _FixedBatches.start = 0
    TinyEngine.seen = seen
    exited = None
    try:
        try:
            vds = None
            if validation_steps and not no_val_datasets:
                vd = _GradDataset(grads[:2])
                vd.text_description = "val"
                vds = [vd]
            TinyEngine.validations = 0
            if first_run is not None:
                # an earlier, complete, non-resumed run of the same engine object (other directory, own optimiser state)
                n1, grads1 = first_run
                _FixedBatches.batches = [[i] for i in range(n1)]
                eng.cfg.training.num_iterations = n1
                (pathlib.Path(exp_dir) / "first").mkdir(parents=True, exist_ok=True)
                eng.train(optimizer, scheduler, [_GradDataset(grads1)], pathlib.Path(exp_dir) / "first", validation_datasets=None, resume=False, num_workers=0)
                eng.cfg.training.num_iterations = num_iterations
                _FixedBatches.batches = batches
                _FixedBatches.start = 0
                with torch.no_grad():
                    model.w.fill_(w0)
                optimizer.zero_grad()
                scheduler.last_epoch = 0
                scheduler._step_count = 1
                for g_, lr_ in zip(optimizer.param_groups, scheduler.base_lrs):
                    g_["lr"] = lr_
                del lrs[:]
            eng.train(optimizer, scheduler, [_GradDataset(grads)], pathlib.Path(exp_dir), validation_datasets=vds, resume=resume, num_workers=0)
        except SystemExit as e:
            exited = e.code
        except RuntimeError as e:
            if kill_kind != "runtime" or "simulated failure" not in str(e):
                raise
            exited = "runtime-error"
        except BaseException as e:  # noqa
            if type(e).__name__ != "ProcessKilledException" or kill_kind != "kill-in-step":
                raise
            exited = "killed-outside-iteration"
    finally:
        E.ConcatDatasetBatchSampler = old
        TinyEngine.kill_at = None
        TinyEngine.seen = None
    # what the engine handed to its Checkpointer, and what the newest checkpoint file holds
    stateful, stored = [], None
    try:
        ck = eng.checkpointer
        stateful = sorted(k_ for k_, o_ in ck.checkpointables.items() if not (k_.startswith("__") and k_.endswith("__")) and callable(getattr(o_, "state_dict", None)))
        files = sorted(pathlib.Path(exp_dir).glob("model_*.pt"), key=lambda p_: int(p_.stem.split("_")[1]))
        if files:
            stored = sorted(torch.load(files[-1], map_location="cpu", weights_only=False).keys())
    except Exception:  # noqa
        pass
    return {"w": float(model.w.item()), "last_epoch": int(scheduler.last_epoch), "exited": exited, "steps": lrs, "validations": TinyEngine.validations, "w_extra": float(extra.w.item()) if extra_model else None, "stateful": stateful, "stored": stored}
