"""Writes /verif/MANIFEST.json from the table below (run: /venv/bin/python -m vlib.manifest)."""
import json
import os

VERIF = os.path.dirname(os.path.dirname(os.path.abspath(__file__)))

PROOF_NOTE = ("Trusted: Coq 8.16.1 kernel and vm_compute (no native_compute, no axioms declared by us; Print Assumptions output is "
              "copied into the evidence on every run); the fail-closed Python-AST translator vlib/py2gallina.py and the per-property unit that drives it; "
              "the correspondence harness in vlib/props (case generators, canonicalisation) and vlib/coqrun.py (literal rendering / output parsing); "
              "the import shims of vlib/shims.py (extension build from the shipped C, logging stubs). ")

CHECKS = {
    "C13": dict(
        text="Theorems over the sampler model for every layout, world size, rank, limit, batch size and number of re-iterations (induction over volumes and indices, no bound); "
             "the chunk arithmetic is regenerated from direct/utils/__init__.py on every run and proved equal to the model by case split + nia; "
             "DistributedSequentialSampler/BatchVolumeSampler/ConcatDatasetBatchSampler are tied to the hand model by exact correspondence on ~800 (quick) configurations.",
        note=PROOF_NOTE + "Modelled, not verified: torch Sampler base class, Python iteration protocol; dataset.volume_indices contiguous (C12).",
        technique="Coq proof (induction over the sampler state machine) + translator-regenerated chunk arithmetic + exact model/implementation correspondence",
        design="§6 C13"),
    "C10": dict(
        text="Theorems for every size: centre-crop guard and window (start = floor((n-m)/2)), bbox crop element-wise spec with pad value (negative / out-of-range boxes), "
             "pad_tensor placement, pad-then-centre-crop identity for every shape and parity of the difference (2-D on the regenerated code, any rank in the list model), "
             "k-space crop/pad = image crop/pad under the Fourier inverse-pair contract. center_crop / pad_tensor / complex_center_crop arithmetic is regenerated from "
             "direct/data/transforms.py on every run; crop_to_bbox and the F.pad convention are tied by exact correspondence on integer tensors.",
        note=PROOF_NOTE + "Modelled, not verified: torch/numpy slicing and torch.nn.functional.pad (pair order validated by correspondence); Fourier operators only through backward(forward(x)) = x.",
        technique="Coq proof (lia over regenerated index arithmetic and the regenerated rejection guard, induction over tensor rank) + exact model/implementation correspondence",
        design="§6 C10"),
    "C11": dict(
        text="The per-cell boolean expressions of the three mask splitters (mask & ~acs, clearing of the protected region, input = mask & ~target, | acs; the half splitter's side assignments and region handling), the counts handed to the fill routines and the Cython kernel's loop condition are regenerated on every run. "
             "Theorems, cell by cell and for every mask / ACS / protected region / fill output inside the eligible set: union = mask, intersection = empty (exactly the ACS when kept), sampled protected cells stay in the input - for the uniform and Gaussian splitters, and for the half splitter with ANY side predicate (all four directions); "
             "the Gaussian request need = count + 1 never exceeds the eligible cells (so the rejection loop can end, with C04's kernel contract) and the uniform request is floor(eligible * ratio) <= eligible; the per-sample seed is a function of file name and slice. "
             "Tied by exact correspondence through the real splitter modules (fill output fed back as the oracle) and by driving the real fill routines against their contract.",
        note=PROOF_NOTE + "Modelled, not verified: the fill routines (libc rand / numpy choice) behind a contract; torch slice assignment for the region; that the kernel's candidate stream eventually hits every eligible cell (fairness) is not proved - termination is additionally watched by a 3 s alarm.",
        technique="Coq proof (exhaustive boolean case analysis over regenerated per-cell expressions; lia over regenerated counts) + exact correspondence through the real splitters and fill routines",
        design="§6 C11"),
    "C01": dict(
        text="roll_one_dim / fftshift / ifftshift arithmetic is regenerated from the source on every run and proved to be the cyclic rotation by n/2 resp. (n+1)/2: mutual inverses and equal to the reference shift for every length (1, odd, even), "
             "and in the N-d index model for every rank, shape and axis list. The operation sequences of fft2 / ifft2 are regenerated and proved to be shift-transform-shift wrapped by the layout views and mutual inverses for all 8 flag settings, given the contract of torch.fft. "
             "The DFT itself is treated in MathComp over any field with a primitive n-th root: inversion both ways, Parseval, and centred transform = textbook shifted DFT for odd and even n, instantiated in algC for every n. "
             "Tied by exact correspondence (shifts on iota tensors rank 1-5; centred DFT on Gaussian integers for lengths 1,2,4 evaluated in Coq) and numeric validation of the torch.fft contract (lengths 1-9, all flags, 2/3 axes at any position).",
        note=PROOF_NOTE + "Modelled, not verified: torch.fft.fftn/ifftn (textbook N-d DFT, inverse pair), torch narrow/cat acting fibre-wise, float32 rounding (exact-arithmetic theorems only).",
        technique="Coq proof (list rotation lemmas over regenerated index arithmetic; MathComp DFT algebra over a field with a primitive root) + exact correspondence + numeric contract validation",
        design="§6 C01"),
    "C02": dict(
        text="The element expressions of complex_multiplication / complex_division / safe_divide / conjugate / modulus / matrix product and the call structure of reduce_operator / expand_operator / complex_dot_product are regenerated on every run over an abstract field "
             "and proved (ring / field) to be complex arithmetic: product, conjugate, commutativity, associativity, distributivity, |z|^2 = z conj z, multiplicativity of the modulus, division = 0 on zero divisors and the inverse of multiplication elsewhere; "
             "per spatial position and for any number of coils: <E x, y> = <x, R y> for arbitrary maps, R(E x) = x when sum |S|^2 = 1, linearity, invariance under simultaneous coil permutation. Satisfiable in Qc. "
             "Tied by exact correspondence on integer / dyadic tensors with the coil axis at every position (Q instance evaluated in Coq).",
        note=PROOF_NOTE + "Modelled, not verified: torch broadcasting / indexing / sum over the coil axis (harness flattens to pixels); float rounding, overflow, underflow (extreme magnitudes only exercised against native complex arithmetic); sqrt through squares.",
        technique="Coq proof (ring/field over regenerated expressions in an abstract field, induction over the coil list) + exact correspondence over Q",
        design="§6 C02"),
    "C03": dict(
        text="apply_mask / apply_padding / ApplyMaskModule and the masked operators of the engines and blocks (_forward_operator, _backward_operator, MRILogLikelihood.forward, ConjGrad._A_star_op/_A_star_A_op/B_op) are regenerated on every run as operator-expression terms. "
             "Theorems: masking is selection (value kept where the mask is set, exactly zero elsewhere, idempotent) for any value type - hence verbatim for IEEE values incl. -0.0/inf/NaN; the forward operator's outermost operation is the mask; "
             "for every regenerated term the k-space input only enters through where0(mask, kspace) (decided by computation), and therefore - by a general non-interference theorem over ALL operator expressions with that shape and arbitrary Fourier/coil/arithmetic functions - "
             "two k-spaces that agree on the support give identical results; the likelihood masks the prediction term as well. Tied by bit-exact correspondence of the selection model (bool/int/float masks, all broadcast shapes, special values).",
        note=PROOF_NOTE + "Modelled, not verified: torch.where broadcasting (index table computed by the harness with torch.expand); the mask-function path of apply_mask is checked structurally and by an oracle.",
        technique="Coq proof (structural induction over an operator-expression IR regenerated from the source; selection lemmas on lists) + bit-exact correspondence",
        design="§6 C03"),
    "C04": dict(
        text="BaseMaskFunc.__call__'s rank guards and the shape list of _reshape_and_add_coil_axis are regenerated on every run and proved, for every accepted shape and mode, equal to the documented geometry (coil axis 1, all axes 1 except rows, columns and the frame axis in dynamic/multislice mode), "
             "which broadcasts against (coil, *shape). The control skeleton of the VariableDensityPoisson slope bisection is regenerated and proved to leave its loop for every sequence of verdicts (interval of representable slopes strictly shrinks; the unguarded loop is refuted by a fixed-point witness); "
             "the Gaussian rejection kernels' loop condition is read from the .pyx and their contract (c+1 new distinct in-range cells, nothing removed) proved for every candidate stream. "
             "Boolean dtype, produced shapes (mask and ACS), row-constancy of line masks, return-within-8s and documented errors are decided by oracles over the 14 generators x modes x ranks 3-5.",
        note=PROOF_NOTE + "Modelled, not verified: the sampling patterns (numpy RandomState, libc rand in the Cython kernels, scipy rotate, spiral float arithmetic), torch reshape / numpy tile; floats of the bisection as ordinals with lo <= mid <= hi; wall-clock only through the harness alarm.",
        technique="Coq proof (list lemmas over the regenerated shape function; well-founded measure for the regenerated bisection skeleton; induction over the candidate stream) + exact shape correspondence + generator oracles",
        design="§6 C04"),
    "C05": dict(
        text="Each of the 14 generators' seeded routines is regenerated on every run as a random-discipline program (which stream every call touches, in which region around `with temp_seed(self.rng, seed)`; helper methods inlined along the MRO; temp_seed / integerize_seed checked to be save-seed-restore). "
             "General theorem over ALL such programs: if no stream is touched outside the block and only the private stream / seeded C kernels inside it, then for every seed and any two states of the private and the global streams the drawn values (hence the masks) coincide and all streams are left as found - "
             "so the result is independent of any history of earlier calls, of the instance and of the global generators. Discipline of the 14 regenerated programs is decided by computation. "
             "Tied by history correspondence: recorded private-stream call traces, SHA-256 of numpy/torch/python global states before and after, bit-identical masks and ACS vs a fresh instance after 0-8 earlier calls, int and tuple seeds.",
        note=PROOF_NOTE + "Modelled, not verified: numpy RandomState seed/get_state/set_state, libc srand/rand in the Cython kernels, purity of the numpy/scipy code between the draws. seed=None is outside the claim.",
        technique="Coq proof (general theorem over a random-discipline IR regenerated from the source; discipline decided by vm_compute) + history correspondence with recording proxies",
        design="§6 C05"),
    "C06": dict(
        text="center_mask_func's pad / slice arithmetic, centered_disk_mask's centre and membership test and the magic cap are regenerated on every run and proved for every width, count and shape: exactly L contiguous columns inside the width, containing column N//2, "
             "balanced around it to within one; the cap keeps 1 <= L <= budget; the disc is point-symmetric about (n//2, m//2) and contains it iff r >= 1. Exhaustive exact correspondence (all 1 <= L <= N <= 40; discs up to 14x14). "
             "ACS subset of the sampling mask, requested line count, contiguity and disc geometry are checked by oracles on all 14 generators x modes x ranks.",
        note=PROOF_NOTE + "Modelled, not verified: float expressions round(width*fraction) and int(sqrt(rows*cols*scale/pi)) (inputs L and r of the theorems); ACS subset of mask is decided by oracle only; CIRCUS largest-disc ACS (center_fraction 0) only through the subset oracle.",
        technique="Coq proof (lia over regenerated centre arithmetic) + exhaustive exact correspondence + generator oracles",
        design="§6 C06"),
    "C07": dict(
        text="The rational budget expressions are regenerated on every run (RandomMaskFunc.prob, EquispacedMaskFunc.adjusted_accel, Gaussian1D/2D nonzero_count, the kernels' +1 from the .pyx loop condition) and proved over Q: "
             "random masks have expected count L + (N-L)*prob = N/R with 0 <= prob <= 1 under feasibility; spacing N-L columns by the adjusted acceleration yields N/R - L of them; Gaussian 1-D/2-D counts are within half a sample of N/R (NM/R) for any nearest-integer rounding. "
             "Gaussian counts are tied by exact correspondence (widths 32-400, sizes to 128x128, accelerations incl. 5.5) with the Q model using round-half-even. "
             "The +-2 column discretisation of equispaced masks, the Poisson tolerance and the >= 400 (quick) / 2000 (thorough) seed statistics of random masks are oracles / statistical support, not proof.",
        note=PROOF_NOTE + "Modelled, not verified: numpy rounding as nearest-integer rounding; uniform independent draws behind 'in expectation'; np.arange/np.around discretisation; the Poisson kernel.",
        technique="Coq proof (field / linear rational arithmetic over regenerated expressions) + exact count correspondence + statistical oracles",
        design="§6 C07"),
    "C08": dict(
        text="build_supervised_mri_transforms is regenerated on every run as a function from the truthiness of its parameters to a list of stages; a symbolic executor describes every value of the sample by a term over the raw k-space and a degree calculus assigns each term its homogeneity degree. "
             "Theorems: a term of degree d evaluates on c x raw (c > 0) to c^d times its value, for any interpretation of the operations that satisfies the stated homogeneity contracts; for every one of the 2 x 2^16 configurations with a masking function and scaling key kspace / masked_kspace (decided by computation, lifted to a universal statement) the pipeline runs, "
             "scaling_factor has degree 1 and every normalised output, mask and map degree 0, masked_kspace = (mask x K)/S with the sample's sampling mask, target = image(K/S) (with the sample's sensitivity map for SENSE-type targets) and a kept kspace = K/S for the same K and S; the same for the self-supervised pipeline (regenerated tail of build_mri_transforms: mask splitter, renames, deletions), whose input and target k-spaces are that normalised masked k-space restricted to the two masks drawn from the sampling mask; the regenerated padding threshold is relative (and an absolute one would not be); the mask generator reads only the file name and shapes. "
             "Tied by exact correspondence of the per-stage degrees of every key (the real Compose run stage by stage on x and 4x, bit-exact) and by end-to-end oracles (dyadic factors bit-exact, arbitrary factors to 1e-4, consistency, crop shape, finiteness, same mask per file name; supervised and SSL pipelines).",
        note=PROOF_NOTE + "Modelled, not verified: the homogeneity contracts of crop / rescale / pad / SVD coil compression / mask generation / sensitivity estimation / order statistics / reconstruction / safe_divide (validated stage by stage, not proved); the stage semantics is a hand model; random rotations / flips are switched off in the correspondence (SystemRandom); NaN/Inf freedom observed only; the body-coil image is not normalised by the supervised builder and is not claimed.",
        technique="Coq proof (term induction for homogeneity; exhaustive computation over the finite configuration space lifted with forallb_forall) over a stage list regenerated from the builder + exact per-stage degree correspondence",
        design="§6 C08"),
    "C09": dict(
        text="The structure of the RSS-estimate branch and of the renormalisation tails (pipeline and engine) is recognised in the source on every run (sqrt of the sum over complex and coil axes of squares; safe_divide by it). "
             "Theorems over the real numbers, per spatial location and for any number of coils and any coil values (zero coils, one coil, empty ACS, arbitrary refinement output): the sum over coils of squared magnitudes is 1 where there is signal and every value is exactly 0 where there is none; "
             "the sum is always 0 or 1; the pipeline's second normalisation is idempotent; unit maps renormalise to unit sum; no division by zero is used (safe_divide). "
             "Tied by exact correspondence on coil vectors with power-of-two root-sum-of-squares (Q model with exact square root, FFT-exact sizes). NaN/Inf freedom and |sum-1| < 1e-4 for random, tiny (1e-12) and huge magnitudes, Gaussian weighting, 3-D data and simulate_sensitivity_maps are oracles.",
        note=PROOF_NOTE + "Uses Coq's Reals: axioms ClassicalDedekindReals.sig_not_dec, ClassicalDedekindReals.sig_forall_dec, FunctionalExtensionality.functional_extensionality_dep (standard library). Modelled, not verified: float under/overflow and rounding; torch broadcasting over locations; ESPIRiT.",
        technique="Coq proof over the reals (field / nra; sqrt lemmas) on the normalisation recognised in the source + exact correspondence over Q + finiteness oracles",
        design="§6 C09"),
    "C12": dict(
        text="Theorems for every file list, slice filter (step 1), context size and index: per-volume ranges are contiguous/ordered/partition 0..len-1, the i-th range holds exactly the admissible slices of file i in order, "
             "the context window has 2c+1 entries with entry j = slice s-c+j or a zero slice, and ConcatDataset's negative-index normalisation + bisect_right + offset lands in the member containing the index. "
             "The window arithmetic, the range bookkeeping and the ConcatDataset arithmetic are regenerated from the source on every run; h5 access and list comprehension are tied by exact correspondence on generated h5 trees. "
             "Reproducibility of the synthetic datasets (same index twice, identically constructed dataset) is decided by oracles on the implementation only.",
        note=PROOF_NOTE + "Modelled, not verified: h5py slicing, bisect.bisect_right, numpy concatenate; numpy RandomState / sklearn make_blobs / scipy multivariate_normal behind the synthetic datasets (exercised, not proved).",
        technique="Coq proof (induction over the file list, lia over regenerated window arithmetic) + exact correspondence on generated h5 trees + reproducibility oracles",
        design="§6 C12"),
    "C16": dict(
        text="The body of Engine.training_loop is regenerated on every run as a program of a small op language (Backward, DivGrad, Clip, OptStep, SchedStep, ZeroGrad, conditionals on the step condition / k > 1 / clipping) "
             "and proved equal, for every iteration, state, k >= 1 and clipping flag, to the reference accumulation step; by induction m*k iterations are m optimiser steps, each on the divided/clipped sum of the k gradients "
             "of its window at the window's parameters with the learning rate of the window's last iteration (nothing dropped or doubled), k = 1 gives one step per batch, the schedule advances once per iteration. "
             "Parameters, gradients, optimiser and clip are abstract (any model, data, optimiser). The op semantics is tied to torch by exact correspondence through the real Engine.train (SGD, dyadic values).",
        note=PROOF_NOTE + "Modelled, not verified: torch optimisers, GradScaler(enabled=False), LambdaLR; one backward() per _do_iteration; resume inside an accumulation window (gradients are not checkpointed) is outside the theorem and only exercised.",
        technique="Coq proof over a loop IR regenerated from the source (case split on guards + induction over iterations) + exact correspondence through the real training loop",
        design="§6 C16"),
    "C17": dict(
        category="proof",
        text="Theorems for every depth / number of scales and every spatial size from the architectural minimum (no upper bound): UnetModel2d, NormUnetModel2d (L <= 4), MWCNN, DIDN (any number of DUBs and reconstruction convolutions), UnetModel3d and NormUnetModel3d return exactly the spatial size they are given "
             "(2-D and 3-D statements obtained from a one-axis induction and a proof that every layer acts on the axes separately when the padding indices are the canonical ones). The padding arithmetic ((n-1)|15)+1 with floor/ceil halves and its inverse slice, pad_to_pow_of_2 and its inverse crop, the padding-index maps and crop_to_shape are regenerated from the source on every run; "
             "the layer sequences of UnetModel2d / UnetModel3d (constructor module lists with their multiplicities, layer hyperparameters, the two loops of forward) are regenerated too and proved equal to the modelled program for every depth; those of MWCNN and DIDN are a hand model tied by exact shape-trace correspondence (forward hooks on every convolution / transposed convolution / DWT / IWT / PixelShuffle of the real modules). PARTIAL: the unrolled reconstruction models around these blocks and 'finite values' are enumerated over sizes (68 zoo entries), not proved.",
        note=PROOF_NOTE + "Modelled, not verified: torch's layer shape formulas and the reflect-padding precondition (oracle contract, validated by the trace correspondence); channel counts; the permute/reshape bookkeeping of the unrolled models (exercised end to end only).",
        technique="Coq proof (induction over depth on one axis + axis-decomposition lemma; bit lemma for the multiple-of-16 padding) over regenerated padding arithmetic + exact shape-trace correspondence + zoo enumeration",
        design="§6 C17"),
    "C18": dict(
        text="Theorems for every batch (any number of samples, any contents, any row function): an operation that acts on the rows of the (batch, groups, -1) view of a contiguous batch - what NormUnetModel2d/3d.norm/unnorm and NormConv2dGRU.norm/unnorm do - equals the per-sample operation mapped over the batch, its statistics are the per-sample statistics, "
             "and the part of the result belonging to one sample is the same whatever the other samples are. That the blocks are of this form (view keeps the batch axis first, reduction over the last axis with keepdim, statistics of norm reused by unnorm), that StandardizationLayer only works along the coil and channel axes, and that no forward method under direct/nn stores into its module are regenerated from the source on every run. "
             "The row model is tied to torch.reshape by exact correspondence of row sums. PARTIAL: the convolutional bodies are exercised only - every zoo model (68 entries) in eval mode, single versus batched with companions of extreme magnitude, repeated evaluation bit-exact, coil permutations; coil-sum permutation invariance is theorem C02.",
        note=PROOF_NOTE + "Modelled, not verified: torch convolution / instance norm / batch norm in eval mode act per sample (oracle contract); 'to floating-point rounding' is measured against the model's own sensitivity to a rounding-level input perturbation (small images with normalisation layers amplify rounding).",
        technique="Coq proof (list induction: chunking commutes with concatenation of equally sized samples) over regenerated view/reduction specifications + exact row-sum correspondence + single-vs-batched zoo oracle",
        design="§6 C18"),
    "C19": dict(
        text="The likelihood block of the recurrent inference machines and the conjugate-gradient operators are regenerated on every run as operator terms, the CG updates as expressions over abstract vector-space operations. "
             "Theorems: the block equals A*(A x - M y) with A = M F E, A* = R F^-1 M (masking linear and idempotent); in any real inner-product space with A linear and A* its adjoint, Phi(x+h) = Phi(x) + 2<A*(Ax-b), h> + ||A h||^2 exactly, "
             "so the block is the gradient of 1/2||Ax - b||^2 for every x, b (and vanishes on consistent data); B = A*A + lambda I with A*A self-adjoint; for every number of iterations, step-size rule and beta rule the CG residual is b - B x_k with b = A*y + lambda z. "
             "Tied by exact correspondence of the regenerated terms in a one-pixel instance over Q and by numeric validation against autograd and a dense solve (sizes to 12x12x4, lambda 0.05-10, FR and PRP, empty/full/random masks, centred or not).",
        note=PROOF_NOTE + "Modelled, not verified: unitarity of the normalised FFT pair (adjointness hypothesis), adjointness of expand/reduce (C02), linearity of torch operations; CG convergence to solver tolerance and 'never worse than the start' are validated numerically only.",
        technique="Coq proof (ring identities in abstract inner-product spaces over regenerated operator terms; induction over CG iterations) + exact one-pixel correspondence + numeric validation",
        design="§6 C19"),
    "C20": dict(
        text="Finite statement, decided by computation in Coq over data regenerated on every run: the registry of names defined or imported per module (AST scan of direct/), the fields and default kinds of every dataclass of the typed schema, every projects/**/*.yaml (87 at this tree), and the parameters of build_mri_transforms. "
             "Theorems (vm_compute lifted with forallb_forall): for every shipped configuration the model, model-config, engine, additional models, dataset configs, dataset classes, masking functions and operators resolve under the string rules of direct.environment (modelled in Coq and structurally checked against the source) and the keys of its model sections are fields of the config classes; "
             "no schema field defaults to a dataclass instance; every leaf key of the transform schema is a builder parameter. "
             "Tied by verdict correspondence with the real loader (OmegaConf merge, str_to_class) on all shipped files plus mutated copies; parsing, typed merge, masking/transform construction for all files and model+engine instantiation (time-boxed sample in quick, all in thorough) are oracles.",
        note=PROOF_NOTE + "Modelled, not verified: importlib/getattr resolution as registry lookup, OmegaConf (only unknown model keys are modelled; types, enums, missing values are judged by the real loader), instantiation on CPU with synthetic Calgary-Campinas mask files; only the installed Python 3.12 / torch 2.14.",
        technique="Coq proof by computation over a regenerated finite model (registry, schema, YAML trees) + verdict correspondence with the real loader on shipped and mutated configurations",
        design="§6 C20"),
    "C14": dict(
        text="Theorem over the reconstruct_volumes state machine (last_filename / curr_volume / slice_counter / volume_size) for every sequence of volumes delivered as non-empty batches of consecutive slices, any names, items and per-slice function: "
             "exactly one output per volume, in order, k-th slice = processed output of the k-th slice; composed with the chunking of the volume batch sampler the result is independent of the batch size. "
             "The body of the batch loop is regenerated from the source on every run as a statement list (guards incl. elif / else, slice assignment into a buffer of volume_size slots, yield); one iteration of it is proved, for every state, file name and batch, to be the same state transformer as one iteration of a reference body, which is proved to refine that state machine for every sequence of batches (a raise in one is a raise in the other); composed: on the batches of the volume batch sampler, for any batch size, the regenerated loop yields every volume once, in order, completely filled. "
             "The state machine is also tied to the code by exact correspondence through the real Engine.predict -> reconstruct_volumes -> _process_output with a marker model (per-slice scaling factors, header crop, world/rank, 0-2 workers).",
        note=PROOF_NOTE + "The statements computing a batch's output are abstracted to a per-slice function (validated by the correspondence). Modelled, not verified: DataLoader ordering with workers, default collate, per-sample action of _process_output (validated by pixel checks), C13 for the batches.",
        technique="Coq proof (induction over volumes and batches of the bookkeeping state machine; refinement of it by the loop body regenerated from the source, tied by a per-iteration equivalence proved for every state) + exact correspondence through the real predict loop",
        design="§6 C14"),
    "C15": dict(
        text="Checkpointer.save is regenerated on every run as a trace of file-system effects (open-truncate, write, close, os.replace on symbolic paths) and proved crash safe for every prior file-system state, iteration and content: "
             "dying between any two effects or inside a write leaves load('latest') = previous or new checkpoint, never corrupt (also after any history of saves, re-saving an iteration included); a complete save is 'latest'. "
             "The label arithmetic of the kill/OOM paths, of the regular checkpoint and of Engine.train's resume start is regenerated and proved to restart exactly where the saved state stands; with the C16 reference run this gives "
             "resume = uninterrupted run for any model/optimiser/schedule. Tied to the code by fault injection (the real save aborted at every effect and torn write, the real load classified) and by interrupt/resume runs through the real Engine.train (SGD, Adam, WarmupMultiStepLR) compared bit-exactly with the uninterrupted run.",
        note=PROOF_NOTE + "Modelled, not verified: process death only (issued writes persist in order, os.replace atomic; no fsync/power-loss model); torch.save/load and state_dict round-trips; the load('latest') model is hand-written; learning-rate schedules are checked to be functions of last_epoch by an oracle on the implementation only.",
        technique="Coq proof over a regenerated file-system effect trace with crash semantics + regenerated resume arithmetic; fault-injection and resume correspondence through the real Checkpointer / Engine.train",
        design="§6 C15"),
}

PENDING = {
}

ALL = ["C%02d" % i for i in range(1, 21)]


def main():
    checks = []
    for pid in ALL:
        if pid not in CHECKS:
            continue
        c = CHECKS[pid]
        checks.append({
            "property_id": pid,
            "quick_cmd": "bin/check %s quick" % pid,
            "thorough_cmd": "bin/check %s thorough" % pid,
            "evidence_file": "evidence/%s.json" % pid,
            "replay_cmd_template": "cat {path}",
            "engine": "coq-proof",
            "level_claimed": {"category": c.get("category", "proof"), "text": c["text"], "design_ref": c["design"]},
            "level_note": c["note"],
            "technique": c["technique"],
        })
    na = [{"property_id": pid, "reason": PENDING.get(pid, "check not built yet in this round (planned in DESIGN.md §10); not claimed until its check exists")} for pid in ALL if pid not in CHECKS]
    m = {
        "version": 1,
        "setup_cmd": "bash bin/setup.sh",
        "hooks": {
            "guard": "NKI_AI_DIRECT_VERIF",
            "enable": "no hooks in /repo are needed: checks observe the implementation through its public API (bin/check exports NKI_AI_DIRECT_VERIF=1 for uniformity)",
            "baseline_off_cmd": "cd /repo && /venv/bin/python -m pytest -ra -q -p no:cacheprovider --timeout=900 --continue-on-collection-errors",
            "source_commits": [],
            "add_only": True,
        },
        "engines": [{"name": "coq-proof", "path": "bin/check", "serves_properties": [c["property_id"] for c in checks],
                     "kind_free_text": "Rocq/Coq 8.16 theorems over executable Gallina models; models regenerated from the Python AST (translator) and/or tied by exact correspondence (vm_compute vs the implementation)"}],
        "checks": checks,
        "not_applicable": na,
        "notes": "See DESIGN.md (as built: section 12; trusted base: 12.6 and 12.7). Genuine defects repaired by fix: commits in /repo are listed in known_findings.jsonl.",
    }
    with open(os.path.join(VERIF, "MANIFEST.json"), "w") as f:
        json.dump(m, f, indent=1)
        f.write("\n")


if __name__ == "__main__":
    main()
