"""Fail-closed translator from a small Python subset (integer/boolean straight-line code) to Gallina over Z.

Never imports or evaluates the translated module: works on the `ast` only. Anything outside the subset
raises `Untranslatable` (the driver treats that as a broken tie).
"""
import ast
import os

from .core import Untranslatable

HEADER = "From Coq Require Import ZArith List Bool.\nImport ListNotations.\nOpen Scope Z_scope.\n"


def parse_file(path):
    with open(path) as f:
        src = f.read()
    return ast.parse(src, filename=path), src


def find_def(tree, qualname, path="?"):
    """Find `func` or `Class.method` in a module AST."""
    parts = qualname.split(".")
    node = tree
    for p in parts:
        found = None
        for ch in node.body:
            if isinstance(ch, (ast.FunctionDef, ast.ClassDef)) and ch.name == p:
                found = ch
                break
        if found is None:
            raise Untranslatable("definition %s not found" % qualname, None, path)
        node = found
    return node


def strip_doc(body):
    """Drop a leading docstring; returns the remaining statements."""
    if body and isinstance(body[0], ast.Expr) and isinstance(body[0].value, ast.Constant) and isinstance(body[0].value.value, str):
        return body[1:]
    return body


class ExprT:
    """Expression translator. `env` maps Python names / attribute paths to Coq terms (strings).

    `kinds` optionally maps names to 'bool' so that boolean names are not compared with 0.
    `calls` maps a function name (e.g. 'len', 'math.ceil') to a callable(args_ast, self) -> Coq string.
    """

    def __init__(self, env, path="?", calls=None, truthy_int=True):
        self.env = dict(env)
        self.path = path
        self.calls = calls or {}
        self.truthy_int = truthy_int
        self.counter = 0

    def fail(self, node, why):
        raise Untranslatable("%s: %s" % (why, ast.dump(node)[:120]), getattr(node, "lineno", None), self.path)

    def name_of(self, node):
        if isinstance(node, ast.Name):
            return node.id
        if isinstance(node, ast.Attribute):
            b = self.name_of(node.value)
            return None if b is None else b + "." + node.attr
        return None

    # integers -----------------------------------------------------------------------------
    def z(self, node):
        try:
            key = ast.unparse(node)
        except Exception:  # pragma: no cover
            key = None
        if key is not None and key in self.env and not isinstance(node, ast.Constant):
            return self.env[key]
        if isinstance(node, ast.Constant):
            if isinstance(node.value, bool) or not isinstance(node.value, int):
                self.fail(node, "non-integer constant")
            return str(node.value) if node.value >= 0 else "(%d)" % node.value
        nm = self.name_of(node)
        if nm is not None:
            if nm in self.env:
                return self.env[nm]
            self.fail(node, "unknown name %s" % nm)
        if isinstance(node, ast.UnaryOp) and isinstance(node.op, ast.USub):
            return "(- %s)" % self.z(node.operand)
        if isinstance(node, ast.UnaryOp) and isinstance(node.op, ast.UAdd):
            return self.z(node.operand)
        if isinstance(node, ast.BinOp):
            ops = {ast.Add: "+", ast.Sub: "-", ast.Mult: "*", ast.FloorDiv: "/", ast.Mod: "mod"}
            for k, sym in ops.items():
                if isinstance(node.op, k):
                    return "(%s %s %s)" % (self.z(node.left), sym, self.z(node.right))
            if isinstance(node.op, ast.Pow) and isinstance(node.right, ast.Constant) and node.right.value == 2:
                a = self.z(node.left)
                return "(%s * %s)" % (a, a)
            if isinstance(node.op, ast.BitOr):
                return "(Z.lor %s %s)" % (self.z(node.left), self.z(node.right))
            if isinstance(node.op, ast.BitAnd):
                return "(Z.land %s %s)" % (self.z(node.left), self.z(node.right))
            self.fail(node, "operator outside subset")
        if isinstance(node, ast.IfExp):
            return "(if %s then %s else %s)" % (self.b(node.test), self.z(node.body), self.z(node.orelse))
        if isinstance(node, ast.Call):
            fn = self.name_of(node.func)
            if fn in self.calls:
                return self.calls[fn](node, self)
            if fn in ("max", "min") and len(node.args) == 2 and not node.keywords:
                return "(Z.%s %s %s)" % (fn, self.z(node.args[0]), self.z(node.args[1]))
            if fn == "abs" and len(node.args) == 1:
                return "(Z.abs %s)" % self.z(node.args[0])
            if fn == "int" and len(node.args) == 1:
                return self.z(node.args[0])
            self.fail(node, "call outside subset")
        if isinstance(node, ast.Subscript):
            nm = self.name_of(node.value)
            if nm is not None and isinstance(node.slice, ast.Constant) and isinstance(node.slice.value, int):
                key = "%s[%d]" % (nm, node.slice.value)
                if key in self.env:
                    return self.env[key]
            self.fail(node, "subscript outside subset")
        self.fail(node, "expression outside subset")

    # booleans -----------------------------------------------------------------------------
    def b(self, node):
        if isinstance(node, ast.Constant) and isinstance(node.value, bool):
            return "true" if node.value else "false"
        if isinstance(node, ast.BoolOp):
            sym = "&&" if isinstance(node.op, ast.And) else "||"
            return "(" + (" %s " % sym).join(self.b(v) for v in node.values) + ")"
        if isinstance(node, ast.UnaryOp) and isinstance(node.op, ast.Not):
            return "(negb %s)" % self.b(node.operand)
        if isinstance(node, ast.Compare):
            parts = []
            left = node.left
            for op, right in zip(node.ops, node.comparators):
                parts.append(self.cmp(op, left, right, node))
                left = right
            return parts[0] if len(parts) == 1 else "(" + " && ".join(parts) + ")"
        nm = self.name_of(node)
        if nm is not None and ("bool:" + nm) in self.env:
            return self.env["bool:" + nm]
        if self.truthy_int:
            # Python truthiness of an int
            return "(negb (%s =? 0))" % self.z(node)
        self.fail(node, "boolean expression outside subset")

    def cmp(self, op, l, r, node):
        a, c = self.z(l), self.z(r)
        table = {ast.Lt: "(%s <? %s)", ast.LtE: "(%s <=? %s)", ast.Gt: "(%s >? %s)", ast.GtE: "(%s >=? %s)", ast.Eq: "(%s =? %s)"}
        for k, fmt in table.items():
            if isinstance(op, k):
                return fmt % (a, c)
        if isinstance(op, ast.NotEq):
            return "(negb (%s =? %s))" % (a, c)
        self.fail(node, "comparison outside subset")


def let_chain(stmts, tr, stop_at=None):
    """Translate a run of integer assignments into a `let ... in` prefix.

    Accepts `x = e`, `a, b = divmod(e1, e2)`; returns (prefix, remaining statements).
    Bound names are added to tr.env under fresh Coq identifiers (SSA).
    """
    prefix = ""
    i = 0
    counter = tr.counter
    while i < len(stmts):
        s = stmts[i]
        if stop_at is not None and stop_at(s):
            break
        if isinstance(s, ast.Assign) and len(s.targets) == 1:
            t = s.targets[0]
            if isinstance(t, ast.Name):
                rhs = tr.z(s.value)
                counter += 1
                cn = "%s_%d" % (t.id, counter)
                prefix += "let %s := %s in " % (cn, rhs)
                tr.env[t.id] = cn
                i += 1
                continue
            if isinstance(t, ast.Tuple) and len(t.elts) == 2 and all(isinstance(e, ast.Name) for e in t.elts) and isinstance(s.value, ast.Call) and tr.name_of(s.value.func) == "divmod" and len(s.value.args) == 2:
                a, b = tr.z(s.value.args[0]), tr.z(s.value.args[1])
                counter += 1
                q, r = "%s_%d" % (t.elts[0].id, counter), "%s_%d" % (t.elts[1].id, counter)
                prefix += "let %s := (%s / %s) in let %s := (%s mod %s) in " % (q, a, b, r, a, b)
                tr.env[t.elts[0].id] = q
                tr.env[t.elts[1].id] = r
                i += 1
                continue
        break
    tr.counter = counter
    return prefix, stmts[i:]


def write_gen(ctx, name, body):
    os.makedirs(ctx.gen_dir, exist_ok=True)
    path = os.path.join(ctx.gen_dir, name + ".v")
    with open(path, "w") as f:
        f.write("(* GENERATED by vlib/py2gallina from %s on every run. Do not edit. *)\n" % ctx.repo)
        f.write(HEADER + "\n" + body + "\n")
    return path
