"""Run coqc, render Python values as Coq literals, parse `Eval vm_compute` output back."""
import os
import re
import shutil
import subprocess
import time

VERIF = os.path.dirname(os.path.dirname(os.path.abspath(__file__)))
COQ = os.path.join(VERIF, "coq")
BUILD = os.path.join(VERIF, "build")


class CoqError(Exception):
    def __init__(self, vfile, out):
        super().__init__("coqc failed on %s:\n%s" % (vfile, out[-4000:]))
        self.vfile = vfile
        self.out = out


def coq_flags(gen_dir=None):
    flags = ["-R", COQ, "DV"]
    if gen_dir:
        flags += ["-R", gen_dir, "G"]
    return flags


def coqc(vfile, gen_dir=None, timeout=600, check=True):
    """Compile one .v file (full .vo). Returns (ok, output, seconds)."""
    t0 = time.time()
    cmd = ["timeout", str(timeout), "coqc", "-q"] + coq_flags(gen_dir) + [vfile]
    p = subprocess.run(cmd, stdout=subprocess.PIPE, stderr=subprocess.STDOUT, text=True, cwd=os.path.dirname(vfile))
    ok = p.returncode == 0
    if check and not ok:
        raise CoqError(vfile, p.stdout)
    return ok, p.stdout, time.time() - t0


# ---------------------------------------------------------------------------------------------
# Python value -> Coq literal


class Raw(str):
    """A string emitted verbatim."""


def lit(v):
    if isinstance(v, Raw):
        return str(v)
    if isinstance(v, bool):
        return "true" if v else "false"
    if isinstance(v, int):
        return "%d" % v if v >= 0 else "(%d)" % v
    if v is None:
        return "None"
    if isinstance(v, float):
        return flit(v)
    if isinstance(v, str):
        return '"%s"' % v.replace('"', '""')
    if isinstance(v, (list,)):
        return "[" + "; ".join(lit(x) for x in v) + "]"
    if isinstance(v, tuple):
        if len(v) == 1:
            return lit(v[0])
        return "(" + ", ".join(lit(x) for x in v) + ")"
    if isinstance(v, dict) and "Some" in v:
        return "(Some %s)" % lit(v["Some"])
    raise TypeError("no Coq literal for %r" % (v,))


def flit(x):
    """Bit-exact PrimFloat literal for a Python float (binary64)."""
    import math

    if math.isnan(x):
        return "nan%float"
    if math.isinf(x):
        return "infinity%float" if x > 0 else "neg_infinity%float"
    h = float(x).hex()
    if h.startswith("-"):
        return "(-%s)%%float" % h[1:]
    return "(%s)%%float" % h


# ---------------------------------------------------------------------------------------------
# Coq printed term -> Python value

_TOK = re.compile(
    r"\s*(?:(?P<num>-?\d+(?:\.\d+)?(?:e[+-]?\d+)?)|(?P<id>[A-Za-z_][A-Za-z_0-9.']*)|(?P<str>\"(?:[^\"]|\"\")*\")|(?P<p>[\[\]();,]))"
)


def _tokens(s):
    pos = 0
    out = []
    while pos < len(s):
        if s[pos:].strip() == "":
            break
        m = _TOK.match(s, pos)
        if not m:
            raise ValueError("cannot tokenise Coq output at: %r" % s[pos : pos + 40])
        pos = m.end()
        if m.group("num") is not None:
            t = m.group("num")
            out.append(("num", float(t) if ("." in t or "e" in t) else int(t)))
        elif m.group("id") is not None:
            out.append(("id", m.group("id")))
        elif m.group("str") is not None:
            out.append(("str", m.group("str")[1:-1].replace('""', '"')))
        else:
            out.append(("p", m.group("p")))
    return out


def parse_term(s):
    s = re.sub(r"%(Z|nat|N|float|positive|string)\b", "", s)
    toks = _tokens(s)
    val, i = _parse(toks, 0)
    if i != len(toks):
        raise ValueError("trailing tokens in Coq output: %r" % (toks[i : i + 5],))
    return val


def _atom(toks, i):
    k, v = toks[i]
    if k == "num" or k == "str":
        return v, i + 1
    if k == "id":
        if v == "true":
            return True, i + 1
        if v == "false":
            return False, i + 1
        if v == "None":
            return None, i + 1
        if v == "nil":
            return [], i + 1
        if v == "tt":
            return (), i + 1
        if v in ("nan", "infinity", "neg_infinity"):
            return {"nan": float("nan"), "infinity": float("inf"), "neg_infinity": float("-inf")}[v], i + 1
        return ("ctor", v), i + 1
    if (k, v) == ("p", "["):
        items = []
        i += 1
        if toks[i] == ("p", "]"):
            return items, i + 1
        while True:
            x, i = _parse(toks, i)
            items.append(x)
            if toks[i] == ("p", ";"):
                i += 1
                continue
            if toks[i] == ("p", "]"):
                return items, i + 1
            raise ValueError("bad list")
    if (k, v) == ("p", "("):
        items = []
        i += 1
        while True:
            x, i = _parse(toks, i)
            items.append(x)
            if toks[i] == ("p", ","):
                i += 1
                continue
            if toks[i] == ("p", ")"):
                i += 1
                break
            raise ValueError("bad tuple")
        return (items[0] if len(items) == 1 else tuple(items)), i
    raise ValueError("unexpected token %r" % (toks[i],))


def _parse(toks, i):
    """application: head followed by atoms (constructors with arguments)."""
    head, i = _atom(toks, i)
    if isinstance(head, tuple) and len(head) == 2 and head[0] == "ctor":
        args = []
        while i < len(toks) and toks[i] not in (("p", "]"), ("p", ")"), ("p", ";"), ("p", ",")):
            a, i = _atom(toks, i)
            args.append(a)
        name = head[1]
        if name == "Some" and len(args) == 1:
            return {"Some": args[0]}, i
        if not args:
            return name, i
        return {name: args}, i
    return head, i


_EVAL_RE = re.compile(r"^\s*=\s(.*?)\n\s*:\s[^\n]*(?:\n(?!\s*=\s)[^\n]*)*", re.S | re.M)


def split_evals(out):
    """Return the list of printed terms of successive `Eval ... in` commands."""
    res = []
    cur = None
    for line in out.splitlines():
        if line.startswith("     = "):
            if cur is not None:
                res.append(cur)
            cur = [line[7:]]
        elif line.startswith("     : "):
            if cur is not None:
                res.append(cur)
                cur = None
        elif cur is not None:
            cur.append(line)
    if cur is not None:
        res.append(cur)
    return ["\n".join(c) for c in res]


HEADER = "Set Printing Width 2000000.\nSet Printing Depth 10000000.\n"


def eval_terms(name, preamble, terms, workdir, gen_dir=None, timeout=600):
    """Write a .v evaluating each of `terms` with vm_compute; return the parsed values."""
    os.makedirs(workdir, exist_ok=True)
    path = os.path.join(workdir, name + ".v")
    with open(path, "w") as f:
        f.write(preamble + "\n" + HEADER)
        for t in terms:
            f.write("Eval vm_compute in (%s).\n" % t)
    ok, out, secs = coqc(path, gen_dir=gen_dir, timeout=timeout, check=True)
    vals = [parse_term(t) for t in split_evals(out)]
    if len(vals) != len(terms):
        raise CoqError(path, "expected %d results, got %d\n%s" % (len(terms), len(vals), out[-2000:]))
    return vals


def eval_sharded(name, preamble, terms, workdir, gen_dir=None, shard=300, jobs=8, timeout=600):
    """Like eval_terms but split in shards compiled in parallel."""
    from concurrent.futures import ThreadPoolExecutor

    chunks = [terms[i : i + shard] for i in range(0, len(terms), shard)]
    with ThreadPoolExecutor(max_workers=jobs) as ex:
        futs = [
            ex.submit(eval_terms, "%s_%03d" % (name, k), preamble, ch, workdir, gen_dir, timeout)
            for k, ch in enumerate(chunks)
        ]
        out = []
        for f in futs:
            out.extend(f.result())
    return out


def clean_dir(d):
    shutil.rmtree(d, ignore_errors=True)
    os.makedirs(d, exist_ok=True)
