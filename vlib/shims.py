"""Harness-side import shims (nothing here touches /repo).

* builds the three Cython extensions from the generated C shipped in the working tree and serves
  them through a meta-path finder;
* stubs torchvision.utils.make_grid and torch.utils.tensorboard.SummaryWriter (logging only);
* forces PYTHONPATH to the repository under test.

The repository under test is $VERIF_REPO (default /repo).
"""
import hashlib
import importlib.abc
import importlib.machinery
import importlib.util
import os
import subprocess
import sys
import sysconfig
import types

VERIF = os.path.dirname(os.path.dirname(os.path.abspath(__file__)))
REPO = os.environ.get("VERIF_REPO", "/repo")
EXT_DIR = os.path.join(VERIF, "build", "ext")

EXTS = {
    "direct.common._gaussian": "direct/common/_gaussian",
    "direct.common._poisson": "direct/common/_poisson",
    "direct.ssl._gaussian_fill": "direct/ssl/_gaussian_fill",
}


def _sha(path):
    h = hashlib.sha256()
    with open(path, "rb") as f:
        h.update(f.read())
    return h.hexdigest()[:16]


def build_exts(repo=None, verbose=False):
    """Compile the shipped .c files of `repo` (hash-keyed) and return {modname: so_path}."""
    import numpy

    repo = repo or REPO
    os.makedirs(EXT_DIR, exist_ok=True)
    out = {}
    inc = sysconfig.get_paths()["include"]
    npinc = numpy.get_include()
    for mod, rel in EXTS.items():
        c = os.path.join(repo, rel + ".c")
        if not os.path.exists(c):
            continue
        so = os.path.join(EXT_DIR, "%s_%s.so" % (mod.replace(".", "_"), _sha(c)))
        if not os.path.exists(so):
            cmd = ["gcc", "-O2", "-shared", "-fPIC", "-w", "-I" + inc, "-I" + npinc, c, "-o", so + ".tmp"]
            if verbose:
                print(" ".join(cmd))
            subprocess.run(cmd, check=True)
            os.replace(so + ".tmp", so)
        out[mod] = so
    return out


class _ExtFinder(importlib.abc.MetaPathFinder):
    def __init__(self, table):
        self.table = table

    def find_spec(self, fullname, path=None, target=None):
        so = self.table.get(fullname)
        if so is None:
            return None
        loader = importlib.machinery.ExtensionFileLoader(fullname, so)
        return importlib.util.spec_from_file_location(fullname, so, loader=loader)


def _stub_modules():
    if "torchvision" not in sys.modules:
        try:
            import torchvision  # noqa: F401
        except Exception:
            tv = types.ModuleType("torchvision")
            tvu = types.ModuleType("torchvision.utils")

            def make_grid(tensor, *a, **k):
                return tensor

            tvu.make_grid = make_grid
            tv.utils = tvu
            sys.modules["torchvision"] = tv
            sys.modules["torchvision.utils"] = tvu
    try:
        import torch.utils.tensorboard  # noqa: F401
    except Exception:
        tb = types.ModuleType("torch.utils.tensorboard")

        class SummaryWriter:  # logging only
            def __init__(self, *a, **k):
                pass

            def __getattr__(self, name):
                return lambda *a, **k: None

        tb.SummaryWriter = SummaryWriter
        sys.modules["torch.utils.tensorboard"] = tb
        import torch.utils

        torch.utils.tensorboard = tb


_installed = False


def install(repo=None):
    """Make `import direct` resolve to the repository under test, with the shims in place."""
    global _installed
    repo = repo or REPO
    if _installed:
        return
    _installed = True
    sys.path[:] = [p for p in sys.path if os.path.abspath(p or ".") not in (repo,)]
    sys.path.insert(0, repo)
    table = build_exts(repo)
    sys.meta_path.insert(0, _ExtFinder(table))
    _stub_modules()
    import logging

    logging.disable(logging.CRITICAL)


if __name__ == "__main__":
    print(build_exts(verbose=True))
