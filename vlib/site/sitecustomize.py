# picked up by child interpreters started from a demo (bin/run_demo.py puts this directory on PYTHONPATH):
# direct's compiled extension is not built in /repo, so every interpreter that imports direct needs the shims
import os
if os.environ.get("DV_DEMO_SHIMS") == "1":
    try:
        from vlib import shims
        shims.install()
    except Exception:  # pragma: no cover
        pass
