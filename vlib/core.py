"""Check driver shared by all properties.

    bin/check Cxx quick|thorough

Steps (DESIGN.md §3.1): regenerate -> prove -> correspond -> oracles/search -> known findings -> evidence.
"""
import hashlib
import importlib
import json
import os
import random
import re
import shutil
import sys
import time
import traceback

from . import coqrun

VERIF = coqrun.VERIF
COQ = coqrun.COQ
BUILD = coqrun.BUILD
REPO = os.environ.get("VERIF_REPO", "/repo")

FORBIDDEN = re.compile(
    r"\b(Admitted|admit|Axiom|Axioms|Parameter|Parameters|Conjecture|Conjectures|Admit\s+Obligations|bypass_check)\b"
    r"|Unset\s+Guard|Unset\s+Positivity|Unset\s+Universe|type-in-type|impredicative-set|native_compute"
)
STMT = re.compile(r"^\s*(Theorem|Lemma|Corollary|Example|Proposition|Fact)\s+([A-Za-z_0-9']+)", re.M)


class Untranslatable(Exception):
    def __init__(self, msg, lineno=None, src=None):
        super().__init__("%s (line %s of %s)" % (msg, lineno, src))
        self.lineno = lineno
        self.src = src


class Violation:
    def __init__(self, oracle, what, witness, site=None):
        self.oracle = oracle  # short key of the property clause that failed
        self.what = what  # human readable
        self.witness = witness  # JSON-able replay data (call, inputs, observed, expected)
        self.site = site or {}  # categorical circumstances used to match known findings

    def key(self):
        return self.oracle + "|" + json.dumps(self.site, sort_keys=True)


class Corr:
    """Result of a model-vs-implementation correspondence run."""

    def __init__(self):
        self.evaluations = 0
        self.nontrivial = set()
        self.rule = ""
        self.samples = []
        self.distribution = {}
        self.mismatches = []  # dicts: {"case":..., "impl":..., "model":...}
        self.notes = []

    def count(self, key, nontrivial=True):
        self.evaluations += 1
        if nontrivial:
            self.nontrivial.add(key if isinstance(key, str) else json.dumps(key, sort_keys=True, default=str))

    def dist(self, name, value):
        d = self.distribution.setdefault(name, {})
        d[str(value)] = d.get(str(value), 0) + 1

    def compare(self, case, impl, model, nontrivial=True):
        self.count(case, nontrivial)
        if len(self.samples) < 3:
            self.samples.append({"case": case, "impl": impl, "model": model})
        if impl != model:
            self.mismatches.append({"case": case, "impl": impl, "model": model})
            return False
        return True

    def merge(self, other):
        self.evaluations += other.evaluations
        self.nontrivial |= other.nontrivial
        self.samples += other.samples[: max(0, 4 - len(self.samples))]
        for k, d in other.distribution.items():
            for v, n in d.items():
                self.distribution.setdefault(k, {})
                self.distribution[k][v] = self.distribution[k].get(v, 0) + n
        self.mismatches += other.mismatches
        self.notes += other.notes
        if other.rule:
            self.rule = (self.rule + " | " + other.rule) if self.rule else other.rule


class Ctx:
    def __init__(self, pid, tier, seed):
        self.pid = pid
        self.tier = tier
        self.seed = seed
        self.thorough = tier == "thorough"
        self.repo = REPO
        self.rng = random.Random(seed * 1000003 + int(hashlib.sha256(pid.encode()).hexdigest()[:8], 16))
        # one directory per (property, tier): a quick and a thorough run of the same property may overlap in time
        self.gen_dir = os.path.join(BUILD, "gen", "%s.%s" % (pid, tier))
        self.work = os.path.join(BUILD, "run", "%s.%s" % (pid, tier))
        self.t0 = time.time()
        self.log_lines = []

    def log(self, *a):
        msg = " ".join(str(x) for x in a)
        self.log_lines.append(msg)
        print("[%s %6.1fs] %s" % (self.pid, time.time() - self.t0, msg), flush=True)

    def n(self, quick, thorough):
        return thorough if self.thorough else quick

    def src(self, rel):
        return os.path.join(self.repo, rel)


# ---------------------------------------------------------------------------------------------


def scan_forbidden(paths):
    bad = []
    for p in paths:
        for root, _, files in os.walk(p) if os.path.isdir(p) else [(os.path.dirname(p), [], [os.path.basename(p)])]:
            for fn in files:
                if not fn.endswith(".v"):
                    continue
                full = os.path.join(root, fn)
                txt = open(full).read()
                txt_nc = re.sub(r"\(\*.*?\*\)", "", txt, flags=re.S)
                for m in FORBIDDEN.finditer(txt_nc):
                    bad.append("%s: %s" % (full, m.group(0)))
                depth = 0
                for line in txt_nc.splitlines():
                    s = line.strip()
                    if re.match(r"Section\s", s):
                        depth += 1
                    elif re.match(r"End\s", s) and depth > 0:
                        depth -= 1
                    elif depth == 0 and re.match(r"(Variable|Variables|Hypothesis|Hypotheses|Context)\b", s):
                        bad.append("%s: %s outside a section" % (full, s[:40]))
    return bad


def parse_assumptions(out):
    """Collect axiom names printed by `Print Assumptions`."""
    axioms = []
    closed = 0
    lines = out.splitlines()
    i = 0
    while i < len(lines):
        l = lines[i]
        if "Closed under the global context" in l:
            closed += 1
        if l.strip() == "Axioms:":
            i += 1
            while i < len(lines) and lines[i].strip() and not lines[i].startswith("Closed") and lines[i].strip() != "Axioms:" and not lines[i].startswith("File "):
                m = re.match(r"^([A-Za-z_][A-Za-z_0-9.']*)\s*(:|$)", lines[i])
                if m and m.group(1) not in axioms:
                    axioms.append(m.group(1))
                i += 1
            continue
        i += 1
    return closed, axioms


class Proofs:
    def __init__(self):
        self.obligations = []  # theorem names in Props files
        self.discharged = []
        self.axioms = []
        self.closed = 0
        self.errors = []  # (file, message)
        self.cmds = []
        self.secs = 0.0


def run_proofs(ctx, files, props_files):
    """Copy `files` (paths relative to coq/ or absolute generated files) into gen_dir and compile in order.

    `props_files` (subset, by basename) are the ones whose statements count as obligations.
    """
    pr = Proofs()
    os.makedirs(ctx.gen_dir, exist_ok=True)
    failed = False
    for rel in files:
        src = rel if os.path.isabs(rel) else os.path.join(COQ, rel)
        dst = os.path.join(ctx.gen_dir, os.path.basename(src))
        if os.path.abspath(src) != os.path.abspath(dst):
            shutil.copyfile(src, dst)
        base = os.path.basename(dst)
        names = STMT.findall(re.sub(r"\(\*.*?\*\)", "", open(dst).read(), flags=re.S))
        is_props = base in props_files
        if is_props:
            pr.obligations += [n for _, n in names]
        if failed:
            continue
        ok, out, secs = coqrun.coqc(dst, gen_dir=ctx.gen_dir, timeout=900, check=False)
        pr.secs += secs
        pr.cmds.append("coqc -q -R coq DV -R build/gen/%s.%s G %s" % (ctx.pid, ctx.tier, base))
        if ok:
            closed, axioms = parse_assumptions(out)
            pr.closed += closed
            for a in axioms:
                if a not in pr.axioms:
                    pr.axioms.append(a)
            if is_props:
                pr.discharged += [n for _, n in names]
        else:
            failed = True
            pr.errors.append((base, out[-3000:]))
            if is_props:
                # theorems that precede the failing line were accepted
                m = re.search(r'line (\d+), characters', out)
                if m:
                    ln = int(m.group(1))
                    txt = open(dst).read()
                    starts = [(txt.count("\n", 0, mm.start()) + 1, mm.group(2)) for mm in STMT.finditer(txt)]
                    # a statement is discharged if the *next* statement starts at or before the error line
                    for k, (l0, nm) in enumerate(starts):
                        if k + 1 < len(starts) and starts[k + 1][0] <= ln:
                            pr.discharged.append(nm)
    bad = scan_forbidden([COQ, ctx.gen_dir])
    if bad:
        pr.errors.append(("forbidden-construct-scan", "\n".join(bad[:20])))
        pr.discharged = []
    return pr


# ---------------------------------------------------------------------------------------------
# known findings


def load_findings(pid):
    path = os.path.join(VERIF, "known_findings.jsonl")
    out = []
    if os.path.exists(path):
        for line in open(path):
            line = line.strip()
            if not line or line.startswith("#"):
                continue
            e = json.loads(line)
            if e.get("property") == pid:
                out.append(e)
    return out


def match_known(v, findings):
    for e in findings:
        if e.get("status") != "known":
            continue
        if e.get("oracle") != v.oracle:
            continue
        where = e.get("where", {})
        if all(v.site.get(k) == val for k, val in where.items()):
            return e
    return None


# ---------------------------------------------------------------------------------------------


def write_replay(ctx, name, data):
    d = os.path.join(VERIF, "replays")
    os.makedirs(d, exist_ok=True)
    blob = json.dumps(data, sort_keys=True, default=str, indent=1)
    h = hashlib.sha256(blob.encode()).hexdigest()[:8]
    path = os.path.join(d, "%s_%s_%s.json" % (ctx.pid, name, h))
    with open(path, "w") as f:
        f.write(blob + "\n")
    return path


def repo_head():
    import subprocess

    try:
        h = subprocess.run(["git", "-C", REPO, "rev-parse", "HEAD"], capture_output=True, text=True).stdout.strip()
        d = subprocess.run(["git", "-C", REPO, "status", "--porcelain", "-uno"], capture_output=True, text=True).stdout
        return h + ("+dirty" if d.strip() else "")
    except Exception:
        return "unknown"


def main(argv=None):
    argv = argv or sys.argv[1:]
    if len(argv) < 1:
        print("usage: check Cxx [quick|thorough]")
        return 2
    pid = argv[0]
    tier = argv[1] if len(argv) > 1 else os.environ.get("VERIF_TIER", "quick")
    if tier not in ("quick", "thorough"):
        tier = "quick"
    seed = int(os.environ.get("VERIF_SEED", "0") or 0)
    ctx = Ctx(pid, tier, seed)
    mod = importlib.import_module("vlib.props." + pid.lower())
    coqrun.clean_dir(ctx.work)
    coqrun.clean_dir(ctx.gen_dir)
    return run_check(ctx, mod)


def run_check(ctx, mod):
    pid = ctx.pid
    findings = load_findings(pid)
    broken = []  # descriptions of broken ties (proof / translator / correspondence)
    violations = []
    proofs = Proofs()
    corr = Corr()
    ctx.log("repo", ctx.repo, repo_head(), "tier", ctx.tier, "seed", ctx.seed)

    # 1. regenerate
    gen_files = []
    if hasattr(mod, "generate"):
        try:
            gen_files = mod.generate(ctx) or []
            ctx.log("translator: generated", [os.path.basename(g) for g in gen_files])
        except Untranslatable as e:
            broken.append({"kind": "translator-refusal", "detail": str(e)})
            ctx.log("translator refused:", e)
        except Exception as e:  # source no longer has the expected structure
            broken.append({"kind": "translator-error", "detail": "%s: %s" % (type(e).__name__, e)})
            ctx.log("translator error:", traceback.format_exc())

    # 2. proofs
    try:
        files = list(gen_files) + list(getattr(mod, "COQ_FILES", []))
        props_files = set(getattr(mod, "PROPS_FILES", []))
        if not any(b["kind"].startswith("translator") for b in broken):
            proofs = run_proofs(ctx, files, props_files)
            ctx.log("proofs: %d/%d obligations in %.1fs; axioms: %s" % (len(proofs.discharged), len(proofs.obligations), proofs.secs, proofs.axioms or "none"))
            for f, msg in proofs.errors:
                broken.append({"kind": "proof-obligation", "file": f, "detail": msg})
                ctx.log("proof broken in", f, "\n", msg[-1500:])
        else:
            # still report what would have been required
            for rel in getattr(mod, "COQ_FILES", []):
                if os.path.basename(rel) in props_files:
                    txt = open(os.path.join(COQ, rel)).read()
                    proofs.obligations += [n for _, n in STMT.findall(txt)]
    except Exception as e:
        broken.append({"kind": "proof-driver-error", "detail": traceback.format_exc()[-2000:]})
        ctx.log("proof step error", traceback.format_exc())

    # 3. correspondence
    model_ok = not any(b["kind"] in ("translator-refusal", "translator-error") for b in broken)
    if hasattr(mod, "correspond"):
        try:
            corr = mod.correspond(ctx) or Corr()
            ctx.log("correspondence: %d cases, %d distinct non-trivial, %d mismatches" % (corr.evaluations, len(corr.nontrivial), len(corr.mismatches)))
            if corr.mismatches:
                broken.append({"kind": "correspondence", "detail": corr.mismatches[:5], "count": len(corr.mismatches)})
        except coqrun.CoqError as e:
            broken.append({"kind": "correspondence-coq-error", "detail": str(e)[-2000:]})
            ctx.log("correspondence: coq error", str(e)[-1500:])
        except Exception as e:
            broken.append({"kind": "correspondence-harness-error", "detail": traceback.format_exc()[-3000:]})
            ctx.log("correspondence error", traceback.format_exc())

    # 4. property oracles on the implementation (always; deeper when something above broke)
    if hasattr(mod, "oracles"):
        try:
            violations = mod.oracles(ctx, deep=bool(broken)) or []
        except Exception as e:
            broken.append({"kind": "oracle-harness-error", "detail": traceback.format_exc()[-3000:]})
            ctx.log("oracle error", traceback.format_exc())
    # dedupe by key
    seen = {}
    for v in violations:
        seen.setdefault(v.key(), v)
    violations = list(seen.values())

    # 5. classify
    exit_code = 0
    known_hits = {}
    new_viol = []
    for v in violations:
        e = match_known(v, findings)
        if e is not None:
            known_hits.setdefault(e["id"], (e, v))
        else:
            new_viol.append(v)
    for eid, (e, v) in sorted(known_hits.items()):
        print("KNOWN-FINDING: property=%s %s" % (pid, e.get("what", eid)), flush=True)
    # a broken tie that is fully explained by known findings is not re-reported; mod may declare that
    explained = set()
    if hasattr(mod, "explains"):
        explained = mod.explains(broken, known_hits, ctx) or set()
    unexplained = [b for i, b in enumerate(broken) if i not in explained]
    nviol = 0
    for v in new_viol:
        path = write_replay(ctx, v.oracle, {"property": pid, "kind": "counterexample", "oracle": v.oracle, "what": v.what, "witness": v.witness, "site": v.site, "seed": ctx.seed, "tier": ctx.tier, "repo_head": repo_head(), "broken_ties": [b["kind"] for b in broken]})
        print("VIOLATION property=%s replay=%s" % (pid, path), flush=True)
        ctx.log("  ->", v.what)
        nviol += 1
        exit_code = 1
    if unexplained and not new_viol:
        path = write_replay(ctx, "broken", {"property": pid, "kind": "broken-obligation-or-correspondence", "broken": unexplained, "seed": ctx.seed, "tier": ctx.tier, "repo_head": repo_head(), "search": "property oracles found no failing input on the implementation"})
        print("VIOLATION property=%s replay=%s no-failing-input-found" % (pid, path), flush=True)
        nviol += 1
        exit_code = 1

    # 6. evidence
    level = getattr(mod, "LEVEL", "proof")
    tb = list(getattr(mod, "TRUSTED_BASE", []))
    tb.insert(0, "Coq 8.16.1 kernel + vm_compute (no native_compute); full .vo compilation")
    tb.append("axioms reported by Print Assumptions on this run: " + (", ".join(proofs.axioms) if proofs.axioms else "none (all %d printed 'Closed under the global context')" % proofs.closed))
    cov = {
        "obligations": len(proofs.obligations),
        "discharged": len(proofs.discharged),
        "checker_cmd": "; ".join(proofs.cmds) if proofs.cmds else "none run",
        "trusted_base": tb,
        "theorems": proofs.obligations,
        "evaluations": corr.evaluations,
        "traces_validated_against_impl": corr.evaluations,
        "distinct_nontrivial": len(corr.nontrivial),
        "rule": corr.rule or getattr(mod, "RULE", ""),
        "samples": corr.samples[:4] or [{"note": "no correspondence cases on this run"}],
        "distribution": corr.distribution,
        "explanation": getattr(mod, "EXPLANATION", ""),
        "broken_ties": [{"kind": b["kind"], "detail": str(b.get("detail"))[:600]} for b in broken],
        "known_findings_reproduced": sorted(known_hits),
        "oracle_runs": getattr(ctx, "oracle_runs", 0),
        "notes": corr.notes[:20],
    }
    ev = {
        "property_id": pid,
        "tier": ctx.tier,
        "seed": ctx.seed,
        "level": level,
        "coverage": cov,
        "assumptions": list(getattr(mod, "ASSUMPTIONS", [])),
        "wall_s": round(time.time() - ctx.t0, 2),
        "violations": nviol,
    }
    os.makedirs(os.path.join(VERIF, "evidence"), exist_ok=True)
    with open(os.path.join(VERIF, "evidence", pid + ".json"), "w") as f:
        json.dump(ev, f, indent=1, default=str)
        f.write("\n")
    ctx.log("done: exit", exit_code, "violations", nviol, "known", sorted(known_hits))
    return exit_code
if __name__ == "__main__":
    sys.exit(main())
