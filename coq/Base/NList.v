(* Tensors as nested lists: nl 0 A = A, nl (S r) A = list (nl r A). [tensor.tolist()] gives exactly this. *)
From DV Require Import Base.Tactics.

Fixpoint nl (r : nat) (A : Type) : Type := match r with 0 => A | S r' => list (nl r' A) end.

(* constant tensor of a given shape (outermost size first) *)
Fixpoint full {A} (r : nat) (sizes : list nat) (v : A) : nl r A :=
  match r with
  | 0 => v
  | S r' => repeat (full r' (tl sizes) v) (hd 0 sizes)
  end.

(* shape read along first elements (meaningful for rectangular tensors) *)
Fixpoint shape {A} (r : nat) : nl r A -> list nat :=
  match r with
  | 0 => fun _ => []
  | S r' => fun t => length t :: match t with x :: _ => shape r' x | [] => repeat 0 r' end
  end.

(* rectangular with the given sizes *)
Fixpoint rect {A} (r : nat) (sizes : list nat) : nl r A -> Prop :=
  match r with
  | 0 => fun _ => sizes = []
  | S r' => fun t => match sizes with
                     | [] => False
                     | n :: ss => length t = n /\ Forall (rect r' ss) t
                     end
  end.

(* apply f at depth d (to every sub-tensor of rank r) *)
Fixpoint deep {A} (d r : nat) (f : nl r A -> nl r A) : nl (d + r) A -> nl (d + r) A :=
  match d with
  | 0 => f
  | S d' => map (deep d' r f)
  end.

Lemma rect_shape {A} r sizes (t : nl r A) : rect r sizes t -> Forall (fun n => 0 < n) sizes -> shape r t = sizes.
Proof.
  revert sizes t. induction r as [|r IH]; intros sizes t H Hpos.
  - cbn in *. subst. reflexivity.
  - cbn [rect] in H. destruct sizes as [|n ss]; [contradiction|]. destruct H as [Hl Hf].
    cbn [shape]. rewrite Hl. f_equal.
    inversion Hpos as [|? ? Hn Hss]; subst.
    destruct t as [|x xs]; [cbn in Hn; lia|].
    inversion Hf; subst. apply IH; assumption.
Qed.

Lemma full_rect {A} r sizes (v : A) : length sizes = r -> rect r sizes (full r sizes v).
Proof.
  revert sizes. induction r as [|r IH]; intros sizes H.
  - destruct sizes; [reflexivity|discriminate].
  - destruct sizes as [|n ss]; [discriminate|]. cbn [full rect hd tl]. split; [apply repeat_length|].
    apply Forall_forall. intros x Hx. apply repeat_spec in Hx. subst. apply IH. cbn in H. lia.
Qed.
