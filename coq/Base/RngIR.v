(* Random-number discipline of a seeded routine: which streams it touches, in which region.
   A routine has the form   pre ; with temp_seed(self.rng, seed): body ; post   (temp_seed = save, reseed, restore). *)
From DV Require Import Base.Tactics.

Inductive rstmt : Type :=
  | RPure                      (* no random stream involved *)
  | RDrawPriv                  (* self.rng.<draw> *)
  | RSeedPriv                  (* self.rng.seed(f(seed))  with f a function of the seed argument only *)
  | RKernel                    (* C kernel: srand(k) with k a private draw, then libc rand() *)
  | RDrawGlobal (which : nat)  (* np.random / torch / random module-level streams *)
  | RSeedGlobal (which : nat)
  | RUnknown.                  (* a call the translator could not classify *)

Record rprog := { rpre : list rstmt; rbody : list rstmt; rpost : list rstmt }.

Definition is_pure (s : rstmt) : bool := match s with RPure => true | _ => false end.
Definition body_ok (s : rstmt) : bool := match s with RPure | RDrawPriv | RSeedPriv | RKernel => true | _ => false end.
Definition disciplined (p : rprog) : bool :=
  forallb is_pure (rpre p) && forallb body_ok (rbody p) && forallb is_pure (rpost p).

Section Sem.
Variables (S V Seed : Type).
Variable draw : S -> V * S.              (* one draw from a stream *)
Variable reseed : Seed -> S.             (* stream state after seeding *)
Variable derive : Seed -> Seed.          (* integerize_seed *)
Variable kernel : V -> list V.           (* values produced by a C kernel seeded with a drawn value *)

(* private stream, global streams (numpy, torch, python), values observed so far (they determine the mask) *)
Record rstate := { priv : S; glob : nat -> S; seen : list V }.

Definition upd_glob (g : nat -> S) (w : nat) (s : S) : nat -> S := fun k => if Nat.eqb k w then s else g k.

Definition step (seed : Seed) (st : rstate) (s : rstmt) : rstate :=
  match s with
  | RPure | RUnknown => st
  | RDrawPriv => let (v, p') := draw (priv st) in {| priv := p'; glob := glob st; seen := seen st ++ [v] |}
  | RSeedPriv => {| priv := reseed (derive seed); glob := glob st; seen := seen st |}
  | RKernel => let (v, p') := draw (priv st) in {| priv := p'; glob := glob st; seen := seen st ++ kernel v |}
  | RDrawGlobal w => let (v, g') := draw (glob st w) in {| priv := priv st; glob := upd_glob (glob st) w g'; seen := seen st ++ [v] |}
  | RSeedGlobal w => {| priv := priv st; glob := upd_glob (glob st) w (reseed seed); seen := seen st |}
  end.
Definition steps (seed : Seed) (st : rstate) (l : list rstmt) : rstate := fold_left (step seed) l st.

(* the whole call: pre; save; reseed; body; restore; post.  Result = the values observed. *)
Definition exec (p : rprog) (seed : Seed) (st : rstate) : rstate :=
  let st1 := steps seed {| priv := priv st; glob := glob st; seen := [] |} (rpre p) in
  let saved := priv st1 in
  let st2 := steps seed {| priv := reseed seed; glob := glob st1; seen := seen st1 |} (rbody p) in
  steps seed {| priv := saved; glob := glob st2; seen := seen st2 |} (rpost p).
End Sem.

Arguments priv {S V} r.
Arguments glob {S V} r.
Arguments seen {S V} r.
