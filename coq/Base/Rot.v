(* Cyclic rotation of a list, written the way transforms.roll_one_dim does it (narrow + cat). *)
From DV Require Import Base.Tactics.

Section Rot.
Context {A : Type}.

(* roll to the right by s: element k of the result is element (k - s) mod n of the input *)
Definition rotr (s : nat) (l : list A) : list A :=
  let n := length l in
  let sh := s mod n in
  if sh =? 0 then l else skipn (n - sh) l ++ firstn (n - sh) l.

Lemma rotr_length s l : length (rotr s l) = length l.
Proof.
  unfold rotr. destruct (s mod length l =? 0); [reflexivity|].
  rewrite app_length, skipn_length, firstn_length. lia.
Qed.

Lemma nth_skipn (l : list A) a k d : nth k (skipn a l) d = nth (a + k) l d.
Proof.
  revert l. induction a as [|a IH]; intros l; [reflexivity|].
  destruct l as [|x xs]; [destruct k; reflexivity|]. cbn [skipn Nat.add nth]. apply IH.
Qed.

Lemma nth_firstn (l : list A) a k d : k < a -> nth k (firstn a l) d = nth k l d.
Proof.
  revert l k. induction a as [|a IH]; intros l k H; [lia|].
  destruct l as [|x xs]; [destruct k; reflexivity|]. destruct k; [reflexivity|]. cbn [firstn nth]. apply IH. lia.
Qed.

Lemma mod_sub_wrap n k sh : 0 < sh < n -> k < n ->
  (k + n - sh) mod n = if k <? sh then n - sh + k else k - sh.
Proof.
  intros Hs Hk. destruct (k <? sh) eqn:E.
  - apply Nat.ltb_lt in E. rewrite Nat.mod_small by lia. lia.
  - apply Nat.ltb_ge in E. replace (k + n - sh) with ((k - sh) + 1 * n) by lia.
    rewrite Nat.mod_add by lia. apply Nat.mod_small. lia.
Qed.

Lemma nth_rotr s l k d : k < length l ->
  nth k (rotr s l) d = nth ((k + length l - s mod length l) mod length l) l d.
Proof.
  intros Hk. unfold rotr. set (n := length l) in *. set (sh := s mod n).
  assert (Hsh : sh < n) by (apply Nat.mod_upper_bound; lia).
  destruct (sh =? 0) eqn:E.
  - apply Nat.eqb_eq in E. rewrite E. rewrite Nat.sub_0_r.
    replace (k + n) with (k + 1 * n) by lia. rewrite Nat.mod_add by lia. rewrite Nat.mod_small by lia. reflexivity.
  - apply Nat.eqb_neq in E. rewrite mod_sub_wrap by lia.
    destruct (k <? sh) eqn:E2.
    + apply Nat.ltb_lt in E2. rewrite app_nth1 by (rewrite skipn_length; fold n; lia). apply nth_skipn.
    + apply Nat.ltb_ge in E2. rewrite app_nth2 by (rewrite skipn_length; fold n; lia).
      rewrite skipn_length. fold n. replace (k - (n - (n - sh))) with (k - sh) by lia.
      apply nth_firstn. lia.
Qed.

Lemma list_ext (l1 l2 : list A) : length l1 = length l2 ->
  (forall k d, k < length l1 -> nth k l1 d = nth k l2 d) -> l1 = l2.
Proof.
  revert l2. induction l1 as [|x xs IH]; intros l2 Hl H; destruct l2 as [|y ys]; try discriminate; [reflexivity|].
  f_equal.
  - apply (H 0 x). cbn. lia.
  - apply IH; [cbn in Hl; lia|]. intros k d Hk. apply (H (S k) d). cbn. lia.
Qed.

(* index arithmetic of a rotation: idx s n k = (k - s) mod n *)
Definition ridx (s n k : nat) : nat := (k + n - s mod n) mod n.

Lemma mod_lt2 n x : 0 < n -> x < 2 * n -> x mod n = if x <? n then x else x - n.
Proof.
  intros Hn Hx. destruct (x <? n) eqn:E.
  - apply Nat.ltb_lt in E. apply Nat.mod_small. exact E.
  - apply Nat.ltb_ge in E. replace x with ((x - n) + 1 * n) at 1 by lia. rewrite Nat.mod_add by lia. apply Nat.mod_small. lia.
Qed.

Lemma ridx_lt s n k : 0 < n -> ridx s n k < n.
Proof. intros. apply Nat.mod_upper_bound. lia. Qed.

Lemma ridx_add s n k : 0 < n -> (ridx s n k + s) mod n = k mod n.
Proof.
  intros Hn. unfold ridx. rewrite Nat.add_mod_idemp_l by lia.
  pose proof (Nat.mod_upper_bound s n ltac:(lia)) as Hr.
  rewrite (Nat.div_mod s n) at 2 by lia.
  replace (k + n - s mod n + (n * (s / n) + s mod n)) with (k + (s / n + 1) * n) by lia.
  apply Nat.mod_add. lia.
Qed.

Lemma add_mod_inj s n j1 j2 : 0 < n -> j1 < n -> j2 < n -> (j1 + s) mod n = (j2 + s) mod n -> j1 = j2.
Proof.
  intros Hn H1 H2 H. rewrite <- (Nat.add_mod_idemp_r j1 s), <- (Nat.add_mod_idemp_r j2 s) in H by lia.
  pose proof (Nat.mod_upper_bound s n ltac:(lia)) as Hr.
  rewrite (mod_lt2 n (j1 + s mod n)), (mod_lt2 n (j2 + s mod n)) in H by lia. revert H.
  destruct (j1 + s mod n <? n) eqn:E1; destruct (j2 + s mod n <? n) eqn:E2; intros H;
    try apply Nat.ltb_lt in E1; try apply Nat.ltb_ge in E1; try apply Nat.ltb_lt in E2; try apply Nat.ltb_ge in E2; lia.
Qed.

Lemma ridx_compose a b n k : 0 < n -> k < n -> ridx b n (ridx a n k) = ridx (a + b) n k.
Proof.
  intros Hn Hk. apply (add_mod_inj (a + b) n); try apply ridx_lt; try exact Hn.
  rewrite (ridx_add (a + b) n k Hn).
  replace (ridx b n (ridx a n k) + (a + b)) with ((ridx b n (ridx a n k) + b) + a) by lia.
  rewrite <- Nat.add_mod_idemp_l by lia. rewrite ridx_add by exact Hn.
  rewrite Nat.add_mod_idemp_l by lia. apply ridx_add. exact Hn.
Qed.

Lemma nth_rotr_ridx s l k d : k < length l -> nth k (rotr s l) d = nth (ridx s (length l) k) l d.
Proof. apply nth_rotr. Qed.

Lemma rotr_rotr a b l : rotr a (rotr b l) = rotr (a + b) l.
Proof.
  apply list_ext; [rewrite !rotr_length; reflexivity|].
  intros k d Hk. rewrite !rotr_length in Hk.
  rewrite nth_rotr_ridx by (rewrite rotr_length; exact Hk). rewrite rotr_length.
  rewrite nth_rotr_ridx by (apply ridx_lt; lia).
  rewrite nth_rotr_ridx by exact Hk.
  rewrite ridx_compose by lia. reflexivity.
Qed.

Lemma rotr_multiple s l : s mod length l = 0 -> rotr s l = l.
Proof. intros H. unfold rotr. rewrite H. reflexivity. Qed.

Lemma rotr_nil s : rotr s (@nil A) = [].
Proof. unfold rotr. destruct (_ =? 0); [reflexivity|]. rewrite skipn_nil, firstn_nil. reflexivity. Qed.

(* spectrum shifts: fftshift rolls by n/2, ifftshift by (n+1)/2; together a full turn *)
Theorem ifftshift_fftshift_1d l : rotr ((length l + 1) / 2) (rotr (length l / 2) l) = l.
Proof.
  rewrite rotr_rotr. apply rotr_multiple.
  destruct l as [|x xs]; [reflexivity|]. set (n := length (x :: xs)).
  assert (E : (n + 1) / 2 + n / 2 = n).
  { pose proof (Nat.div_mod n 2 ltac:(lia)). pose proof (Nat.div_mod (n + 1) 2 ltac:(lia)).
    pose proof (Nat.mod_upper_bound n 2 ltac:(lia)). pose proof (Nat.mod_upper_bound (n + 1) 2 ltac:(lia)).
    assert ((n + 1) mod 2 = 1 - n mod 2).
    { rewrite <- Nat.add_mod_idemp_l by lia. destruct (n mod 2) as [|[|?]]; [reflexivity|reflexivity|lia]. }
    lia. }
  rewrite E. apply Nat.mod_same. unfold n. cbn. lia.
Qed.

Theorem fftshift_ifftshift_1d l : rotr (length l / 2) (rotr ((length l + 1) / 2) l) = l.
Proof. rewrite rotr_rotr. rewrite Nat.add_comm. rewrite <- rotr_rotr. apply ifftshift_fftshift_1d. Qed.

(* the reference shift (numpy.fft.fftshift): out[k] = in[(k - n/2) mod n], i.e. the zero-frequency sample in[0]
   lands at index n/2, for odd and even n *)
Theorem fftshift_reference l k d : k < length l ->
  nth k (rotr (length l / 2) l) d = nth ((k + length l - (length l / 2) mod length l) mod length l) l d.
Proof. apply nth_rotr. Qed.

Corollary fftshift_dc_at_center l d : 0 < length l -> nth (length l / 2) (rotr (length l / 2) l) d = nth 0 l d.
Proof.
  intros Hn. rewrite nth_rotr by (apply Nat.div_lt; lia). f_equal.
  set (n := length l) in *. destruct (Nat.eq_dec n 1) as [->|Hne]; [reflexivity|].
  rewrite (Nat.mod_small (n / 2)) by (apply Nat.div_lt; lia).
  replace (n / 2 + n - n / 2) with (0 + 1 * n) by lia. rewrite Nat.mod_add by lia. apply Nat.mod_0_l. lia.
Qed.
End Rot.
