(* List lemmas used by several models: slices, contiguous partitions, chunking. *)
From DV Require Import Base.Tactics.

Section Slices.
Context {A : Type}.

Definition slice (a n : nat) (l : list A) : list A := firstn n (skipn a l).

Lemma slice_length a n (l : list A) : a + n <= length l -> length (slice a n l) = n.
Proof. intros H. unfold slice. rewrite firstn_length, skipn_length. lia. Qed.

Lemma slice_app a n m (l : list A) : slice a n l ++ slice (a + n) m l = slice a (n + m) l.
Proof.
  unfold slice. revert a l. induction n as [|n IH]; intros a l.
  - rewrite Nat.add_0_r. reflexivity.
  - replace (a + S n) with (S a + n) by lia.
    destruct (skipn a l) as [|x xs] eqn:E.
    + assert (H : length l <= a).
      { assert (HL : length (skipn a l) = 0) by (rewrite E; reflexivity). rewrite skipn_length in HL. lia. }
      rewrite (skipn_all2 l) by lia. simpl. rewrite firstn_nil. reflexivity.
    + assert (E2 : skipn (S a) l = xs).
      { clear IH. revert l E. induction a as [|a IHa]; intros l E.
        - simpl in E. subst l. reflexivity.
        - destruct l as [|y ys]; [discriminate|]. simpl in E. simpl. apply IHa in E. exact E. }
      cbn [firstn Nat.add app]. f_equal.
      specialize (IH (S a) l). rewrite E2 in IH. exact IH.
Qed.

Lemma slice_all (l : list A) : slice 0 (length l) l = l.
Proof. unfold slice. simpl. apply firstn_all. Qed.

Lemma slice_over a n (l : list A) : length l <= a -> slice a n l = [].
Proof. intros H. unfold slice. rewrite skipn_all2 by lia. apply firstn_nil. Qed.

(* A family of consecutive slices [start i, start i + size i), i < k, that starts at 0 and ends at the
   length of the list concatenates to the list. *)
Lemma concat_slices (l : list A) (start size : nat -> nat) k :
  start 0 = 0 ->
  (forall i, i < k -> start (S i) = start i + size i) ->
  start k = length l ->
  concat (map (fun i => slice (start i) (size i) l) (seq 0 k)) = l.
Proof.
  intros H0 Hs Hk.
  assert (G : forall j, j <= k -> concat (map (fun i => slice (start i) (size i) l) (seq 0 j)) = slice 0 (start j) l).
  { induction j as [|j IH]; intros Hj.
    - simpl. rewrite H0. reflexivity.
    - rewrite seq_S, map_app, concat_app. simpl. rewrite app_nil_r. rewrite IH by lia.
      rewrite Hs by lia. rewrite <- slice_app. simpl. reflexivity. }
  rewrite G by lia. rewrite Hk. apply slice_all.
Qed.
End Slices.

Lemma concat_concat {A} (l : list (list (list A))) : concat (concat l) = concat (map (@concat A) l).
Proof. induction l as [|x xs IH]; [reflexivity|]. cbn [concat map]. rewrite concat_app, IH. reflexivity. Qed.

Lemma In_firstn {A} n (l : list A) x : In x (firstn n l) -> In x l.
Proof. intros H. rewrite <- (firstn_skipn n l). apply in_or_app. left. exact H. Qed.
Lemma In_skipn {A} n (l : list A) x : In x (skipn n l) -> In x l.
Proof. intros H. rewrite <- (firstn_skipn n l). apply in_or_app. right. exact H. Qed.

Lemma nth_map' {A B} (f : A -> B) l i d d' : i < length l -> nth i (map f l) d = f (nth i l d').
Proof.
  revert i. induction l as [|x xs IH]; intros i H; [cbn in H; lia|].
  destruct i; [reflexivity|]. cbn [map nth]. apply IH. cbn in H. lia.
Qed.

Lemma firstn_seq m a n : firstn m (seq a n) = seq a (Nat.min m n).
Proof.
  revert a n. induction m as [|m IH]; intros a n; [reflexivity|].
  destruct n as [|n]; [reflexivity|]. cbn [seq firstn Nat.min]. f_equal. apply IH.
Qed.
Lemma skipn_seq m a n : skipn m (seq a n) = seq (a + m) (n - m).
Proof.
  revert a n. induction m as [|m IH]; intros a n.
  - rewrite Nat.add_0_r, Nat.sub_0_r. reflexivity.
  - destruct n as [|n]; [reflexivity|]. cbn [seq skipn]. rewrite IH. f_equal; lia.
Qed.

(* chunk a list in pieces of size bs (the last one may be shorter); fuel = length *)
Section Chunk.
Context {A : Type}.
Fixpoint chunk_fuel (fuel bs : nat) (l : list A) : list (list A) :=
  match fuel with
  | 0 => []
  | S f => match l with
           | [] => []
           | _ => firstn bs l :: chunk_fuel f bs (skipn bs l)
           end
  end.
Definition chunk_list (bs : nat) (l : list A) : list (list A) := chunk_fuel (length l) bs l.

Lemma chunk_fuel_concat fuel bs (l : list A) : 0 < bs -> length l <= fuel -> concat (chunk_fuel fuel bs l) = l.
Proof.
  intros Hbs. revert l. induction fuel as [|f IH]; intros l Hl.
  - destruct l; [reflexivity | simpl in Hl; lia].
  - destruct l as [|x xs]; [reflexivity|].
    cbn [chunk_fuel concat]. rewrite IH.
    + apply firstn_skipn.
    + rewrite skipn_length. cbn [length] in *. lia.
Qed.

Lemma chunk_list_concat bs (l : list A) : 0 < bs -> concat (chunk_list bs l) = l.
Proof. intros. apply chunk_fuel_concat; auto. Qed.

Lemma chunk_fuel_sizes fuel bs (l : list A) : 0 < bs ->
  Forall (fun b => 0 < length b <= bs) (chunk_fuel fuel bs l).
Proof.
  intros Hbs. revert l. induction fuel as [|f IH]; intros l; [constructor|].
  destruct l as [|x xs]; [constructor|]. cbn [chunk_fuel]. constructor; [|apply IH].
  rewrite firstn_length. cbn [length]. lia.
Qed.

Lemma chunk_fuel_more fuel fuel' bs (l : list A) : 0 < bs -> length l <= fuel -> length l <= fuel' ->
  chunk_fuel fuel bs l = chunk_fuel fuel' bs l.
Proof.
  intros Hbs. revert fuel' l. induction fuel as [|f IH]; intros fuel' l H1 H2.
  - destruct l; [|simpl in H1; lia]. destruct fuel'; reflexivity.
  - destruct l as [|x xs]; [destruct fuel'; reflexivity|].
    destruct fuel' as [|f']; [simpl in H2; lia|].
    cbn [chunk_fuel]. f_equal. apply IH; rewrite skipn_length; cbn [length] in *; lia.
Qed.
End Chunk.
