(* Operator expressions: what the masked MRI operators compute, as terms over named inputs.
   Used by C03 (masking / non-interference) and C19 (data-consistency gradient). *)
From DV Require Import Base.Tactics.

Definition var := nat.

Inductive oexp : Type :=
  | OVar (x : var)                       (* a tensor input: k-space, image, sensitivity map ... *)
  | OWhere0 (m : var) (e : oexp)         (* torch.where(mask == 0, 0, e) *)
  | OWherePad (p : var) (e : oexp)       (* torch.where(padding == 1, 0, e) *)
  | OFwd (e : oexp)                      (* forward operator (FFT over the spatial axes) *)
  | OBwd (e : oexp)                      (* backward operator *)
  | OExpand (img smap : oexp)            (* S_c * x for every coil c *)
  | OReduce (k smap : oexp)              (* sum_c conj(S_c) * k_c *)
  | OSub (a b : oexp) | OAdd (a b : oexp)
  | OScale (c : var) (e : oexp)          (* multiplication by a scalar input *)
  | OLayout (tag : nat) (e : oexp).      (* permute / view: a bijective re-layout *)

(* [only_masked x m e]: every occurrence of tensor variable x in e is the direct argument of a [OWhere0 m] *)
Fixpoint only_masked (x : var) (m : var) (e : oexp) : bool :=
  match e with
  | OVar y => negb (Nat.eqb y x)
  | OWhere0 m' e' =>
      match e' with
      | OVar y => if Nat.eqb y x then Nat.eqb m' m else true
      | _ => only_masked x m e'
      end
  | OWherePad _ e' | OFwd e' | OBwd e' | OScale _ e' | OLayout _ e' => only_masked x m e'
  | OExpand a b | OReduce a b | OSub a b | OAdd a b => only_masked x m a && only_masked x m b
  end.

Section Sem.
Variables (T M S : Type).                 (* tensors, masks, scalars *)
Variable where0 : M -> T -> T.
Variable wherepad : M -> T -> T.
Variables (F Finv : T -> T) (expand reduce sub add : T -> T -> T) (scale : S -> T -> T) (layout : nat -> T -> T).

Fixpoint eval (rt : var -> T) (rm : var -> M) (rs : var -> S) (e : oexp) : T :=
  match e with
  | OVar x => rt x
  | OWhere0 m e' => where0 (rm m) (eval rt rm rs e')
  | OWherePad p e' => wherepad (rm p) (eval rt rm rs e')
  | OFwd e' => F (eval rt rm rs e')
  | OBwd e' => Finv (eval rt rm rs e')
  | OExpand a b => expand (eval rt rm rs a) (eval rt rm rs b)
  | OReduce a b => reduce (eval rt rm rs a) (eval rt rm rs b)
  | OSub a b => sub (eval rt rm rs a) (eval rt rm rs b)
  | OAdd a b => add (eval rt rm rs a) (eval rt rm rs b)
  | OScale c e' => scale (rs c) (eval rt rm rs e')
  | OLayout tag e' => layout tag (eval rt rm rs e')
  end.

(* non-interference: if x only ever enters e through where0 m x, then e depends on x only through that masked value *)
Theorem eval_noninterference (x m : var) (e : oexp) (rt rt' : var -> T) rm rs :
  only_masked x m e = true ->
  (forall y, y <> x -> rt y = rt' y) ->
  where0 (rm m) (rt x) = where0 (rm m) (rt' x) ->
  eval rt rm rs e = eval rt' rm rs e.
Proof.
  intros Hg Hother Hmask.
  induction e as [y|m' e' IH|p e' IH|e' IH|e' IH|a IHa b IHb|a IHa b IHb|a IHa b IHb|a IHa b IHb|c e' IH|tag e' IH];
    cbn [eval]; cbn [only_masked] in Hg.
  - apply Hother. apply negb_true_iff in Hg. apply Nat.eqb_neq in Hg. exact Hg.
  - destruct e' as [y| | | | | | | | | |]; try (rewrite IH by exact Hg; reflexivity).
    cbn [eval]. destruct (Nat.eqb y x) eqn:E.
    + apply Nat.eqb_eq in E. subst y. apply Nat.eqb_eq in Hg. subst m'. exact Hmask.
    + apply Nat.eqb_neq in E. rewrite (Hother y E). reflexivity.
  - rewrite IH by exact Hg. reflexivity.
  - rewrite IH by exact Hg. reflexivity.
  - rewrite IH by exact Hg. reflexivity.
  - apply andb_true_iff in Hg. destruct Hg as [Ha Hb]. rewrite IHa, IHb by assumption. reflexivity.
  - apply andb_true_iff in Hg. destruct Hg as [Ha Hb]. rewrite IHa, IHb by assumption. reflexivity.
  - apply andb_true_iff in Hg. destruct Hg as [Ha Hb]. rewrite IHa, IHb by assumption. reflexivity.
  - apply andb_true_iff in Hg. destruct Hg as [Ha Hb]. rewrite IHa, IHb by assumption. reflexivity.
  - rewrite IH by exact Hg. reflexivity.
  - rewrite IH by exact Hg. reflexivity.
Qed.
End Sem.
