(* Arithmetic header shared by the stdlib-style files. *)
From Coq Require Export ZArith List Bool Lia Arith ZifyBool ZifyNat.
Export ListNotations.
Ltac Zify.zify_post_hook ::= Z.to_euclidean_division_equations.

(* destruct the first [if] / boolean comparison found in the goal, remembering its value *)
Ltac case_if :=
  match goal with
  | |- context [if ?b then _ else _] => let E := fresh "E" in destruct b eqn:E
  end.
Ltac case_ifs := repeat case_if.
