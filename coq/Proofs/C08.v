(* C08 — lemmas: a term of homogeneity degree d evaluates, on a raw k-space multiplied by c > 0, to c^d times its value;
   decidable checks on the symbolic sample at the end of the pipeline. *)
From DV Require Import Base.Tactics Model.C08.

Section Sem.
Variable V : Type.
Variable act : V -> V.   (* multiplication by the constant c > 0 under consideration *)
Variables (lin : nat -> V -> V) (padof : V -> V) (padapply : V -> V -> V) (maskgen : bool -> V -> V -> V)
          (body sens masked : V -> V -> V) (scalef : bool -> V -> V) (one : V -> V) (divv : V -> V -> V) (image : V -> V) (images : V -> V -> V) (split : bool -> V -> V -> V) (const nopad : V).

(* homogeneity contracts of the operations (trusted base; each is validated on the implementation stage by stage) *)
Hypothesis lin_h : forall n v, lin n (act v) = act (lin n v).
Hypothesis padof_h : forall v, padof (act v) = padof v.                 (* the padding threshold is relative *)
Hypothesis padapply_h : forall v p, padapply (act v) p = act (padapply v p).
Hypothesis maskgen_h : forall a v p, maskgen a (act v) p = maskgen a v p.   (* only the shape of its argument is read *)
Hypothesis body_h : forall v a, body (act v) a = act (body v a).
Hypothesis sens_h : forall v a, sens (act v) a = sens v a.               (* C09: maps are normalised *)
Hypothesis masked_h : forall m v, masked m (act v) = act (masked m v).
Hypothesis scalef_h : forall p v, scalef p (act v) = act (scalef p v).   (* order statistics of the modulus *)
Hypothesis one_h : forall v, one (act v) = one v.
Hypothesis div_h0 : forall v s, divv (act v) s = act (divv v s).
Hypothesis div_h1 : forall v s, divv (act v) (act s) = divv v s.         (* safe_divide (c x) (c s) = safe_divide x s *)
Hypothesis image_h : forall v, image (act v) = act (image v).            (* modulus / RSS are absolutely homogeneous *)
Hypothesis images_h : forall v s, images (act v) s = act (images v s).   (* SENSE combinations are homogeneous in the k-space *)

Fixpoint eval (rho : key -> V) (t : tm) : V :=
  match t with
  | TRaw k => rho k
  | TLin n t => lin n (eval rho t)
  | TPadOf t => padof (eval rho t)
  | TPadApply t p => padapply (eval rho t) (eval rho p)
  | TMaskGen a s p => maskgen a (eval rho s) (eval rho p)
  | TNoPad => nopad
  | TBody t a => body (eval rho t) (eval rho a)
  | TSens t a => sens (eval rho t) (eval rho a)
  | TMasked m t => masked (eval rho m) (eval rho t)
  | TScale p t => scalef p (eval rho t)
  | TOne t => one (eval rho t)
  | TDiv t s => divv (eval rho t) (eval rho s)
  | TImage t => image (eval rho t)
  | TImageS t s => images (eval rho t) (eval rho s)
  | TSplit b m a => split b (eval rho m) (eval rho a)
  | TConst => const
  end.

Definition sc (d : nat) (v : V) : V := match d with O => v | S _ => act v end.
Definition scaled (rho : key -> V) : key -> V := fun k => sc (raw_deg k) (rho k).

Theorem eval_homog rho : forall t d, tdeg t = Some d -> eval (scaled rho) t = sc d (eval rho t).
Proof.
  induction t as [k|n t IH|t IH|t IHt p IHp|a s IHs p IHp| |t IHt a IHa|t IHt a IHa|m IHm t IHt|p t IH|t IH|t IHt s IHs|t IH|t IHt s IHs|b m IHm a IHa|]; intros d H; cbn [tdeg eval] in *.
  - inversion H; subst. reflexivity.
  - rewrite (IH d H). destruct d; cbn [sc]; [reflexivity|apply lin_h].
  - destruct (tdeg t) as [d'|]; [|discriminate]. inversion H; subst. rewrite (IH d' eq_refl). destruct d'; cbn [sc]; [reflexivity|apply padof_h].
  - destruct (tdeg t) as [dt|]; [|discriminate]. destruct (tdeg p) as [[|dp]|]; try discriminate. inversion H; subst.
    rewrite (IHt d eq_refl), (IHp 0 eq_refl). destruct d; cbn [sc]; [reflexivity|apply padapply_h].
  - destruct (tdeg s) as [ds|]; [|discriminate]. destruct (tdeg p) as [[|dp]|]; try discriminate. inversion H; subst.
    rewrite (IHs ds eq_refl), (IHp 0 eq_refl). destruct ds; cbn [sc]; [reflexivity|apply maskgen_h].
  - inversion H; subst. reflexivity.
  - destruct (tdeg t) as [dt|]; [|discriminate]. destruct (tdeg a) as [[|da]|]; try discriminate. inversion H; subst.
    rewrite (IHt d eq_refl), (IHa 0 eq_refl). destruct d; cbn [sc]; [reflexivity|apply body_h].
  - destruct (tdeg t) as [dt|]; [|discriminate]. destruct (tdeg a) as [[|da]|]; try discriminate. inversion H; subst.
    rewrite (IHt dt eq_refl), (IHa 0 eq_refl). destruct dt; cbn [sc]; [reflexivity|apply sens_h].
  - destruct (tdeg m) as [[|dm]|]; try discriminate. destruct (tdeg t) as [dt|]; [|discriminate]. inversion H; subst.
    rewrite (IHm 0 eq_refl), (IHt d eq_refl). destruct d; cbn [sc]; [reflexivity|apply masked_h].
  - rewrite (IH d H). destruct d; cbn [sc]; [reflexivity|apply scalef_h].
  - destruct (tdeg t) as [d'|]; [|discriminate]. inversion H; subst. rewrite (IH d' eq_refl). destruct d'; cbn [sc]; [reflexivity|apply one_h].
  - destruct (tdeg t) as [dt|]; [|discriminate]. destruct (tdeg s) as [[|[|ds]]|]; try discriminate.
    + assert (dt = d) by (destruct dt as [|[|dt']]; inversion H; reflexivity). subst dt.
      rewrite (IHt d eq_refl), (IHs 0 eq_refl). destruct d; cbn [sc]; [reflexivity|apply div_h0].
    + destruct dt as [|[|dt]]; try discriminate. inversion H; subst. rewrite (IHt 1 eq_refl), (IHs 1 eq_refl). cbn [sc]. apply div_h1.
    + destruct dt as [|[|dt]]; discriminate.
    + destruct dt as [|[|dt]]; discriminate.
  - rewrite (IH d H). destruct d; cbn [sc]; [reflexivity|apply image_h].
  - destruct (tdeg t) as [dt|]; [|discriminate]. destruct (tdeg s) as [[|ds]|]; try discriminate. inversion H; subst.
    rewrite (IHt d eq_refl), (IHs 0 eq_refl). destruct d; cbn [sc]; [reflexivity|apply images_h].
  - destruct (tdeg m) as [[|dm]|]; try discriminate. destruct (tdeg a) as [[|da]|]; try discriminate. inversion H; subst.
    rewrite (IHm 0 eq_refl), (IHa 0 eq_refl). reflexivity.
  - inversion H; subst. reflexivity.
Qed.

(* masking commutes with the normalisation: (mask x k) / s = mask x (k / s) *)
Hypothesis masked_div : forall m v s, divv (masked m v) s = masked m (divv v s).
Lemma masked_normalised rho m x s : eval rho (TDiv (TMasked m x) s) = eval rho (TMasked m (TDiv x s)).
Proof. cbn [eval]. apply masked_div. Qed.
End Sem.

(* ------------------------------------------------------------------ decidable checks on the final symbolic sample *)
Fixpoint tm_eqb (a b : tm) : bool :=
  match a, b with
  | TRaw k, TRaw k' => key_eqb k k'
  | TLin n t, TLin n' t' => Nat.eqb n n' && tm_eqb t t'
  | TPadOf t, TPadOf t' => tm_eqb t t'
  | TPadApply t p, TPadApply t' p' => tm_eqb t t' && tm_eqb p p'
  | TMaskGen x s p, TMaskGen x' s' p' => Bool.eqb x x' && tm_eqb s s' && tm_eqb p p'
  | TNoPad, TNoPad => true
  | TBody t x, TBody t' x' => tm_eqb t t' && tm_eqb x x'
  | TSens t x, TSens t' x' => tm_eqb t t' && tm_eqb x x'
  | TMasked m t, TMasked m' t' => tm_eqb m m' && tm_eqb t t'
  | TScale p t, TScale p' t' => Bool.eqb p p' && tm_eqb t t'
  | TOne t, TOne t' => tm_eqb t t'
  | TDiv t s, TDiv t' s' => tm_eqb t t' && tm_eqb s s'
  | TImage t, TImage t' => tm_eqb t t'
  | TImageS t s, TImageS t' s' => tm_eqb t t' && tm_eqb s s'
  | TSplit b m a, TSplit b' m' a' => Bool.eqb b b' && tm_eqb m m' && tm_eqb a a'
  | TConst, TConst => true
  | _, _ => false
  end.

Lemma tm_eqb_eq : forall a b, tm_eqb a b = true -> a = b.
Proof.
  induction a; destruct b; cbn [tm_eqb]; intros H; try discriminate; try reflexivity;
    repeat match goal with
           | H : _ && _ = true |- _ => apply andb_true_iff in H; destruct H
           | H : key_eqb _ _ = true |- _ => apply key_eqb_eq in H; subst
           | H : Nat.eqb _ _ = true |- _ => apply Nat.eqb_eq in H; subst
           | H : Bool.eqb _ _ = true |- _ => apply Bool.eqb_prop in H; subst
           | IH : forall b, tm_eqb ?a b = true -> ?a = b, H : tm_eqb ?a _ = true |- _ => apply IH in H; subst
           end; reflexivity.
Qed.

(* what the end of a normalising pipeline must look like:
   - scaling_factor has degree 1, every normalised value and every mask / map degree 0; the body-coil image, when it is
     requested, is not among the keys build_supervised_mri_transforms normalises: it keeps degree 1 (DESIGN.md, C08);
   - masked_kspace = (mask x K) / S with mask the sampling mask of the sample, target = image (K / S), and, if the
     fully sampled k-space is kept, kspace = K / S: the same K and S everywhere *)
Definition degrees_ok (e : env) : bool :=
  forallb (fun kt => match tdeg (snd kt) with
                     | Some d => Nat.eqb d (if key_eqb (fst kt) ScalingFactor || key_eqb (fst kt) BodyCoil then 1 else 0)
                     | None => false
                     end) e.

Definition masked_parts (t : tm) : option (tm * tm * tm) :=
  match t with TDiv (TMasked m x) s => Some (m, x, s) | _ => None end.
Lemma masked_parts_spec t m x s : masked_parts t = Some (m, x, s) -> t = TDiv (TMasked m x) s.
Proof.
  destruct t; cbn [masked_parts]; try discriminate.
  match goal with |- match ?a with _ => _ end = _ -> _ => destruct a; try discriminate end.
  intros H. inversion H; subst. reflexivity.
Qed.
Definition image_arg (t : tm) : option tm := match t with TImage a => Some a | TImageS a _ => Some a | _ => None end.
Definition consistent (e : env) : bool :=
  match option_map masked_parts (lookup MaskedKspace e), lookup Target e, lookup ScalingFactor e, lookup SamplingMask e with
  | Some (Some (m, x, s)), Some tg, Some sf, Some m' =>
      match image_arg tg with
      | Some a => tm_eqb a (TDiv x s) && tm_eqb s sf && tm_eqb m m' &&
                  match lookup Kspace e with Some k => tm_eqb k (TDiv x s) | None => true end &&
                  match tg with TImageS _ sm => match lookup SensMap e with Some sm' => tm_eqb sm sm' | None => false end | _ => true end
      | None => false
      end
  | _, _, _, _ => false
  end.

(* the self-supervised pipeline: the two k-spaces are the normalised masked k-space restricted to the two masks the
   splitter drew from the sampling mask; the target is the image of the target k-space *)
Definition ssl_consistent (e : env) : bool :=
  match lookup InputKspace e, lookup Kspace e, lookup Target e, lookup InputMask e, lookup TargetMask e, lookup ScalingFactor e with
  | Some (TMasked mi ki), Some (TMasked mg kg), Some tg, Some mi', Some mg', Some sf =>
      match image_arg tg, masked_parts ki, mi, mg with
      | Some a, Some (m, x, s), TSplit false sm acs, TSplit true sm' acs' =>
          tm_eqb a (TMasked mg kg) && tm_eqb ki kg && tm_eqb mi mi' && tm_eqb mg mg' && tm_eqb s sf && tm_eqb sm m && tm_eqb sm' m && tm_eqb acs acs'
      | _, _, _, _ => false
      end
  | _, _, _, _, _, _ => false
  end.

Definition final_ok_ssl (stages : cfg -> list stage) (x : cfg) : bool :=
  match sym_run (stages x) [(Kspace, TRaw Kspace)] with
  | Some e => degrees_ok e && ssl_consistent e
  | None => false
  end.

Definition final_ok (stages : cfg -> list stage) (x : cfg) : bool :=
  match sym_run (stages x) [(Kspace, TRaw Kspace)] with
  | Some e => degrees_ok e && consistent e
  | None => false
  end.

Lemma degrees_ok_spec e : degrees_ok e = true -> forall k t, In (k, t) e -> tdeg t = Some (if key_eqb k ScalingFactor || key_eqb k BodyCoil then 1 else 0).
Proof.
  unfold degrees_ok. rewrite forallb_forall. intros H k t Hin. specialize (H (k, t) Hin). cbn [fst snd] in H.
  destruct (tdeg t) as [d|]; [|discriminate]. apply Nat.eqb_eq in H. subst. reflexivity.
Qed.

Lemma consistent_spec e : consistent e = true -> exists m x s tg,
  lookup MaskedKspace e = Some (TDiv (TMasked m x) s) /\ lookup Target e = Some tg /\ image_arg tg = Some (TDiv x s) /\
  lookup ScalingFactor e = Some s /\ lookup SamplingMask e = Some m /\
  (forall k, lookup Kspace e = Some k -> k = TDiv x s) /\
  (forall a sm, tg = TImageS a sm -> lookup SensMap e = Some sm).
Proof.
  unfold consistent. destruct (lookup MaskedKspace e) as [mk|]; cbn [option_map]; [|discriminate].
  destruct (masked_parts mk) as [[[m x] s]|] eqn:Emk; [|discriminate]. apply masked_parts_spec in Emk. subst mk.
  destruct (lookup Target e) as [tg|]; [|discriminate].
  destruct (lookup ScalingFactor e) as [sf|]; [|discriminate]. destruct (lookup SamplingMask e) as [m'|]; [|discriminate].
  destruct (image_arg tg) as [a|] eqn:Ea; [|discriminate].
  intros H. repeat (apply andb_true_iff in H; destruct H as [H ?]).
  apply tm_eqb_eq in H. repeat match goal with Hx : tm_eqb _ _ = true |- _ => apply tm_eqb_eq in Hx end. subst.
  exists m', x, sf, tg. repeat split; try reflexivity; try assumption.
  - intros k Hk. rewrite Hk in *. match goal with Hx : tm_eqb _ _ = true |- _ => apply tm_eqb_eq in Hx; exact Hx end.
  - intros a' sm ->. destruct (lookup SensMap e) as [sm'|]; [|discriminate].
    match goal with Hx : tm_eqb sm sm' = true |- _ => apply tm_eqb_eq in Hx; subst; reflexivity end.
Qed.
