(* C05 — a disciplined routine is a function of its seed only and leaves every stream as it found it. *)
From DV Require Import Base.Tactics Base.RngIR.

Section Sem.
Variables (S V Seed : Type) (draw : S -> V * S) (reseed : Seed -> S) (derive : Seed -> Seed) (kernel : V -> list V).
Notation step := (step S V Seed draw reseed derive kernel).
Notation steps := (steps S V Seed draw reseed derive kernel).
Notation exec := (exec S V Seed draw reseed derive kernel).

Lemma steps_pure seed l : forallb is_pure l = true -> forall st, steps seed st l = st.
Proof.
  induction l as [|s t IH]; intros H st; [reflexivity|].
  cbn [forallb] in H. apply andb_true_iff in H. destruct H as [Hs Ht].
  destruct s; try discriminate. cbn [RngIR.steps fold_left RngIR.step]. apply IH. exact Ht.
Qed.

(* inside the block: the global streams are untouched, and (private stream, observed values) evolve independently of
   the global streams *)
Lemma steps_body seed l : forallb body_ok l = true -> forall p g g' sn,
  glob (steps seed {| priv := p; glob := g; seen := sn |} l) = g /\
  priv (steps seed {| priv := p; glob := g; seen := sn |} l) = priv (steps seed {| priv := p; glob := g'; seen := sn |} l) /\
  seen (steps seed {| priv := p; glob := g; seen := sn |} l) = seen (steps seed {| priv := p; glob := g'; seen := sn |} l).
Proof.
  induction l as [|s t IH]; intros H p g g' sn; [repeat split; reflexivity|].
  cbn [forallb] in H. apply andb_true_iff in H. destruct H as [Hs Ht].
  destruct s; try discriminate; cbn [RngIR.steps fold_left RngIR.step priv glob seen].
  - apply (IH Ht).
  - destruct (draw p) as [v p']. apply (IH Ht).
  - apply (IH Ht).
  - destruct (draw p) as [v p']. apply (IH Ht).
Qed.

(* the result depends on the seed only - not on the private stream, not on the global streams, hence not on any history
   of earlier calls - and every stream is left exactly as it was found *)
Theorem disciplined_history_independent (p : rprog) : disciplined p = true ->
  forall seed (st st' : rstate S V),
    seen (exec p seed st) = seen (exec p seed st') /\
    priv (exec p seed st) = priv st /\ glob (exec p seed st) = glob st.
Proof.
  intros Hd seed st st'. unfold disciplined in Hd.
  apply andb_true_iff in Hd. destruct Hd as [Hd Hpost]. apply andb_true_iff in Hd. destruct Hd as [Hpre Hbody].
  unfold RngIR.exec. rewrite !(steps_pure seed _ Hpre). cbn [priv glob seen].
  rewrite !(steps_pure seed _ Hpost). cbn [priv glob seen].
  destruct (steps_body seed _ Hbody (reseed seed) (glob st) (glob st') []) as (G1 & P1 & S1).
  repeat split; assumption.
Qed.

(* any history of earlier calls (other seeds, other routines) only changes the state we start from *)
Corollary history_irrelevant (p : rprog) : disciplined p = true ->
  forall seed (st : rstate S V) (history : list (rprog * Seed)),
    seen (exec p seed (fold_left (fun s c => exec (fst c) (snd c) s) history st)) = seen (exec p seed st).
Proof. intros Hd seed st history. apply (disciplined_history_independent p Hd). Qed.
End Sem.
