(* C03 — masking is selection: identity on the support, exactly zero elsewhere, idempotent, and blind to what lies
   off the support. *)
From DV Require Import Base.Tactics Base.ListAux Base.OpIR Model.C03.

Section Select.
Variables (V MV : Type) (zero : V) (hit : MV -> bool) (mdflt : MV).
Notation where_hit := (where_hit V MV zero hit mdflt).

Lemma where_hit_length b m t : length (where_hit b m t) = length t.
Proof. unfold C03.where_hit. rewrite map_length, combine_length, seq_length. lia. Qed.

Lemma nth_combine_seq (t : list V) i d : i < length t -> nth i (combine (seq 0 (length t)) t) (0, d) = (i, nth i t d).
Proof.
  intros H. rewrite combine_nth by (rewrite seq_length; reflexivity). rewrite seq_nth by exact H. reflexivity.
Qed.

(* element-wise: the data value where the mask does not hit, exactly [zero] where it does *)
Lemma where_hit_nth b m t i d : i < length t ->
  nth i (where_hit b m t) d = if hit (nth (b i) m mdflt) then zero else nth i t d.
Proof.
  intros H. unfold C03.where_hit.
  rewrite (nth_map' _ _ i d (0, d)) by (rewrite combine_length, seq_length; lia).
  rewrite nth_combine_seq by exact H. reflexivity.
Qed.

Lemma list_ext' (l1 l2 : list V) d : length l1 = length l2 -> (forall k, k < length l1 -> nth k l1 d = nth k l2 d) -> l1 = l2.
Proof.
  revert l2. induction l1 as [|x xs IH]; intros l2 Hl H; destruct l2 as [|y ys]; try discriminate; [reflexivity|].
  f_equal; [apply (H 0); cbn; lia|]. apply IH; [cbn in Hl; lia|]. intros k Hk. apply (H (S k)). cbn. lia.
Qed.

Lemma where_hit_idem b m t : where_hit b m (where_hit b m t) = where_hit b m t.
Proof.
  apply (list_ext' _ _ zero); [rewrite !where_hit_length; reflexivity|].
  intros k Hk. rewrite !where_hit_length in Hk.
  rewrite where_hit_nth by (rewrite where_hit_length; exact Hk). rewrite where_hit_nth by exact Hk.
  destruct (hit (nth (b k) m mdflt)); reflexivity.
Qed.

(* what lies where the mask hits cannot influence the result *)
Lemma where_hit_agree b m t t' : length t = length t' ->
  (forall i, i < length t -> hit (nth (b i) m mdflt) = false -> nth i t zero = nth i t' zero) ->
  where_hit b m t = where_hit b m t'.
Proof.
  intros Hl H. apply (list_ext' _ _ zero); [rewrite !where_hit_length; exact Hl|].
  intros k Hk. rewrite where_hit_length in Hk.
  rewrite where_hit_nth by exact Hk. rewrite where_hit_nth by (rewrite <- Hl; exact Hk).
  destruct (hit (nth (b k) m mdflt)) eqn:E; [reflexivity|]. apply H; assumption.
Qed.
End Select.

(* an operator expression whose k-space input only ever enters through where0 m k does not see unsampled k-space *)
Section NonInterference.
Variables (V MV S : Type) (zero : V) (is_zero : MV -> bool) (is_one : MV -> bool) (mdflt : MV) (b bp : nat -> nat).
Variables (F Finv : list V -> list V) (expand reduce sub add : list V -> list V -> list V)
          (scale : S -> list V -> list V) (layout : nat -> list V -> list V).

Definition ev := eval (list V) (list MV) S (where_hit V MV zero is_zero mdflt b) (where_hit V MV zero is_one mdflt bp)
                      F Finv expand reduce sub add scale layout.

Theorem masked_input_noninterference (x m : var) (e : oexp) (rt rt' : var -> list V) rm rs :
  only_masked x m e = true ->
  (forall y, y <> x -> rt y = rt' y) ->
  length (rt x) = length (rt' x) ->
  (forall i, i < length (rt x) -> is_zero (nth (b i) (rm m) mdflt) = false -> nth i (rt x) zero = nth i (rt' x) zero) ->
  ev rt rm rs e = ev rt' rm rs e.
Proof.
  intros Hg Ho Hl Hs. unfold ev. apply (eval_noninterference _ _ _ _ _ _ _ _ _ _ _ _ _ x m); try assumption.
  apply where_hit_agree; assumption.
Qed.
End NonInterference.
