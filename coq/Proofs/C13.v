(* C13 — lemmas about the sampler model (static: depends on Base and Model only). *)
From DV Require Import Base.Tactics Base.ListAux Model.C13.

(* ---------- chunks ---------- *)
Lemma chunk_si_0 len k : chunk_si len k 0 = 0.
Proof. unfold chunk_si. destruct (0 <? len mod k) eqn:E; [lia|]. apply Nat.ltb_ge in E. assert (H : len mod k = 0) by lia. rewrite H. lia. Qed.

Lemma chunk_si_step len k i : 0 < k -> i < k -> chunk_si len k (S i) = chunk_si len k i + chunk_sz len k i.
Proof.
  intros Hk Hi. unfold chunk_si, chunk_sz.
  destruct (i <? len mod k) eqn:E1; destruct (S i <? len mod k) eqn:E2; nia.
Qed.

Lemma chunk_si_end len k : 0 < k -> chunk_si len k k = len.
Proof.
  intros Hk. unfold chunk_si.
  assert (Hm : len mod k < k) by (apply Nat.mod_upper_bound; lia).
  assert (Hd : len = k * (len / k) + len mod k) by (apply Nat.div_mod; lia).
  destruct (k <? len mod k) eqn:E; [lia|]. nia.
Qed.

Lemma chunk_sz_balanced len k i j : 0 < k -> i <= j -> chunk_sz len k j <= chunk_sz len k i <= chunk_sz len k j + 1.
Proof. intros Hk Hij. unfold chunk_sz. destruct (i <? len mod k) eqn:E1; destruct (j <? len mod k) eqn:E2; lia. Qed.

Lemma chunks_length {A} (l : list A) k : length (chunks l k) = k.
Proof. unfold chunks. rewrite map_length, seq_length. reflexivity. Qed.

Lemma chunks_concat {A} (l : list A) k : 0 < k -> concat (chunks l k) = l.
Proof.
  intros Hk. unfold chunks.
  apply (concat_slices l (chunk_si (length l) k) (chunk_sz (length l) k) k).
  - apply chunk_si_0.
  - intros i Hi. apply chunk_si_step; assumption.
  - apply chunk_si_end; assumption.
Qed.

Lemma nth_error_seq a n i : i < n -> nth_error (seq a n) i = Some (a + i).
Proof. intros H. rewrite (nth_error_nth' (seq a n) 0) by (rewrite seq_length; exact H). rewrite seq_nth by exact H. reflexivity. Qed.

Lemma chunks_nth {A} (l : list A) k i : i < k ->
  nth_error (chunks l k) i = Some (slice (chunk_si (length l) k i) (chunk_sz (length l) k i) l).
Proof.
  intros Hi. unfold chunks.
  apply (map_nth_error (fun idx => slice (chunk_si (length l) k idx) (chunk_sz (length l) k idx) l)).
  apply (nth_error_seq 0 k i Hi).
Qed.

Lemma chunks_beyond {A} (l : list A) k i : k <= i -> nth_error (chunks l k) i = None.
Proof. intros H. apply nth_error_None. rewrite chunks_length. exact H. Qed.

(* ---------- volume ranges ---------- *)
Lemma ranges_concat s layout : concat (map rng (ranges_from s layout)) = seq s (fold_right Nat.add 0 layout).
Proof.
  revert s. induction layout as [|n t IH]; intros s; [reflexivity|].
  cbn [ranges_from map concat fold_right]. rewrite IH. unfold rng. cbn [fst snd].
  replace (s + n - s) with n by lia. symmetry. apply seq_app.
Qed.

Lemma ranges_firstn s layout m : firstn m (ranges_from s layout) = ranges_from s (firstn m layout).
Proof.
  revert s m. induction layout as [|n t IH]; intros s m; destruct m; try reflexivity.
  cbn [ranges_from firstn]. f_equal. apply IH.
Qed.

Definition limited (layout : list nat) (limit : nat) : list nat :=
  match limit with 0 => layout | _ => firstn limit layout end.

Lemma dss_volumes_eq layout k rank limit :
  dss_volumes layout k rank limit = nth_error (chunks (ranges_from 0 (limited layout limit)) k) rank.
Proof. unfold dss_volumes, limited. destruct limit; [reflexivity|]. rewrite ranges_firstn. reflexivity. Qed.

(* every rank < k gets a (possibly empty) run of whole volumes; ranks >= k get nothing (the Python code raises) *)
Lemma dss_some layout k rank limit : rank < k -> exists vs, dss_volumes layout k rank limit = Some vs.
Proof. intros H. rewrite dss_volumes_eq. rewrite chunks_nth by exact H. eexists; reflexivity. Qed.

Definition dss_all (layout : list nat) (k limit : nat) : list (list (nat * nat)) :=
  chunks (ranges_from 0 (limited layout limit)) k.

Lemma dss_all_nth layout k rank limit : dss_volumes layout k rank limit = nth_error (dss_all layout k limit) rank.
Proof. apply dss_volumes_eq. Qed.

(* the ranks together are assigned every volume exactly once, in order *)
Lemma dss_volumes_partition layout k limit : 0 < k ->
  concat (dss_all layout k limit) = ranges_from 0 (limited layout limit).
Proof. intros Hk. apply chunks_concat. exact Hk. Qed.

(* ... hence every index exactly once, in increasing order *)
Lemma dss_cover layout k limit : 0 < k ->
  concat (map (fun vs => concat (map rng vs)) (dss_all layout k limit))
  = seq 0 (fold_right Nat.add 0 (limited layout limit)).
Proof.
  intros Hk. rewrite <- ranges_concat. rewrite <- (dss_volumes_partition layout k limit Hk).
  rewrite concat_map, concat_concat, map_map. reflexivity.
Qed.

(* ---------- BatchVolumeSampler ---------- *)
Lemma chunk_list_cons {A} bs (x : A) xs : 0 < bs ->
  chunk_list bs (x :: xs) = firstn bs (x :: xs) :: chunk_list bs (skipn bs (x :: xs)).
Proof.
  intros Hbs. unfold chunk_list. cbn [length chunk_fuel]. f_equal.
  apply chunk_fuel_more; try exact Hbs; rewrite skipn_length; cbn [length]; lia.
Qed.

Lemma chunk_list_small {A} bs (l : list A) : 0 < bs -> l <> [] -> length l <= bs -> chunk_list bs l = [l].
Proof.
  intros Hbs Hne Hl. destruct l as [|x xs]; [congruence|].
  rewrite chunk_list_cons by exact Hbs. rewrite firstn_all2 by exact Hl. rewrite skipn_all2 by exact Hl. reflexivity.
Qed.

Definition next_nv (nv : nat) (rest : list nat) : nat := match rest with [] => nv | r :: _ => r end.

(* one volume: indices a .. a+n-1 with end-of-volume marker a+n, entered with a partial batch *)
Lemma bvs_go_volume bs : 0 < bs -> forall n a batch more rest,
  0 < n -> length batch < bs ->
  bvs_go bs (seq a n ++ more) batch (a + n) rest
  = chunk_list bs (batch ++ seq a n) ++ bvs_go bs more [] (next_nv (a + n) rest) (tl rest).
Proof.
  intros Hbs. induction n as [|n IH]; intros a batch more rest Hn Hb; [lia|].
  destruct n as [|m].
  - (* last index of the volume *)
    cbn [seq app bvs_go].
    replace (S a =? a + 1) with true by (symmetry; apply Nat.eqb_eq; lia).
    rewrite orb_true_r.
    rewrite chunk_list_small; try exact Hbs.
    + cbn [app]. unfold next_nv. destruct rest; reflexivity.
    + destruct batch; discriminate.
    + rewrite app_length. cbn [length]. lia.
  - (* an inner index *)
    change (seq a (S (S m))) with (a :: seq (S a) (S m)).
    cbn [app bvs_go].
    replace (S a =? a + S (S m)) with false by (symmetry; apply Nat.eqb_neq; lia).
    rewrite orb_false_r.
    replace (a + S (S m)) with (S a + S m) by lia.
    destruct (length (batch ++ [a]) =? bs) eqn:E.
    + apply Nat.eqb_eq in E.
      rewrite (IH (S a) [] more rest) by (cbn [length]; lia). cbn [app].
      replace (batch ++ a :: seq (S a) (S m)) with ((batch ++ [a]) ++ seq (S a) (S m)) by (rewrite <- app_assoc; reflexivity).
      assert (Hne : exists y ys, (batch ++ [a]) ++ seq (S a) (S m) = y :: ys).
      { destruct batch; cbn; eauto. }
      destruct Hne as (y & ys & Hy). rewrite Hy. rewrite chunk_list_cons by exact Hbs. rewrite <- Hy.
      rewrite <- E. rewrite firstn_app, Nat.sub_diag, firstn_all. cbn [firstn]. rewrite app_nil_r.
      rewrite skipn_app, Nat.sub_diag, skipn_all. cbn [skipn app]. reflexivity.
    + apply Nat.eqb_neq in E.
      rewrite (IH (S a) (batch ++ [a]) more rest).
      * rewrite <- app_assoc. reflexivity.
      * lia.
      * rewrite app_length in *. cbn [length] in *. lia.
Qed.

Definition nonempty_vol (v : nat * nat) : Prop := fst v < snd v.

Definition bvs_run (vols : list (nat * nat)) (bs : nat) : list (list nat) :=
  match vols with
  | [] => []
  | v :: vs => bvs_go bs (concat (map rng (v :: vs))) [] (snd v) (map snd vs)
  end.

Lemma bvs_run_spec bs vols : 0 < bs -> Forall nonempty_vol vols ->
  bvs_run vols bs = concat (map (fun v => chunk_list bs (rng v)) vols).
Proof.
  intros Hbs Hne. destruct vols as [|v vs]; [reflexivity|].
  unfold bvs_run.
  revert v Hne. induction vs as [|w ws IH]; intros v Hne.
  - inversion Hne as [|? ? Hv _]; subst. unfold nonempty_vol in Hv.
    cbn [map concat]. rewrite app_nil_r. unfold rng at 1.
    replace (snd v) with (fst v + (snd v - fst v)) at 2 by lia.
    rewrite <- (app_nil_r (seq (fst v) (snd v - fst v))) at 1.
    rewrite bvs_go_volume by (try exact Hbs; cbn [length]; lia).
    cbn [app bvs_go]. unfold rng. reflexivity.
  - inversion Hne as [|? ? Hv Hrest]; subst. unfold nonempty_vol in Hv.
    cbn [map concat]. unfold rng at 1.
    replace (snd v) with (fst v + (snd v - fst v)) at 2 by lia.
    rewrite bvs_go_volume by (try exact Hbs; cbn [length]; lia).
    cbn [app next_nv tl]. f_equal.
    specialize (IH w Hrest). cbn [map concat] in IH. exact IH.
Qed.

(* what a batch is: a run of consecutive indices inside one volume, of length 1..bs *)
Definition batch_ok (bs : nat) (v : nat * nat) (b : list nat) : Prop :=
  exists a n, b = seq a n /\ 0 < n <= bs /\ fst v <= a /\ a + n <= snd v.

Lemma chunk_fuel_seq_ok fuel bs v : 0 < bs -> forall a n, fst v <= a -> a + n <= snd v -> n <= fuel ->
  Forall (batch_ok bs v) (chunk_fuel fuel bs (seq a n)).
Proof.
  intros Hbs. induction fuel as [|f IH]; intros a n Ha Hn Hf; [constructor|].
  destruct n as [|m]; [constructor|].
  cbn [chunk_fuel]. change (a :: seq (S a) m) with (seq a (S m)).
  constructor.
  - exists a, (Nat.min bs (S m)). split; [|lia].
    rewrite firstn_seq. reflexivity.
  - rewrite skipn_seq. destruct (Nat.le_gt_cases (S m) bs) as [Hle|Hgt].
    + replace (S m - bs) with 0 by lia. cbn [seq]. destruct f; constructor.
    + apply IH; lia.
Qed.

Theorem bvs_batches_single_volume bs vols : 0 < bs -> Forall nonempty_vol vols ->
  exists parts : list (list (list nat)),
    bvs_run vols bs = concat parts /\ length parts = length vols /\
    (forall i v p, nth_error vols i = Some v -> nth_error parts i = Some p ->
        concat p = rng v /\ Forall (batch_ok bs v) p).
Proof.
  intros Hbs Hne. exists (map (fun v => chunk_list bs (rng v)) vols).
  split; [apply bvs_run_spec; assumption|]. split; [apply map_length|].
  intros i v p Hv Hp. rewrite (map_nth_error _ _ _ Hv) in Hp. inversion Hp; subst p.
  split; [apply chunk_list_concat; exact Hbs|].
  unfold chunk_list, rng. rewrite seq_length. apply chunk_fuel_seq_ok; try exact Hbs; try lia.
  rewrite Forall_forall in Hne. apply nth_error_In in Hv. apply Hne in Hv. unfold nonempty_vol in Hv. lia.
Qed.

(* number of batches = reported length *)
Lemma chunk_fuel_count {A} fuel bs (l : list A) : 0 < bs -> length l <= fuel ->
  length (chunk_fuel fuel bs l) = ceil_div (length l) bs.
Proof.
  intros Hbs. revert l. induction fuel as [|f IH]; intros l Hl.
  - destruct l; [|cbn in Hl; lia]. cbn. unfold ceil_div. cbn [length]. symmetry. apply Nat.div_small. lia.
  - destruct l as [|x xs].
    + cbn. unfold ceil_div. cbn [length]. symmetry. apply Nat.div_small. lia.
    + cbn [chunk_fuel length]. rewrite IH by (rewrite skipn_length; cbn [length] in *; lia).
      rewrite skipn_length. cbn [length]. unfold ceil_div.
      destruct (Nat.le_gt_cases bs (S (length xs))) as [H|H].
      * replace (S (length xs) + bs - 1) with ((S (length xs) - bs + bs - 1) + 1 * bs) by lia.
        rewrite Nat.div_add by lia. lia.
      * replace (S (length xs) - bs) with 0 by lia. cbn [Nat.add].
        rewrite (Nat.div_small (bs - 1) bs) by lia.
        apply (Nat.div_unique _ bs 1 (length xs)); lia.
Qed.

Theorem bvs_len bs vols : 0 < bs -> Forall nonempty_vol vols ->
  length (bvs_run vols bs) = bvs_num (bvs_init vols bs).
Proof.
  intros Hbs Hne. rewrite bvs_run_spec by assumption. unfold bvs_init. cbn [bvs_num].
  clear Hne. induction vols as [|v vs IH]; [reflexivity|].
  cbn [map concat fold_right]. rewrite app_length, IH. f_equal.
  unfold chunk_list. rewrite chunk_fuel_count by (try exact Hbs; lia).
  unfold rng. rewrite seq_length. reflexivity.
Qed.

(* iterating leaves the object unchanged, hence every iteration yields the same batches *)
Lemma bvs_iter_state b idxs out b' : bvs_iter b idxs = Some (out, b') -> b' = b.
Proof. unfold bvs_iter. destruct (bvs_eov b); destruct idxs; intros H; inversion H; reflexivity. Qed.

Theorem bvs_reiterate n b idxs out : bvs_iter b idxs = Some (out, b) ->
  bvs_iter_n n b idxs = Some (repeat out n).
Proof. intros H. induction n as [|n IH]; [reflexivity|]. cbn [bvs_iter_n repeat]. rewrite H, IH. reflexivity. Qed.

Lemma bvs_iter_run vols bs : bvs_iter (bvs_init vols bs) (concat (map rng vols)) = Some (bvs_run vols bs, bvs_init vols bs).
Proof. destruct vols as [|v vs]; reflexivity. Qed.

Lemma ranges_nonempty ly : Forall (fun n => 1 <= n) ly -> forall s, Forall nonempty_vol (ranges_from s ly).
Proof.
  induction ly as [|n t IHt]; intros Hl s; [constructor|].
  inversion Hl as [|? ? Hn Ht]; subst. cbn [ranges_from]. constructor; [unfold nonempty_vol; cbn [fst snd]; lia| apply IHt; exact Ht].
Qed.

(* the full evaluation path: for every layout, world size, rank, limit, batch size and iteration count *)
Theorem eval_batches_spec layout k rank limit bs iters : rank < k -> 0 < bs -> Forall (fun n => 1 <= n) layout ->
  exists vols, nth_error (dss_all layout k limit) rank = Some vols /\
    eval_batches layout k rank limit bs iters
    = Some (repeat (concat (map (fun v => chunk_list bs (rng v)) vols)) iters,
            length (concat (map (fun v => chunk_list bs (rng v)) vols))).
Proof.
  intros Hr Hbs Hpos. destruct (dss_some layout k rank limit Hr) as (vols & Hv).
  exists vols. split; [rewrite <- dss_all_nth; exact Hv|].
  assert (Hne : Forall nonempty_vol vols).
  { rewrite dss_volumes_eq in Hv. rewrite chunks_nth in Hv by exact Hr. inversion Hv as [Hs]. clear Hv.
    assert (Hall : Forall nonempty_vol (ranges_from 0 (limited layout limit))).
    { assert (Hl : Forall (fun n => 1 <= n) (limited layout limit)).
      { unfold limited. destruct limit; [exact Hpos|]. rewrite Forall_forall in *. intros x Hx. apply Hpos. eapply In_firstn; exact Hx. }
      apply ranges_nonempty. exact Hl. }
    unfold slice. rewrite Forall_forall in *. intros x Hx. apply Hall.
    apply In_firstn in Hx. apply In_skipn in Hx. exact Hx. }
  unfold eval_batches. rewrite Hv.
  rewrite (bvs_reiterate iters _ _ _ (bvs_iter_run vols bs)). cbn [option_map].
  rewrite <- bvs_len by assumption. rewrite bvs_run_spec by assumption. reflexivity.
Qed.
