(* C01 — algebra of the discrete Fourier transform over any field with a primitive n-th root of unity
   (MathComp / ssreflect file).  Instantiated in algC, where such a root exists for every n > 0. *)
Set Warnings "-notation-overridden,-ambiguous-paths,-projection-no-head-constant,-redundant-canonical-projection".
From mathcomp Require Import all_ssreflect all_algebra all_field.
Set Implicit Arguments.
Unset Strict Implicit.
Unset Printing Implicit Defensive.
Import GRing.Theory Num.Theory.
Local Open Scope ring_scope.

Section DFT.
Variables (F : fieldType) (n : nat) (w : F).
Hypothesis wprim : n.-primitive_root w.

Let n_gt0 : (0 < n)%N. Proof. exact: prim_order_gt0 wprim. Qed.
Let wn1 : w ^+ n = 1. Proof. exact: prim_expr_order wprim. Qed.
Let wunit : w != 0.
Proof. by apply/eqP=> w0; move: wn1; rewrite w0 expr0n (gtn_eqF n_gt0) => /eqP; rewrite eq_sym oner_eq0. Qed.

Definition dft (x : 'I_n -> F) (k : 'I_n) : F := \sum_(j < n) x j * w ^+ (j * k).
Definition idft (X : 'I_n -> F) (j : 'I_n) : F := n%:R^-1 * \sum_(k < n) X k * (w^-1) ^+ (j * k).

(* geometric sum of an n-th root of unity *)
Lemma geom_root (z : F) : z ^+ n = 1 -> \sum_(i < n) z ^+ i = if z == 1 then n%:R else 0.
Proof.
move=> zn1; case: eqP => [->|/eqP zneq1].
  by rewrite (eq_bigr (fun=> 1)) ?sumr_const ?card_ord // => i _; rewrite expr1n.
have := subrX1 z n; rewrite zn1 subrr => /esym/eqP.
by rewrite mulf_eq0 subr_eq0 (negbTE zneq1) /= => /eqP.
Qed.

Lemma wpow_eq1 (i j : 'I_n) : (w ^+ i * (w^-1) ^+ j == 1) = (i == j).
Proof.
rewrite exprVn -(inj_eq (mulIf (expf_neq0 j wunit))) mulfVK ?expf_neq0 // mul1r.
by rewrite (eq_prim_root_expr wprim) !modn_small.
Qed.

(* orthogonality of the characters *)
Lemma dft_orthogonality (i j : 'I_n) :
  \sum_(k < n) w ^+ (i * k) * (w^-1) ^+ (j * k) = if i == j then n%:R else 0.
Proof.
rewrite -wpow_eq1 -geom_root; last first.
  by rewrite exprMn -!exprM ![(_ * n)%N]mulnC !exprM exprVn wn1 invr1 !expr1n mulr1.
by apply: eq_bigr => k _; rewrite exprMn -!exprM.
Qed.

Hypothesis n_unit : n%:R != 0 :> F.

(* the backward transform undoes the forward transform, and conversely *)
Theorem idft_dft (x : 'I_n -> F) (j : 'I_n) : idft (dft x) j = x j.
Proof.
rewrite /idft /dft.
under eq_bigr => k _ do rewrite mulr_suml.
rewrite exchange_big /=.
under eq_bigr => i _.
  under eq_bigr => k _ do rewrite -mulrA.
  rewrite -mulr_sumr dft_orthogonality.
  over.
rewrite (bigD1 j) //= eqxx big1 ?addr0; last by move=> i /negbTE; rewrite eq_sym => ->; rewrite mulr0.
by rewrite mulrCA mulVf // mulr1.
Qed.

Theorem dft_idft (X : 'I_n -> F) (k : 'I_n) : dft (idft X) k = X k.
Proof.
rewrite /idft /dft.
under eq_bigr => j _ do rewrite -mulrA mulr_suml.
rewrite -mulr_sumr exchange_big /=.
under eq_bigr => i _.
  under eq_bigr => j _ do rewrite -mulrA [(w^-1) ^+ _ * _]mulrC.
  rewrite -mulr_sumr.
  under eq_bigr => j _ do rewrite [(j * k)%N]mulnC [(j * i)%N]mulnC.
  rewrite dft_orthogonality.
  over.
rewrite (bigD1 k) //= eqxx big1 ?addr0; last by move=> i /negbTE; rewrite eq_sym => ->; rewrite mulr0.
by rewrite mulrCA mulVf // mulr1.
Qed.

(* linearity *)
Lemma dft_linear (a : F) (x y : 'I_n -> F) (k : 'I_n) :
  dft (fun j => a * x j + y j) k = a * dft x k + dft y k.
Proof.
rewrite /dft mulr_sumr -big_split /=; apply: eq_bigr => j _.
by rewrite mulrDl mulrA.
Qed.
End DFT.

(* non-vacuity: in the algebraic numbers every length has a primitive root, and n is invertible *)
Lemma dft_algC_inverse (n : nat) : (0 < n)%N ->
  exists w : algC, n.-primitive_root w /\
    (forall (x : 'I_n -> algC) j, idft w (dft w x) j = x j) /\ (forall (X : 'I_n -> algC) k, dft w (idft w X) k = X k).
Proof.
move=> n_gt0; have [w wprim] := C_prim_root_exists n_gt0.
exists w; split=> //; split=> [x j|X k].
  by apply: idft_dft => //; rewrite pnatr_eq0 -lt0n.
by apply: dft_idft => //; rewrite pnatr_eq0 -lt0n.
Qed.

(* energy: over a closed field with conjugation (e.g. algC) the transform multiplies the energy by n, so the
   "ortho" normalisation (division by sqrt n in both directions) preserves it *)
Section Parseval.
Variables (C : numClosedFieldType) (n : nat) (w : C).
Hypothesis wprim : n.-primitive_root w.

Let n_gt0 : (0 < n)%N. Proof. exact: prim_order_gt0 wprim. Qed.
Let wn1 : w ^+ n = 1. Proof. exact: prim_expr_order wprim. Qed.

Lemma conj_root : w^* = w^-1.
Proof.
have nw1 : `|w| = 1.
  by apply/eqP; rewrite -(@pexpr_eq1 _ _ n) // -normrX wn1 normr1.
by rewrite invC_norm nw1 expr1n invr1 mul1r.
Qed.

Theorem parseval (x : 'I_n -> C) :
  \sum_(k < n) dft w x k * (dft w x k)^* = n%:R * \sum_(j < n) x j * (x j)^*.
Proof.
rewrite /dft.
under eq_bigr => k _.
  rewrite rmorph_sum /= mulr_suml.
  under eq_bigr => j _.
    rewrite mulr_sumr.
    under eq_bigr => i _ do rewrite rmorphM rmorphX /= conj_root mulrACA.
    over.
  over.
rewrite exchange_big /=.
under eq_bigr => j _ do rewrite exchange_big /=.
rewrite mulr_sumr; apply: eq_bigr => j _.
under eq_bigr => i _ do rewrite -mulr_sumr (dft_orthogonality wprim).
rewrite (bigD1 j) //= eqxx big1 ?addr0; last by move=> i /negbTE; rewrite eq_sym => ->; rewrite mulr0.
by rewrite [LHS]mulrC.
Qed.
End Parseval.

Lemma parseval_algC (n : nat) : (0 < n)%N ->
  exists w : algC, n.-primitive_root w /\
    forall x : 'I_n -> algC, \sum_(k < n) dft w x k * (dft w x k)^* = n%:R * \sum_(j < n) x j * (x j)^*.
Proof.
move=> n_gt0; have [w wprim] := C_prim_root_exists n_gt0.
by exists w; split=> // x; apply: parseval.
Qed.

(* the centred transform fftshift o dft o ifftshift is the textbook shifted DFT with the origin at c = n %/ 2:
   X_c[k] = sum_m x[m] w^((m - c)(k - c)), exponents taken modulo n (written with m + (n - c) for m - c) *)
Section Centred.
Variables (F : fieldType) (n : nat) (w : F).
Hypothesis wprim : n.-primitive_root w.
Let n_gt0 : (0 < n)%N. Proof. exact: prim_order_gt0 wprim. Qed.
Let wn1 : w ^+ n = 1. Proof. exact: prim_expr_order wprim. Qed.

Definition rotI (s : nat) (j : 'I_n) : 'I_n := Ordinal (ltn_pmod (j + s) n_gt0).

(* ifftshift: y[j] = x[(j + c) mod n];  fftshift: Z[k] = Y[(k + (n - c)) mod n]  (see Base/Rot.v: rotr by (n+1)/2 and n/2) *)
Definition centred_dft (c : nat) (x : 'I_n -> F) (k : 'I_n) : F :=
  dft w (fun j => x (rotI c j)) (rotI (n - c) k).
Definition textbook_cdft (c : nat) (x : 'I_n -> F) (k : 'I_n) : F :=
  \sum_(m < n) x m * w ^+ ((m + (n - c)) * (k + (n - c))).

Lemma wexp_mod (e : nat) : w ^+ (e %% n) = w ^+ e.
Proof. by rewrite {2}(divn_eq e n) exprD mulnC exprM wn1 expr1n mul1r. Qed.

Lemma rotI_inv (c : nat) : (c <= n)%N -> cancel (rotI c) (rotI (n - c)).
Proof.
move=> cn j; apply: val_inj => /=.
by rewrite modnDml -addnA subnKC // modnDr modn_small.
Qed.

Lemma rotI_inv' (c : nat) : (c <= n)%N -> cancel (rotI (n - c)) (rotI c).
Proof.
move=> cn j; apply: val_inj => /=.
by rewrite modnDml -addnA subnK // modnDr modn_small.
Qed.

Theorem centred_dft_is_textbook (c : nat) (x : 'I_n -> F) (k : 'I_n) : (c <= n)%N ->
  centred_dft c x k = textbook_cdft c x k.
Proof.
move=> cn; rewrite /centred_dft /textbook_cdft /dft.
rewrite (reindex (rotI (n - c))) /=; last first.
  by exists (rotI c) => j _; [apply: rotI_inv' | apply: rotI_inv].
apply: eq_bigr => m _; rewrite rotI_inv' //; congr (_ * _).
rewrite -wexp_mod -[RHS]wexp_mod; congr (_ ^+ _).
by rewrite modnMml modnMmr.
Qed.
End Centred.
