(* C09 — after normalisation the sum over coils of squared magnitudes is 1, or exactly 0 where there is no signal. *)
From Coq Require Import Reals List Lra.
From DV Require Import Model.C09.
Import ListNotations.
Local Open Scope R_scope.

Lemma sumsq_cons a t : sumsq (a :: t) = fst a * fst a + snd a * snd a + sumsq t.
Proof. reflexivity. Qed.

Lemma sumsq_nonneg l : 0 <= sumsq l.
Proof. induction l as [|a t IH]; [cbn; lra|]. rewrite sumsq_cons. nra. Qed.

Lemma sumsq_zero_all l : sumsq l = 0 -> forall a, In a l -> a = (0, 0).
Proof.
  induction l as [|b t IH]; intros H a Hin; [contradiction|].
  rewrite sumsq_cons in H. pose proof (sumsq_nonneg t) as Ht.
  assert (Hb : fst b * fst b + snd b * snd b = 0) by nra.
  assert (Ht0 : sumsq t = 0) by nra.
  destruct Hin as [<-|Hin]; [|apply IH; assumption].
  destruct b as [x y]. cbn in Hb. assert (x = 0) by nra. assert (y = 0) by nra. subst. reflexivity.
Qed.

Lemma sumsq_map_div l n : n <> 0 -> sumsq (map (fun a => (fst a / n, snd a / n)) l) = sumsq l / (n * n).
Proof.
  intros Hn. induction l as [|a t IH]; cbn [map].
  - cbn. field. exact Hn.
  - rewrite !sumsq_cons. cbn [fst snd]. rewrite IH. field. exact Hn.
Qed.

(* where there is signal the normalised values have unit sum of squares; where there is none they are exactly zero
   (no division by zero is ever used: safe_divide) *)
Theorem normalise_sum l :
  (sumsq l <> 0 -> sumsq (normalise l) = 1) /\ (sumsq l = 0 -> forall a, In a (normalise l) -> a = (0, 0)).
Proof.
  split.
  - intros Hne. unfold normalise.
    assert (Hs : sqrt (sumsq l) <> 0).
    { intros E. apply sqrt_eq_0 in E; [contradiction|apply sumsq_nonneg]. }
    assert (E : map (fun a => (sdiv (fst a) (sqrt (sumsq l)), sdiv (snd a) (sqrt (sumsq l)))) l
                = map (fun a => (fst a / sqrt (sumsq l), snd a / sqrt (sumsq l))) l).
    { apply map_ext. intros a. unfold sdiv. destruct (Req_EM_T (sqrt (sumsq l)) 0); [contradiction|reflexivity]. }
    rewrite E, sumsq_map_div by exact Hs. rewrite sqrt_sqrt by apply sumsq_nonneg. field. exact Hne.
  - intros Hz a Hin. unfold normalise in Hin. rewrite Hz, sqrt_0 in Hin.
    apply in_map_iff in Hin. destruct Hin as (b & <- & _). unfold sdiv.
    destruct (Req_EM_T 0 0) as [_|C]; [reflexivity|contradiction C; reflexivity].
Qed.

Corollary normalise_sum_zero_or_one l : sumsq (normalise l) = 1 \/ sumsq (normalise l) = 0.
Proof.
  destruct (Req_EM_T (sumsq l) 0) as [Hz|Hne].
  - right. pose proof (proj2 (normalise_sum l) Hz) as H.
    assert (G : forall m, (forall a, In a m -> a = (0, 0)) -> sumsq m = 0).
    { induction m as [|b t IHm]; intros Hm; [reflexivity|]. rewrite sumsq_cons. rewrite (Hm b (or_introl eq_refl)). cbn [fst snd].
      rewrite IHm; [lra|]. intros a Ha. apply Hm. right. exact Ha. }
    apply G. exact H.
  - left. apply normalise_sum. exact Hne.
Qed.

(* renormalising an already normalised map changes nothing *)
Theorem normalise_idempotent l : normalise (normalise l) = normalise l.
Proof.
  destruct (normalise_sum_zero_or_one l) as [H1|H0].
  - unfold normalise at 1. rewrite H1, sqrt_1.
    rewrite <- (map_id (normalise l)) at 2. apply map_ext. intros [x y]. unfold sdiv. cbn [fst snd].
    destruct (Req_EM_T 1 0); [lra|]. f_equal; field.
  - unfold normalise at 1. rewrite H0, sqrt_0.
    assert (Hall : forall a, In a (normalise l) -> a = (0, 0)).
    { destruct (Req_EM_T (sumsq l) 0) as [Hz|Hne]; [apply normalise_sum; exact Hz|].
      pose proof (proj1 (normalise_sum l) Hne). lra. }
    rewrite <- (map_id (normalise l)) at 2. apply map_ext_in. intros a Ha. rewrite (Hall a Ha). unfold sdiv. cbn [fst snd].
    destruct (Req_EM_T 0 0) as [_|C]; [reflexivity|contradiction C; reflexivity].
Qed.

Lemma normalise_length l : length (normalise l) = length l.
Proof. unfold normalise. apply map_length. Qed.
