(* C10 — lemmas about the crop / pad model. *)
From DV Require Import Base.Tactics Base.NList Model.C10.

Section OneAxis.
Context {A : Type}.

Lemma window_pad1 b a (v : A) l : window b (length l) (pad1 b a v l) = l.
Proof.
  unfold window, pad1. rewrite skipn_app, repeat_length, Nat.sub_diag. cbn [skipn].
  rewrite (skipn_all2 (repeat v b)) by (rewrite repeat_length; lia). cbn [app].
  rewrite firstn_app, Nat.sub_diag. cbn [firstn]. rewrite firstn_all, app_nil_r. reflexivity.
Qed.

Lemma window_length lo m (l : list A) : lo + m <= length l -> length (window lo m l) = m.
Proof. intros H. unfold window. rewrite firstn_length, skipn_length. lia. Qed.

Lemma window_nth lo m (l : list A) k d : k < m -> nth k (window lo m l) d = nth (lo + k) l d.
Proof.
  intros Hk. unfold window. revert lo l. induction k as [|k IH] in m, Hk |- *; intros lo l.
  - destruct m; [lia|]. rewrite Nat.add_0_r. revert l. induction lo as [|lo IHlo]; intros l.
    + destruct l; reflexivity.
    + destruct l; [reflexivity|]. cbn [skipn nth]. apply IHlo.
  - destruct m; [lia|]. 
    assert (G : forall lo (l : list A), nth (S k) (firstn (S m) (skipn lo l)) d = nth k (firstn m (skipn (S lo) l)) d).
    { clear. intros lo l. revert l. induction lo as [|lo IHlo]; intros l.
      - destruct l; [destruct k, m; reflexivity|]. reflexivity.
      - destruct l; [destruct k, m; reflexivity|]. cbn [skipn]. apply IHlo. }
    rewrite G. rewrite IH by lia. f_equal. lia.
Qed.

(* the centre window of pad-by-(b, a) is the original data *)
Lemma pad1_length b a (v : A) l : length (pad1 b a v l) = b + length l + a.
Proof. unfold pad1. rewrite !app_length, !repeat_length. lia. Qed.

(* crop_to_bbox along one axis *)
Lemma crop1_length c s (v : A) l : (0 <= s)%Z -> length (crop1 c s v l) = Z.to_nat s.
Proof.
  intros Hs. unfold crop1, clip. cbv zeta. rewrite !app_length, !repeat_length, firstn_length, skipn_length. lia.
Qed.

Lemma nth_repeat_lt (v d : A) n k : k < n -> nth k (repeat v n) d = v.
Proof. revert k. induction n as [|n IH]; intros k H; [lia|]. destruct k; [reflexivity|]. cbn. apply IH. lia. Qed.

Lemma crop1_nth c s (v : A) l k : (0 <= k < s)%Z ->
  nth (Z.to_nat k) (crop1 c s v l) v =
  if ((0 <=? c + k) && (c + k <? Z.of_nat (length l)))%Z then nth (Z.to_nat (c + k)) l v else v.
Proof.
  intros Hk. unfold crop1, clip.
  set (n := Z.of_nat (length l)).
  set (a := Z.max 0 (Z.min c n)). set (b := Z.max 0 (Z.min (c + s) n)).
  set (before := Z.max 0 (Z.min (a - c) s)).
  assert (Hn : (0 <= n)%Z) by (unfold n; lia).
  destruct (Z.ltb_spec k before) as [Hlt|Hge].
  - (* in the leading pad *)
    rewrite app_nth1 by (rewrite repeat_length; lia).
    rewrite nth_repeat_lt by lia.
    replace ((0 <=? c + k) && (c + k <? n))%Z with false; [reflexivity|].
    symmetry. apply andb_false_iff. unfold before, a in *. lia.
  - rewrite app_nth2 by (rewrite repeat_length; lia). rewrite repeat_length.
    destruct (Z.ltb_spec (k - before) (b - a)) as [Hin|Hout].
    + (* inside the copied region *)
      rewrite app_nth1 by (rewrite firstn_length, skipn_length; unfold before, a, b, n in *; lia).
      replace (Z.to_nat k - Z.to_nat before) with (Z.to_nat (k - before)) by lia.
      change (firstn (Z.to_nat (b - a)) (skipn (Z.to_nat a) l)) with (window (Z.to_nat a) (Z.to_nat (b - a)) l).
      rewrite window_nth by lia.
      replace ((0 <=? c + k) && (c + k <? n))%Z with true by (symmetry; apply andb_true_iff; unfold before, a, b in *; lia).
      f_equal. unfold before, a, b in *. lia.
    + (* in the trailing pad *)
      rewrite app_nth2 by (rewrite firstn_length, skipn_length; unfold before, a, b, n in *; lia).
      rewrite nth_repeat_lt by (rewrite firstn_length, skipn_length; unfold before, a, b, n in *; lia).
      replace ((0 <=? c + k) && (c + k <? n))%Z with false; [reflexivity|].
      symmetry. apply andb_false_iff. unfold before, a, b in *. lia.
Qed.

(* a box inside the data is the plain window (what complex_center_crop relies on) *)
Lemma crop1_inside c s (v : A) l : (0 <= c)%Z -> (0 <= s)%Z -> (c + s <= Z.of_nat (length l))%Z ->
  crop1 c s v l = window (Z.to_nat c) (Z.to_nat s) l.
Proof.
  intros Hc Hs Hn. unfold crop1, clip, window.
  replace (Z.max 0 (Z.min c (Z.of_nat (length l)))) with c by lia.
  replace (Z.max 0 (Z.min (c + s) (Z.of_nat (length l)))) with (c + s)%Z by lia.
  replace (Z.max 0 (Z.min (c - c) s)) with 0%Z by lia.
  replace (c + s - c)%Z with s by lia. replace (s - 0 - s)%Z with 0%Z by lia.
  cbn [Z.to_nat repeat app]. rewrite app_nil_r. reflexivity.
Qed.
End OneAxis.

(* N-d: centre window of the padded tensor is the tensor, for every rank, shape and pad amounts *)
Lemma map_repeat' {A B} (f : A -> B) x n : map f (repeat x n) = repeat (f x) n.
Proof. induction n as [|n IH]; [reflexivity|]. cbn. rewrite IH. reflexivity. Qed.

Lemma map_pad1 {A B} (f : A -> B) b a v l : map f (pad1 b a v l) = pad1 b a (f v) (map f l).
Proof. unfold pad1. rewrite !map_app, !map_repeat'. reflexivity. Qed.

Theorem window_nd_pad_nd {A} r : forall (ps : list (nat * nat)) (sizes : list nat) (v : A) (t : nl r A),
  rect r sizes t -> window_nd r (map fst ps) sizes (pad_nd r ps v t) = t.
Proof.
  induction r as [|r IH]; intros ps sizes v t Hr; [reflexivity|].
  cbn [rect] in Hr. destruct sizes as [|n ss]; [contradiction|]. destruct Hr as [Hl Hf].
  cbn [window_nd pad_nd hd tl].
  rewrite map_pad1. rewrite map_map.
  replace (hd 0 (map fst ps)) with (fst (hd (0, 0) ps)) by (destruct ps; reflexivity).
  replace (tl (map fst ps)) with (map fst (tl ps)) by (destruct ps; reflexivity).
  assert (E : map (fun x => window_nd r (map fst (tl ps)) ss (pad_nd r (tl ps) v x)) t = t).
  { rewrite <- (map_id t) at 2. apply map_ext_in. intros x Hx. apply IH.
    rewrite Forall_forall in Hf. apply Hf. exact Hx. }
  rewrite E. rewrite <- Hl. apply window_pad1.
Qed.

(* ... and the padded tensor has the padded shape *)
Lemma pad_nd_length {A} r ps (v : A) (t : nl (S r) A) :
  length (pad_nd (S r) ps v t) = fst (hd (0, 0) ps) + length t + snd (hd (0, 0) ps).
Proof. cbn [pad_nd]. rewrite pad1_length, map_length. reflexivity. Qed.
