(* C01 — spectrum shifts are mutual inverses for every rank, shape (odd / even / 1) and axis list. *)
From DV Require Import Base.Tactics Base.Rot Model.C01.

Lemma upd_length idx d v : d < length idx -> length (upd idx d v) = length idx.
Proof. intros H. unfold upd. rewrite app_length, firstn_length. cbn [length]. rewrite skipn_length. lia. Qed.

Lemma upd_same idx d v : d < length idx -> nth d (upd idx d v) 0 = v.
Proof.
  intros H. unfold upd. rewrite app_nth2 by (rewrite firstn_length; lia).
  rewrite firstn_length. replace (d - Nat.min d (length idx)) with 0 by lia. reflexivity.
Qed.

Lemma upd_other idx d e v : d < length idx -> e <> d -> nth e (upd idx d v) 0 = nth e idx 0.
Proof.
  intros H Hne. unfold upd. destruct (Nat.lt_ge_cases e d) as [Hlt|Hge].
  - rewrite app_nth1 by (rewrite firstn_length; lia). apply nth_firstn. exact Hlt.
  - rewrite app_nth2 by (rewrite firstn_length; lia). rewrite firstn_length.
    replace (e - Nat.min d (length idx)) with (S (e - S d)) by lia. cbn [nth].
    rewrite nth_skipn. f_equal. lia.
Qed.

Lemma ridx_zero n k : k < n -> ridx 0 n k = k.
Proof.
  intros H. unfold ridx. rewrite Nat.mod_0_l by lia. rewrite Nat.sub_0_r.
  replace (k + n) with (k + 1 * n) by lia. rewrite Nat.mod_add by lia. apply Nat.mod_small. exact H.
Qed.

Lemma ridx_multiple c n k : k < n -> ridx (c * n) n k = k.
Proof.
  intros H. unfold ridx. rewrite Nat.mod_mul by lia. rewrite Nat.sub_0_r.
  replace (k + n) with (k + 1 * n) by lia. rewrite Nat.mod_add by lia. apply Nat.mod_small. exact H.
Qed.

Section Idx.
Context {A : Type}.

Lemma roll_list_spec shape sds : forall (f : @tensor A) idx,
  roll_list shape sds f idx = f (fold_right (sigma shape) idx sds).
Proof.
  induction sds as [|sd t IH]; intros f idx; [reflexivity|].
  cbn [roll_list fold_left fold_right]. fold (roll_list shape t (roll_axis shape sd f)).
  rewrite IH. reflexivity.
Qed.
End Idx.

(* total shift applied to axis d by a list of (shift, axis) pairs *)
Definition sum_shifts (d : nat) (sds : list (nat * nat)) : nat :=
  fold_right (fun sd acc => if snd sd =? d then fst sd + acc else acc) 0 sds.

Lemma sigma_valid shape sd idx : valid shape idx -> snd sd < length shape -> valid shape (sigma shape sd idx).
Proof.
  intros [Hl Hv] Hd. destruct sd as [s d]. cbn [snd] in Hd. unfold sigma. split.
  - rewrite upd_length by lia. exact Hl.
  - intros e He. destruct (Nat.eq_dec e d) as [->|Hne].
    + rewrite upd_same by lia. apply ridx_lt. specialize (Hv d Hd). lia.
    + rewrite upd_other by lia. apply Hv. exact He.
Qed.

Lemma fold_sigma shape sds : forall idx, valid shape idx -> Forall (fun sd => snd sd < length shape) sds ->
  valid shape (fold_right (sigma shape) idx sds) /\
  forall d, d < length shape ->
    nth d (fold_right (sigma shape) idx sds) 0 = ridx (sum_shifts d sds) (nth d shape 0) (nth d idx 0).
Proof.
  induction sds as [|[s e] t IH]; intros idx Hv Hall.
  - cbn [fold_right sum_shifts]. split; [exact Hv|]. intros d Hd. symmetry. apply ridx_zero. apply Hv. exact Hd.
  - inversion Hall as [|? ? He Ht]; subst. cbn [snd] in He.
    destruct (IH idx Hv Ht) as [Hv' Hc]. cbn [fold_right].
    split; [apply sigma_valid; assumption|].
    intros d Hd. unfold sigma at 1. cbn [sum_shifts fold_right fst snd].
    destruct Hv' as [Hl' Hb'].
    destruct (Nat.eq_dec d e) as [->|Hne].
    + rewrite upd_same by lia. rewrite Nat.eqb_refl. rewrite Hc by exact Hd.
      rewrite ridx_compose; [f_equal; fold (sum_shifts e t); lia | specialize (Hb' e Hd); lia | apply Hv; exact Hd].
    + rewrite upd_other by lia. replace (e =? d) with false by (symmetry; apply Nat.eqb_neq; lia).
      apply Hc. exact Hd.
Qed.

Lemma sum_shifts_app d l1 l2 : sum_shifts d (l1 ++ l2) = sum_shifts d l1 + sum_shifts d l2.
Proof.
  induction l1 as [|sd t IH]; [reflexivity|]. cbn [app sum_shifts fold_right]. fold (sum_shifts d (t ++ l2)). fold (sum_shifts d t).
  rewrite IH. destruct (snd sd =? d); lia.
Qed.

Lemma half_halves n : (n + 1) / 2 + n / 2 = n.
Proof.
  pose proof (Nat.div_mod n 2 ltac:(lia)). pose proof (Nat.div_mod (n + 1) 2 ltac:(lia)).
  pose proof (Nat.mod_upper_bound n 2 ltac:(lia)). pose proof (Nat.mod_upper_bound (n + 1) 2 ltac:(lia)).
  assert ((n + 1) mod 2 = 1 - n mod 2).
  { rewrite <- Nat.add_mod_idemp_l by lia. destruct (n mod 2) as [|[|?]]; [reflexivity|reflexivity|lia]. }
  lia.
Qed.

Lemma sum_shift_pairs shape d dims :
  sum_shifts d (map (fun e => ((nth e shape 0 + 1) / 2, e)) dims) + sum_shifts d (map (fun e => (nth e shape 0 / 2, e)) dims)
  = count_occ Nat.eq_dec dims d * nth d shape 0.
Proof.
  induction dims as [|e t IH]; [reflexivity|].
  cbn [map sum_shifts fold_right fst snd count_occ].
  fold (sum_shifts d (map (fun e => ((nth e shape 0 + 1) / 2, e)) t)). fold (sum_shifts d (map (fun e => (nth e shape 0 / 2, e)) t)).
  destruct (Nat.eq_dec e d) as [->|Hne].
  - rewrite Nat.eqb_refl. pose proof (half_halves (nth d shape 0)). cbn [Nat.mul]. lia.
  - replace (e =? d) with false by (symmetry; apply Nat.eqb_neq; exact Hne). exact IH.
Qed.

Section Main.
Context {A : Type}.

(* ifftshift after fftshift (and the other way round) is the identity on every valid index, for every rank, every shape
   with positive sizes and every list of axes (repetitions allowed) *)
Theorem ifftshift_fftshift_nd (shape dims : list nat) (f : @tensor A) idx :
  valid shape idx -> Forall (fun d => d < length shape) dims ->
  ifftshift_nd shape dims (fftshift_nd shape dims f) idx = f idx /\
  fftshift_nd shape dims (ifftshift_nd shape dims f) idx = f idx.
Proof.
  intros Hv Hd.
  assert (HF : Forall (fun sd => snd sd < length shape) (map (fun d => (nth d shape 0 / 2, d)) dims)).
  { rewrite Forall_forall in *. intros sd Hin. apply in_map_iff in Hin. destruct Hin as (d & <- & Hin). cbn. apply Hd. exact Hin. }
  assert (HG : Forall (fun sd => snd sd < length shape) (map (fun d => ((nth d shape 0 + 1) / 2, d)) dims)).
  { rewrite Forall_forall in *. intros sd Hin. apply in_map_iff in Hin. destruct Hin as (d & <- & Hin). cbn. apply Hd. exact Hin. }
  unfold ifftshift_nd, fftshift_nd. rewrite !roll_list_spec.
  destruct (fold_sigma shape _ idx Hv HG) as [HvG HcG].
  destruct (fold_sigma shape _ idx Hv HF) as [HvF HcF].
  destruct (fold_sigma shape _ _ HvG HF) as [HvFG HcFG].
  destruct (fold_sigma shape _ _ HvF HG) as [HvGF HcGF].
  split; f_equal.
  - apply list_ext; [destruct HvFG as [-> _]; destruct Hv as [-> _]; reflexivity|].
    intros k d0 Hk. destruct HvFG as [HlFG _]. rewrite HlFG in Hk.
    rewrite (nth_indep _ d0 0) by lia. rewrite (nth_indep idx d0 0) by (destruct Hv as [-> _]; lia).
    rewrite HcFG by exact Hk. rewrite HcG by exact Hk.
    rewrite ridx_compose; [| specialize (proj2 Hv k Hk); lia | apply Hv; exact Hk].
    rewrite sum_shift_pairs. apply ridx_multiple. apply Hv. exact Hk.
  - apply list_ext; [destruct HvGF as [-> _]; destruct Hv as [-> _]; reflexivity|].
    intros k d0 Hk. destruct HvGF as [HlGF _]. rewrite HlGF in Hk.
    rewrite (nth_indep _ d0 0) by lia. rewrite (nth_indep idx d0 0) by (destruct Hv as [-> _]; lia).
    rewrite HcGF by exact Hk. rewrite HcF by exact Hk.
    rewrite ridx_compose; [| specialize (proj2 Hv k Hk); lia | apply Hv; exact Hk].
    rewrite Nat.add_comm. rewrite sum_shift_pairs. apply ridx_multiple. apply Hv. exact Hk.
Qed.
End Main.
