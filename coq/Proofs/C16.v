(* C16 — lemmas about the reference accumulation loop (static). *)
From DV Require Import Base.Tactics Model.C16.

Section Loop.
Variables (W G : Type) (g : nat -> W -> G) (gzero : G) (gadd : G -> G -> G) (gdiv : nat -> G -> G)
          (clip : G -> G) (opt : W -> G -> nat -> W).

Notation ref_step := (ref_step W G g gzero gadd gdiv clip opt).
Notation ref_run := (ref_run W G g gzero gadd gdiv clip opt).
Notation acc_from := (acc_from W G g gadd).
Notation window_step := (window_step W G g gzero gadd gdiv clip opt).
Notation ref_windows := (ref_windows W G g gzero gadd gdiv clip opt).
Notation post := (post G gdiv clip).

Lemma ref_run_app k c n m : forall it s, ref_run k c it (n + m) s = ref_run k c (it + n) m (ref_run k c it n s).
Proof.
  induction n as [|n IH]; intros it s.
  - cbn. rewrite Nat.add_0_r. reflexivity.
  - cbn [Nat.add ref_run]. rewrite IH. f_equal. lia.
Qed.

Lemma acc_from_snoc w len : forall a acc, acc_from w a (S len) acc = gadd (acc_from w a len acc) (g (a + len) w).
Proof.
  induction len as [|len IH]; intros a acc.
  - cbn. rewrite Nat.add_0_r. reflexivity.
  - change (acc_from w a (S (S len)) acc) with (acc_from w (S a) (S len) (gadd acc (g a w))).
    rewrite IH. cbn [acc_from]. f_equal. f_equal. lia.
Qed.

Lemma mod_inside j k b : 0 < k -> b < k -> (j * k + b) mod k = b.
Proof. intros Hk Hb. rewrite Nat.add_comm, Nat.mod_add by lia. apply Nat.mod_small. exact Hb. Qed.

(* inside a window nothing is applied: gradients pile up at the window's parameters, the schedule advances *)
Lemma ref_run_partial k c j : 0 < k -> forall len a acc w e, a + len < k ->
  ref_run k c (j * k + a) len {| params := w; grad := acc; epoch := e |}
  = {| params := w; grad := acc_from w (j * k + a) len acc; epoch := e + len |}.
Proof.
  intros Hk. induction len as [|len IH]; intros a acc w e Hlen.
  - cbn. rewrite Nat.add_0_r. reflexivity.
  - cbn [ref_run]. unfold ref_step at 1. cbn [params grad epoch].
    replace (S (j * k + a)) with (j * k + S a) by lia. rewrite mod_inside by lia.
    replace (S a =? 0) with false by reflexivity.
    rewrite (IH (S a)) by lia. cbn [acc_from]. f_equal; [|lia].
    replace (j * k + S a) with (S (j * k + a)) by lia. reflexivity.
Qed.

(* a full window = one optimiser step on the post-processed sum of its k gradients, taken at the window's
   parameters, with the learning rate of the window's last iteration; the gradient buffer is empty again *)
Lemma ref_run_window k c j w e : 0 < k ->
  ref_run k c (j * k) k {| params := w; grad := gzero; epoch := e |}
  = window_step k c j {| params := w; grad := gzero; epoch := e |}.
Proof.
  intros Hk.
  pose proof (ref_run_app k c (k - 1) 1 (j * k) {| params := w; grad := gzero; epoch := e |}) as H.
  replace (k - 1 + 1) with k in H by lia. rewrite H. clear H.
  pose proof (ref_run_partial k c j Hk (k - 1) 0 gzero w e ltac:(lia)) as P.
  rewrite Nat.add_0_r in P. rewrite P. clear P.
  cbn [ref_run]. unfold ref_step. cbn [params grad epoch].
  replace (S (j * k + (k - 1))) with (0 + (S j) * k) by lia. rewrite Nat.mod_add by lia.
  rewrite Nat.mod_0_l by lia. cbn [Nat.eqb].
  unfold window_step. cbn [params grad epoch]. f_equal; [|lia].
  f_equal. f_equal.
  pose proof (acc_from_snoc w (k - 1) (j * k) gzero) as Q.
  replace (S (k - 1)) with k in Q by lia. rewrite Q. reflexivity.
Qed.

Theorem ref_run_is_windows k c : 0 < k -> forall m j s, grad s = gzero ->
  ref_run k c (j * k) (m * k) s = ref_windows k c j m s.
Proof.
  intros Hk. induction m as [|m IH]; intros j s Hg; [reflexivity|].
  cbn [Nat.mul ref_windows]. rewrite ref_run_app.
  destruct s as [w gr e]. cbn [grad] in Hg. subst gr.
  rewrite ref_run_window by exact Hk.
  replace (j * k + k) with ((S j) * k) by lia. apply IH. reflexivity.
Qed.

(* k = 1: every batch produces exactly one step with its own gradient *)
Corollary ref_step_k1 c it w e :
  ref_step 1 c it {| params := w; grad := gzero; epoch := e |}
  = {| params := opt w (post 1 c (gadd gzero (g it w))) e; grad := gzero; epoch := S e |}.
Proof. unfold ref_step. cbn [params grad epoch]. rewrite Nat.mod_1_r. reflexivity. Qed.

(* the schedule advances once per iteration, whatever k *)
Lemma ref_run_epoch k c n : forall it s, epoch (ref_run k c it n s) = epoch s + n.
Proof.
  induction n as [|n IH]; intros it s; [cbn; lia|].
  cbn [ref_run]. rewrite IH. unfold ref_step. destruct (S it mod k =? 0); cbn [epoch]; lia.
Qed.
End Loop.
