(* C15 — crash safety of the publish-by-rename protocol; resume arithmetic. *)
From DV Require Import Base.Tactics Model.C15 Model.C16 Proofs.C16.

Section FS.
Variable D : Type.
Notation fs := (fs D).
Notation load_latest := (load_latest D).
Notation crash_states := (crash_states D).
Notation save_atomic := (save_atomic D).
Notation apply_all := (apply_all D).

Lemma Zeqb_refl' z : (z =? z)%Z = true. Proof. apply Z.eqb_refl. Qed.

(* a complete save publishes the new checkpoint as 'latest' *)
Lemma save_then_load (f : fs) it d : load_latest (apply_all (save_atomic it d) f) = Ok it d.
Proof.
  unfold save_atomic, apply_all. cbn [fold_left apply]. unfold load_latest, upd. cbn [path_eqb].
  rewrite ?Zeqb_refl'. cbn [path_eqb]. rewrite ?Zeqb_refl'. reflexivity.
Qed.

(* dying at any point of a save leaves 'latest' = the previous or the new checkpoint, never a corrupt one *)
Theorem crash_safe (f : fs) it d s : In s (crash_states (save_atomic it d) f) ->
  load_latest f <> Corrupt -> load_latest s = load_latest f \/ load_latest s = Ok it d.
Proof.
  intros Hin Hok. unfold save_atomic in Hin. cbn [crash_states apply app] in Hin.
  unfold load_latest in *.
  repeat (destruct Hin as [Hin|Hin]; [subst s|]); try contradiction;
    unfold upd; cbn [path_eqb]; rewrite ?Zeqb_refl'; cbn [path_eqb];
    try (left; reflexivity).
  (* states after the checkpoint file was renamed into place, pointer still old *)
  all: try (destruct (f Ptr) as [[d0|n0|]|]; try (left; reflexivity); try congruence;
            destruct (n0 =? it)%Z eqn:E; [apply Z.eqb_eq in E; subst n0; right; reflexivity | left; reflexivity]).
  (* final state *)
  all: right; reflexivity.
Qed.

Corollary crash_never_corrupt (f : fs) it d s : In s (crash_states (save_atomic it d) f) ->
  load_latest f <> Corrupt -> load_latest s <> Corrupt.
Proof. intros Hin Hok. destruct (crash_safe f it d s Hin Hok) as [H|H]; rewrite H; [exact Hok|discriminate]. Qed.

(* completing the save is one of the crash states' successors: the end state is never corrupt either *)
Lemma save_complete_ok (f : fs) it d : load_latest (apply_all (save_atomic it d) f) <> Corrupt.
Proof. rewrite save_then_load. discriminate. Qed.

(* any history: saves at arbitrary iterations, then a save that dies at an arbitrary point *)
Fixpoint after_saves (saves : list (Z * D)) (f : fs) : fs :=
  match saves with [] => f | (it, d) :: t => after_saves t (apply_all (save_atomic it d) f) end.

Lemma after_saves_ok saves : forall f, load_latest f <> Corrupt -> load_latest (after_saves saves f) <> Corrupt.
Proof.
  induction saves as [|[it d] t IH]; intros f H; [exact H|]. cbn [after_saves]. apply IH. apply save_complete_ok.
Qed.

Lemma after_saves_latest saves it d f : load_latest (after_saves (saves ++ [(it, d)]) f) = Ok it d.
Proof.
  revert f. induction saves as [|[i0 d0] t IH]; intros f; cbn [app after_saves]; [apply save_then_load|apply IH].
Qed.

Theorem history_crash_safe saves it d (f0 : fs) s : load_latest f0 <> Corrupt ->
  In s (crash_states (save_atomic it d) (after_saves saves f0)) ->
  load_latest s = load_latest (after_saves saves f0) \/ load_latest s = Ok it d.
Proof. intros H0 Hin. apply crash_safe; [exact Hin|]. apply after_saves_ok. exact H0. Qed.

(* the in-place protocol of the pinned tree is not crash safe: dying after the pointer was opened for writing *)
Lemma in_place_refuted (d0 d : D) : exists (f : fs) s,
  load_latest f = Ok 5 d0 /\ In s (crash_states (save_in_place D 6 d) f) /\ load_latest s = Corrupt.
Proof.
  exists (fun p => match p with Ptr => Some (Num 5%Z) | Ckpt 5 => Some (Full d0) | _ => None end).
  eexists. split; [reflexivity|]. split.
  - unfold save_in_place. cbn [crash_states apply app]. do 5 right. left. reflexivity.
  - reflexivity.
Qed.
End FS.

(* ---------- resume arithmetic on the reference training run of C16 ---------- *)
Section Resume.
Variables (W G : Type) (g : nat -> W -> G) (gzero : G) (gadd : G -> G -> G) (gdiv : nat -> G -> G)
          (clip : G -> G) (opt : W -> G -> nat -> W).
Notation ref_run := (ref_run W G g gzero gadd gdiv clip opt).

(* a checkpoint labelled [lbl] that holds the state reached after [start] iterations, where start is where a
   resume from that label begins: continuing gives the uninterrupted run *)
Theorem resume_equiv k c N start (s0 : st W G) : start <= N ->
  ref_run k c start (N - start) (ref_run k c 0 start s0) = ref_run k c 0 N s0.
Proof.
  intros H. replace N with (start + (N - start)) at 2 by lia. rewrite ref_run_app. reflexivity.
Qed.
End Resume.
