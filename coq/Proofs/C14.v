(* C14 — the reconstruct_volumes state machine returns each volume once, slices in order. *)
From DV Require Import Base.Tactics Model.C14.

Section Recon.
Variables (Name I O : Type).
Variable name_eqb : Name -> Name -> bool.
Hypothesis name_eqb_spec : forall a b, name_eqb a b = true <-> a = b.
Variable f : I -> O.
Variable vsize : Name -> nat.

Notation st := (st Name O).
Notation step := (step Name I O name_eqb f vsize).
Notation run := (run Name I O name_eqb f vsize).
Notation reconstruct := (reconstruct Name I O name_eqb f vsize).
Notation batches_of := (batches_of Name I).

Lemma eqb_refl a : name_eqb a a = true.
Proof. apply name_eqb_spec. reflexivity. Qed.
Lemma eqb_neq a b : a <> b -> name_eqb a b = false.
Proof. intros H. destruct (name_eqb a b) eqn:E; [|reflexivity]. apply name_eqb_spec in E. contradiction. Qed.

Lemma run_app l1 : forall s l2,
  run s (l1 ++ l2) = match run s l1 with
                     | None => None
                     | Some (s', o1) => match run s' l2 with None => None | Some (s'', o2) => Some (s'', o1 ++ o2) end
                     end.
Proof.
  induction l1 as [|b t IH]; intros s l2.
  - cbn [app run]. destruct (run s l2) as [[s'' o2]|]; reflexivity.
  - cbn [app run]. destruct (step s b) as [[s' out]|]; [|reflexivity].
    rewrite IH. destruct (run s' t) as [[s1 o1]|]; [|reflexivity].
    destruct (run s1 l2) as [[s2 o2]|]; [|reflexivity]. rewrite app_assoc. reflexivity.
Qed.

Definition nonempty (c : list I) : Prop := c <> [].
Definition final (nm : Name) (all : list O) : st := {| last := Some nm; buf := Some all; counter := length all; vsz := length all |}.

Lemma concat_nonempty (c : list I) cs : nonempty c -> 0 < length (concat (c :: cs)).
Proof. intros H. destruct c; [congruence|]. cbn. lia. Qed.

(* the remaining batches of a volume whose first slices [pre] are already in the buffer *)
Lemma run_rest nm V : forall cs pre, Forall nonempty cs -> cs <> [] -> length pre + length (concat cs) = V ->
  run {| last := Some nm; buf := Some pre; counter := length pre; vsz := V |} (map (fun c => (nm, c)) cs)
  = Some (final nm (pre ++ map f (concat cs)), [(nm, pre ++ map f (concat cs))]).
Proof.
  induction cs as [|c cs' IH]; intros pre Hne Hnil HV; [congruence|].
  pose proof (Forall_inv Hne) as Hc. pose proof (Forall_inv_tail Hne) as Hrest.
  cbn [map run]. unfold step at 1. cbn [last buf counter vsz].
  rewrite eqb_refl. cbn [negb].
  cbn [concat] in HV. rewrite app_length in HV.
  replace (V <? length pre + length (map f c)) with false by (symmetry; apply Nat.ltb_ge; rewrite map_length; lia).
  destruct cs' as [|c' cs''].
  - cbn [concat] in *. rewrite app_nil_r in *. cbn [length] in HV.
    replace (length pre + length (map f c) =? V) with true by (symmetry; apply Nat.eqb_eq; rewrite map_length; lia).
    cbn [map run app]. unfold final. rewrite app_length, map_length.
    replace (length pre + length c) with V by lia. reflexivity.
  - pose proof (concat_nonempty c' cs'' (Forall_inv Hrest)) as Hpos.
    replace (length pre + length (map f c) =? V) with false by (symmetry; apply Nat.eqb_neq; rewrite map_length; lia).
    replace (length pre + length (map f c)) with (length (pre ++ map f c)) by (rewrite app_length; reflexivity).
    rewrite (IH (pre ++ map f c)); try assumption; try discriminate.
    + change (concat (c :: c' :: cs'')) with (c ++ concat (c' :: cs'')). rewrite map_app, app_assoc. reflexivity.
    + rewrite app_length, map_length. lia.
Qed.

Definition good_vol (v : Name * list (list I)) : Prop :=
  snd v <> [] /\ Forall nonempty (snd v) /\ vsize (fst v) = length (concat (snd v)).

Definition entering (s : st) (nm : Name) : Prop :=
  (last s = None /\ buf s = None /\ counter s = 0) \/ (exists l, last s = Some l /\ l <> nm).

(* a whole volume, entered from the start state or from another volume *)
Lemma run_volume nm cs s : good_vol (nm, cs) -> entering s nm ->
  run s (map (fun c => (nm, c)) cs) = Some (final nm (map f (concat cs)), [(nm, map f (concat cs))]).
Proof.
  intros (Hnil & Hne & HV) Hent. cbn [fst snd] in *.
  destruct cs as [|c cs']; [congruence|].
  pose proof (Forall_inv Hne) as Hc. pose proof (Forall_inv_tail Hne) as Hrest.
  cbn [map run]. unfold step at 1.
  assert (Hreset : (let last1 := match last s with None => nm | Some l => l end in
                    let changed := negb (name_eqb last1 nm) in
                    (if changed then None else buf s) = None /\ (if changed then 0 else counter s) = 0)).
  { destruct Hent as [(Hl & Hb & Hcn) | (l & Hl & Hneq)]; rewrite Hl; cbn zeta.
    - rewrite eqb_refl. cbn [negb]. split; assumption.
    - rewrite (eqb_neq l nm Hneq). cbn [negb]. split; reflexivity. }
  cbn zeta in Hreset. destruct Hreset as [Hb Hcn]. rewrite Hb, Hcn. cbn [Nat.add app].
  rewrite HV. cbn [concat]. rewrite app_length.
  replace (length c + length (concat cs') <? length (map f c)) with false by (symmetry; apply Nat.ltb_ge; rewrite map_length; lia).
  destruct cs' as [|c' cs''].
  - cbn [concat length]. rewrite Nat.add_0_r, app_nil_r.
    replace (length (map f c) =? length c) with true by (symmetry; apply Nat.eqb_eq; apply map_length).
    cbn [map run app]. unfold final. rewrite map_length. reflexivity.
  - pose proof (concat_nonempty c' cs'' (Forall_inv Hrest)) as Hpos.
    replace (length (map f c) =? length c + length (concat (c' :: cs''))) with false by (symmetry; apply Nat.eqb_neq; rewrite map_length; lia).
    assert (HL : length (map f c) + length (concat (c' :: cs'')) = length c + length (concat (c' :: cs''))) by (rewrite map_length; reflexivity).
    pose proof (run_rest nm (length c + length (concat (c' :: cs''))) (c' :: cs'') (map f c) Hrest ltac:(discriminate) HL) as R.
    rewrite R. change (concat (c :: c' :: cs'')) with (c ++ concat (c' :: cs'')). rewrite map_app. reflexivity.
Qed.

Definition expected (vols : list (Name * list (list I))) : list (Name * list O) :=
  map (fun v => (fst v, map f (concat (snd v)))) vols.

Lemma run_volumes : forall vols s, NoDup (map fst vols) -> Forall good_vol vols ->
  ((last s = None /\ buf s = None /\ counter s = 0) \/ (exists l, last s = Some l /\ ~ In l (map fst vols))) ->
  exists s', run s (batches_of vols) = Some (s', expected vols).
Proof.
  induction vols as [|[nm cs] vs IH]; intros s Hnd Hgood Hent.
  - exists s. reflexivity.
  - inversion Hnd as [|? ? Hnotin Hnd']; subst. inversion Hgood as [|? ? Hg Hgood']; subst.
    unfold batches_of. cbn [map concat fst snd]. rewrite run_app.
    rewrite (run_volume nm cs s Hg).
    + destruct (IH (final nm (map f (concat cs))) Hnd' Hgood') as (s' & Hs').
      { right. exists nm. split; [reflexivity|exact Hnotin]. }
      unfold batches_of in Hs'. rewrite Hs'. exists s'. reflexivity.
    + destruct Hent as [H|(l & Hl & Hnin)]; [left; exact H|right]. exists l. split; [exact Hl|].
      intros ->. apply Hnin. left. reflexivity.
Qed.

(* one output per volume, in order, whose k-th slice is the processed model output of the k-th slice *)
Theorem reconstruct_spec vols : NoDup (map fst vols) -> Forall good_vol vols ->
  reconstruct (batches_of vols) = Some (expected vols).
Proof.
  intros Hnd Hgood. unfold reconstruct.
  destruct (run_volumes vols (st0 Name O) Hnd Hgood) as (s' & Hs'); [left; repeat split|].
  rewrite Hs'. reflexivity.
Qed.
End Recon.

(* composition with the volume batch sampler of C13: batches = consecutive chunks of at most bs slices per volume;
   the result does not depend on the batch size *)
From DV Require Import Base.ListAux.
Section WithSampler.
Variables (Name I O : Type).
Variable name_eqb : Name -> Name -> bool.
Hypothesis name_eqb_spec : forall a b, name_eqb a b = true <-> a = b.
Variable f : I -> O.
Variable vsize : Name -> nat.

Lemma chunk_list_nonempty (bs : nat) (l : list I) : 0 < bs -> l <> [] -> chunk_list bs l <> [].
Proof. intros Hbs Hl. destruct l as [|x xs]; [congruence|]. unfold chunk_list. cbn [length chunk_fuel]. discriminate. Qed.

Theorem reconstruct_with_sampler (bs : nat) (vols : list (Name * list I)) : 0 < bs ->
  NoDup (map fst vols) -> Forall (fun v => snd v <> [] /\ vsize (fst v) = length (snd v)) vols ->
  reconstruct Name I O name_eqb f vsize (batches_of Name I (map (fun v => (fst v, chunk_list bs (snd v))) vols))
  = Some (map (fun v => (fst v, map f (snd v))) vols).
Proof.
  intros Hbs Hnd Hgood.
  rewrite (reconstruct_spec Name I O name_eqb name_eqb_spec f vsize).
  - unfold expected. rewrite map_map. f_equal. apply map_ext. intros [nm l]. cbn [fst snd].
    rewrite chunk_list_concat by exact Hbs. reflexivity.
  - rewrite map_map. cbn [fst]. exact Hnd.
  - rewrite Forall_forall in *. intros v Hv. apply in_map_iff in Hv. destruct Hv as ([nm l] & <- & Hin).
    specialize (Hgood _ Hin). cbn [fst snd] in *. destruct Hgood as [Hne Hsz].
    unfold good_vol. cbn [fst snd]. repeat split.
    + apply chunk_list_nonempty; assumption.
    + pose proof (chunk_fuel_sizes (length l) bs l Hbs) as Hs. unfold chunk_list.
      rewrite Forall_forall in *. intros c Hc. specialize (Hs c Hc). unfold nonempty. destruct c; [cbn in Hs; lia|discriminate].
    + rewrite chunk_list_concat by exact Hbs. exact Hsz.
Qed.
End WithSampler.
