(* C17 — lemmas: every padding / pooling / wavelet / sub-pixel network returns the spatial size it was given, for all sizes
   from the architecture's minimum, all depths. One axis first, then the axes of a 2-D / 3-D tensor together. *)
From DV Require Import Base.Tactics Model.C17.
Local Open Scope Z_scope.

(* ------------------------------------------------------------------ generic *)
Lemma run1_app p q a : run1 (p ++ q) a = match run1 p a with Some a' => run1 q a' | None => None end.
Proof. revert a. induction p as [|o p IH]; intros a; cbn [app run1]; [reflexivity|]. destruct (step1 o a); [apply IH|reflexivity]. Qed.

Lemma rep_snoc {A} n (l : list A) : rep (S n) l = rep n l ++ l.
Proof. induction n as [|n IH]; cbn [rep]; [rewrite app_nil_r; reflexivity|]. cbn [rep] in IH. rewrite IH at 1. rewrite app_assoc. reflexivity. Qed.

Lemma pow2_pos n : 1 <= 2 ^ Z.of_nat n.
Proof. pose proof (Z.pow_pos_nonneg 2 (Z.of_nat n) ltac:(lia) ltac:(lia)). lia. Qed.
Lemma pow2_S n : 2 ^ Z.of_nat (S n) = 2 * 2 ^ Z.of_nat n.
Proof. rewrite Nat2Z.inj_succ, Z.pow_succ_r by lia. reflexivity. Qed.

(* ------------------------------------------------------------------ single ops on one axis *)
Lemma s_same3 c s i : 1 <= c -> step1 same3 (mk c s i) = Some (mk c s i).
Proof. intros H. unfold same3, step1, step_local, conv_out, upd. cbn [cur stk inp]. case_if; [lia|]. cbn [option_map]. do 2 f_equal. lia. Qed.
Lemma s_one1 c s i : 1 <= c -> step1 one1 (mk c s i) = Some (mk c s i).
Proof. intros H. unfold one1, step1, step_local, conv_out, upd. cbn [cur stk inp]. case_if; [lia|]. cbn [option_map]. do 2 f_equal. lia. Qed.
Lemma s_dil d c s i : 1 <= c -> step1 (OConv 3 1 d d) (mk c s i) = Some (mk c s i).
Proof. intros H. unfold step1, step_local, conv_out, upd. cbn [cur stk inp]. case_if; [lia|]. cbn [option_map]. do 2 f_equal. lia. Qed.
Lemma s_down3 c s i : 1 <= c -> step1 down3 (mk c s i) = Some (mk ((c + 1) / 2) s i).
Proof. intros H. unfold down3, step1, step_local, conv_out, upd. cbn [cur stk inp]. case_if; [lia|]. cbn [option_map]. do 2 f_equal. lia. Qed.
Lemma s_push c s i : step1 OPush (mk c s i) = Some (mk c (c :: s) i).
Proof. reflexivity. Qed.
Lemma s_pool c s i : 2 <= c -> step1 (OPool 2 2) (mk c s i) = Some (mk (c / 2) s i).
Proof. intros H. unfold step1, step_local, pool_out, upd. cbn [cur stk inp]. case_if; [lia|]. cbn [option_map]. do 2 f_equal. lia. Qed.
Lemma s_convT c s i : step1 (OConvT 2 2) (mk c s i) = Some (mk (2 * c) s i).
Proof. unfold step1, step_local, convT_out, upd. cbn [cur stk inp]. do 2 f_equal. lia. Qed.
Lemma s_shuffle c s i : step1 (OShuffle 2) (mk c s i) = Some (mk (2 * c) s i).
Proof. reflexivity. Qed.
Lemma s_iwt c s i : step1 OIwt (mk c s i) = Some (mk (2 * c) s i).
Proof. reflexivity. Qed.
Lemma s_dwt c s i : Z.even c = true -> step1 ODwt (mk c s i) = Some (mk (c / 2) s i).
Proof. intros H. unfold step1, step_local, upd. cbn [cur stk inp]. rewrite H. reflexivity. Qed.
Lemma s_padodd idx c s i : 2 <= c -> step1 (OPadOdd idx) (mk c s i) = Some (mk (c + c mod 2) s i).
Proof.
  intros H. unfold step1, upd. cbn [cur stk inp]. rewrite (Zmod_odd c). destruct (Z.odd c).
  - case_if; [reflexivity|lia].
  - rewrite Z.add_0_r. reflexivity.
Qed.
Lemma s_padodd_even idx c s i : Z.even c = true -> step1 (OPadOdd idx) (mk c s i) = Some (mk c s i).
Proof. intros H. unfold step1. cbn [cur]. rewrite <- Z.negb_even, H. reflexivity. Qed.
(* after an up-sampling by two of ceil-or-floor half: the result is r or r + 1 ... crop / pad brings it back to r *)
Lemma s_popcrop c r s i : r <= c -> step1 OPopCrop (mk c (r :: s) i) = Some (mk r s i).
Proof.
  intros H. unfold step1, step_local, crop_to. cbn [cur stk inp]. destruct (Z.ltb_spec r c) as [E|E].
  - rewrite Z.eqb_refl. reflexivity.
  - assert (c = r) by lia. subst. rewrite Z.eqb_refl. reflexivity.
Qed.
Lemma s_cropinput c s i : i <= c -> step1 OCropInput (mk c s i) = Some (mk i s i).
Proof.
  intros H. unfold step1, step_local, crop_to, upd. cbn [cur stk inp]. destruct (Z.ltb_spec i c) as [E|E].
  - rewrite Z.eqb_refl. reflexivity.
  - assert (c = i) by lia. subst. rewrite Z.eqb_refl. reflexivity.
Qed.
Lemma s_poppadcat idx c r s i : 2 <= r -> c = 2 * (r / 2) -> step1 (OPopPadCat idx) (mk c (r :: s) i) = Some (mk r s i).
Proof.
  intros Hr Hc. unfold step1. cbn [cur stk inp]. destruct (Z.eqb_spec c r) as [E|E]; [reflexivity|].
  replace (1 <? c) with true by (symmetry; apply Z.ltb_lt; lia).
  replace (c + 1 =? r) with true by (symmetry; apply Z.eqb_eq; lia). reflexivity.
Qed.

Lemma even_add_mod c : Z.even (c + c mod 2) = true.
Proof. rewrite Z.even_spec. exists ((c + c mod 2) / 2). lia. Qed.

(* ------------------------------------------------------------------ U-Net, one axis *)
Section OneAxis.
Variable idx : list nat.

Lemma run_convblock c s i : 1 <= c -> run1 convblock (mk c s i) = Some (mk c s i).
Proof. intros H. unfold convblock. cbn [run1]. rewrite !s_same3 by lia. reflexivity. Qed.

Lemma unet_core : forall m c s i, 2 ^ Z.of_nat m <= c ->
  run1 (rep m unet_down ++ convblock ++ rep m (unet_up idx)) (mk c s i) = Some (mk c s i).
Proof.
  induction m as [|m IH]; intros c s i H.
  - cbn [rep app]. rewrite app_nil_r. apply run_convblock. cbn in H. lia.
  - rewrite pow2_S in H. pose proof (pow2_pos m) as Hp.
    rewrite (rep_snoc m (unet_up idx)). cbn [rep]. rewrite <- !app_assoc.
    rewrite run1_app. unfold unet_down at 1. rewrite run1_app, run_convblock by lia.
    cbn [run1]. rewrite s_push, s_pool by lia.
    rewrite (app_assoc (rep m unet_down)), (app_assoc (rep m unet_down ++ convblock)), <- (app_assoc (rep m unet_down)).
    rewrite run1_app, IH by lia.
    unfold unet_up. cbn [app run1]. rewrite s_convT, (s_poppadcat idx (2 * (c / 2)) c) by lia.
    apply run_convblock. lia.
Qed.

Theorem unet1_shape L c s i : 2 ^ Z.of_nat (Nat.max L 1) <= c -> run1 (unet_prog idx L) (mk c s i) = Some (mk c s i).
Proof.
  intros H. unfold unet_prog. replace (1 + (L - 1))%nat with (Nat.max L 1) by lia. replace (L - 1 + 1)%nat with (Nat.max L 1) by lia.
  set (M := Nat.max L 1) in *.
  replace (rep M unet_down ++ convblock ++ rep M (unet_up idx) ++ [one1]) with ((rep M unet_down ++ convblock ++ rep M (unet_up idx)) ++ [one1])
    by (rewrite <- !app_assoc; reflexivity).
  rewrite run1_app, unet_core by exact H. cbn [run1]. pose proof (pow2_pos M). rewrite s_one1 by lia. reflexivity.
Qed.

(* ------------------------------------------------------------------ normalised U-Net: pad to a multiple of 16, slice back *)
Lemma lor_small_15 r : 0 <= r < 16 -> Z.lor r 15 = 15.
Proof.
  intros H. assert (E : r = 0 \/ r = 1 \/ r = 2 \/ r = 3 \/ r = 4 \/ r = 5 \/ r = 6 \/ r = 7 \/ r = 8 \/ r = 9 \/ r = 10 \/ r = 11 \/ r = 12 \/ r = 13 \/ r = 14 \/ r = 15) by lia.
  repeat (destruct E as [->|E]; [reflexivity|]). subst. reflexivity.
Qed.
Lemma lor15 m : 0 <= m -> Z.lor m 15 = 16 * (m / 16) + 15.
Proof.
  intros H. set (q := m / 16). set (r := m mod 16).
  assert (Hm : m = 16 * q + r) by (unfold q, r; lia). assert (Hr : 0 <= r < 16) by (unfold r; lia).
  assert (A : Z.land (16 * q) 15 = 0).
  { change 15 with (Z.ones 4). rewrite Z.land_ones by lia. change (2 ^ 4) with 16. rewrite Z.mul_comm. apply Z_mod_mult. }
  assert (B : Z.land r 15 = r).
  { change 15 with (Z.ones 4). rewrite Z.land_ones by lia. change (2 ^ 4) with 16. apply Z.mod_small. exact Hr. }
  assert (C : Z.land (16 * q) r = 0) by (rewrite <- B, Z.land_assoc, (Z.land_comm (16 * q) r), <- Z.land_assoc, A; apply Z.land_0_r).
  assert (D : 16 * q + r = Z.lor (16 * q) r) by (rewrite Z.add_nocarry_lxor by exact C; apply Z.lxor_lor; exact C).
  rewrite Hm at 1. rewrite D, <- Z.lor_assoc, lor_small_15 by exact Hr.
  rewrite <- Z.lxor_lor by exact A. rewrite <- Z.add_nocarry_lxor by exact A. reflexivity.
Qed.
Lemma nu_mult_spec n : 1 <= n -> nu_mult n = 16 * ((n + 15) / 16).
Proof. intros H. unfold nu_mult. rewrite lor15 by lia. lia. Qed.
Lemma nu_pad_total n : n + nu_lo n + nu_hi n = nu_mult n.
Proof. unfold nu_lo, nu_hi. lia. Qed.
Lemma nu_slice n : 1 <= n -> slice_len (nu_mult n) (nu_start n (nu_mult n)) (nu_stop n (nu_mult n)) = n.
Proof.
  intros H. pose proof (nu_mult_spec n H) as E. unfold slice_len, norm_idx, nu_start, nu_stop, nu_lo, nu_hi. rewrite E.
  repeat case_if; lia.
Qed.

Theorem normunet1_shape L n s i : (L <= 4)%nat -> 1 <= n -> run1 (normunet_prog idx L) (mk n s i) = Some (mk n s i).
Proof.
  intros HL Hn. unfold normunet_prog. cbn [app run1]. unfold step1 at 1, step_local. cbn [cur stk inp].
  rewrite nu_pad_total. rewrite run1_app, unet1_shape.
  - cbn [run1]. unfold step1, step_local. cbn [cur stk inp]. rewrite nu_slice by exact Hn. reflexivity.
  - rewrite nu_mult_spec by exact Hn. assert (2 ^ Z.of_nat (Nat.max L 1) <= 16); [|lia].
    change 16 with (2 ^ Z.of_nat 4). apply Z.pow_le_mono_r; lia.
Qed.

(* ------------------------------------------------------------------ 3-D U-Net: pad every axis up to 2^L, crop back *)
Lemma p2_total k n : 0 <= k -> 1 <= n -> n + p2_lo k n + p2_hi k n = Z.max n (2 ^ k).
Proof. intros Hk Hn. unfold p2_lo, p2_hi. case_if; lia. Qed.
Lemma p2_slice k n : 0 <= k -> 1 <= n ->
  slice_len (Z.max n (2 ^ k)) (p2_start k n (Z.max n (2 ^ k))) (p2_stop k n (Z.max n (2 ^ k))) = n.
Proof. intros Hk Hn. unfold slice_len, norm_idx, p2_start, p2_stop, p2_lo, p2_hi. repeat case_if; lia. Qed.
End OneAxis.

Theorem unet3d1_shape L n s i : (1 <= L)%nat -> 1 <= n -> run1 (unet3d_prog L) (mk n s i) = Some (mk n s i).
Proof.
  intros HL Hn. unfold unet3d_prog. cbn [app run1]. unfold step1 at 1, step_local. cbn [cur stk inp].
  rewrite p2_total by lia. rewrite run1_app, unet1_shape.
  - cbn [run1]. unfold step1, step_local. cbn [cur stk inp]. rewrite p2_slice by lia. reflexivity.
  - replace (Nat.max L 1) with L by lia. lia.
Qed.

Theorem normunet3d1_shape L n s i : (1 <= L <= 4)%nat -> 1 <= n -> run1 (normunet3d_prog L) (mk n s i) = Some (mk n s i).
Proof.
  intros HL Hn. unfold normunet3d_prog. cbn [app run1]. unfold step1 at 1, step_local. cbn [cur stk inp].
  rewrite nu_pad_total. rewrite run1_app, unet3d1_shape.
  - cbn [run1]. unfold step1, step_local. cbn [cur stk inp]. rewrite nu_slice by exact Hn. reflexivity.
  - lia.
  - rewrite nu_mult_spec by exact Hn. lia.
Qed.

(* ------------------------------------------------------------------ MWCNN, one axis *)
Section Wavelet.
Variable idx : list nat.

Lemma run_mw_block d1 d2 c s i : 1 <= c -> run1 (mw_block d1 d2) (mk c s i) = Some (mk c s i).
Proof. intros H. unfold mw_block. cbn [run1]. rewrite s_same3, !s_dil by lia. reflexivity. Qed.
Lemma run_mw_up d1 d2 c s i : 1 <= c -> run1 (mw_up d1 d2) (mk c s i) = Some (mk c s i).
Proof. intros H. unfold mw_up. cbn [run1]. rewrite !s_dil, s_same3 by lia. reflexivity. Qed.

(* k middle scales, the last scale, and the k + 1 up steps that undo them: from an even size e with e remembered *)
Lemma mw_core : forall k (f : bool) e s i, Z.even e = true -> 2 ^ Z.of_nat (S k) <= e ->
  run1 (rep k (mw_mid idx) ++ mw_last ++ mw_upstep f ++ rep k (mw_upstep false)) (mk e (e :: s) i) = Some (mk e s i).
Proof.
  induction k as [|k IH]; intros f e s i He H; rewrite pow2_S in H.
  - pose proof (pow2_pos 0) as Hp. cbn [rep app]. rewrite app_nil_r. unfold mw_last. rewrite <- app_assoc. cbn [app run1]. rewrite s_dwt by exact He.
    rewrite run1_app, run_mw_block by lia. unfold mw_upstep. rewrite run1_app.
    assert (U : run1 (if f then mw_up 3 2 else mw_up 2 1) (mk (e / 2) (e :: s) i) = Some (mk (e / 2) (e :: s) i)) by (destruct f; apply run_mw_up; lia).
    rewrite U. cbn [run1]. rewrite s_iwt, s_popcrop; [reflexivity|]. rewrite Z.even_spec in He. destruct He as [q ->]. lia.
  - pose proof (pow2_pos (S k)) as Hp. rewrite pow2_S in H, Hp. pose proof (pow2_pos k) as Hp'.
    rewrite (rep_snoc k (mw_upstep false)). cbn [rep]. unfold mw_mid at 1. rewrite <- !app_assoc. cbn [app run1].
    rewrite s_dwt by exact He. rewrite run1_app, run_mw_block by lia. cbn [app run1].
    rewrite (s_padodd idx (e / 2)) by lia. rewrite s_push.
    set (e' := e / 2 + (e / 2) mod 2).
    rewrite (app_assoc (rep k (mw_mid idx))), (app_assoc (rep k (mw_mid idx) ++ mw_last)), (app_assoc ((rep k (mw_mid idx) ++ mw_last) ++ mw_upstep f)).
    rewrite run1_app. rewrite <- !app_assoc. rewrite IH; [| apply even_add_mod | rewrite pow2_S; unfold e'; lia].
    unfold mw_upstep. rewrite run1_app, run_mw_up by (unfold e'; lia). cbn [run1]. rewrite s_iwt, s_popcrop; [reflexivity|].
    unfold e'. rewrite Z.even_spec in He. destruct He as [q ->]. lia.
Qed.

Theorem mwcnn1_shape sc n s : (1 <= sc)%nat -> 2 ^ Z.of_nat sc <= n -> exists s', run1 (mwcnn_prog idx sc) (mk n s n) = Some (mk n s' n).
Proof.
  intros Hs H. destruct sc as [|[|k]]; [lia| |].
  - (* one scale *) change (2 ^ Z.of_nat 1) with 2 in H. unfold mwcnn_prog. cbn [app run1]. rewrite (s_padodd idx n) by lia.
    unfold mw_first. cbn [Nat.eqb]. rewrite <- app_assoc, run1_app, run_mw_block by lia. cbn [app run1].
    rewrite s_padodd_even by apply even_add_mod. rewrite s_push. rewrite run1_app, run_mw_up by lia. cbn [run1].
    rewrite s_cropinput by lia. eexists. reflexivity.
  - rewrite pow2_S in H. pose proof (pow2_pos (S k)) as Hp. unfold mwcnn_prog. cbn [app run1]. rewrite (s_padodd idx n) by lia.
    set (e := n + n mod 2). assert (He : Z.even e = true) by apply even_add_mod.
    unfold mw_first. cbn [Nat.eqb]. rewrite <- !app_assoc, run1_app, run_mw_block by (unfold e; lia). cbn [app run1].
    rewrite s_padodd_even by exact He. rewrite s_push.
    rewrite (app_assoc (rep k (mw_mid idx))), (app_assoc (rep k (mw_mid idx) ++ mw_last)), (app_assoc ((rep k (mw_mid idx) ++ mw_last) ++ mw_upstep true)).
    rewrite run1_app. rewrite <- !app_assoc. rewrite mw_core; [| exact He | unfold e; lia].
    rewrite run1_app, run_mw_up by (unfold e; lia). cbn [run1]. rewrite s_cropinput by (unfold e; lia). eexists. reflexivity.
Qed.

(* ------------------------------------------------------------------ DIDN, one axis *)
Lemma dub1_shape c s i : 2 <= c -> run1 (dub_prog idx) (mk c s i) = Some (mk c s i).
Proof.
  intros H. unfold dub_prog, subpixel. cbn [app run1].
  rewrite s_push, (s_padodd idx c) by lia. set (e := c + c mod 2). assert (He : Z.even e = true) by apply even_add_mod.
  assert (2 <= e) by (unfold e; lia).
  rewrite !s_same3 by lia. rewrite s_push, s_down3 by lia. rewrite s_same3 by lia. rewrite s_push, s_down3 by lia.
  rewrite s_same3 by lia. rewrite s_one1 by lia. rewrite s_shuffle, s_popcrop by lia.
  rewrite s_one1, s_same3 by lia. rewrite s_one1 by lia. rewrite s_shuffle. rewrite s_popcrop by (rewrite Z.even_spec in He; destruct He as [q Hq]; lia).
  rewrite s_one1 by lia. rewrite !s_same3 by lia. rewrite s_popcrop by (unfold e; lia). reflexivity.
Qed.

Lemma run_rep_fix p n a : run1 p a = Some a -> run1 (rep n p) a = Some a.
Proof. intros H. induction n as [|n IH]; [reflexivity|]. cbn [rep]. rewrite run1_app, H. exact IH. Qed.

Theorem didn1_shape D R n s : 3 <= n -> run1 (didn_prog idx D R) (mk n s n) = Some (mk n s n).
Proof.
  intros H. unfold didn_prog, subpixel. cbn [app run1]. rewrite s_same3, s_down3 by lia.
  assert (Hc : 2 <= (n + 1) / 2) by lia.
  rewrite run1_app, (run_rep_fix (dub_prog idx)) by (apply dub1_shape; exact Hc).
  rewrite run1_app, (run_rep_fix [same3]) by (cbn [run1]; rewrite s_same3 by lia; reflexivity).
  cbn [app run1]. rewrite s_one1, s_same3 by lia. rewrite s_one1 by lia. rewrite s_shuffle. rewrite s_same3 by lia.
  rewrite s_cropinput by lia. reflexivity.
Qed.
End Wavelet.

(* ------------------------------------------------------------------ all axes together *)
Definition both2 (x y : option ast) : option (list ast) := match x, y with Some a, Some b => Some [a; b] | _, _ => None end.
Definition all3 (x y z : option ast) : option (list ast) := match x, y, z with Some a, Some b, Some c => Some [a; b; c] | _, _, _ => None end.

Lemma reflect_ok_0 c : reflect_ok c 0 = true.
Proof. reflexivity. Qed.
Lemma reflect_ok_1 c : reflect_ok c 1 = (1 <? c).
Proof. reflexivity. Qed.

Lemma padodd_axis a (b : bool) : b = Z.odd (cur a) ->
  (if reflect_ok (cur a) 0 && reflect_ok (cur a) (if b then 1 else 0) then Some (upd a (cur a + 0 + (if b then 1 else 0))) else None)
  = step1 (OPadOdd []) a.
Proof.
  intros ->. unfold step1. destruct (Z.odd (cur a)).
  - rewrite reflect_ok_0, reflect_ok_1. cbn [andb]. destruct (1 <? cur a); [|reflexivity]. rewrite Z.add_0_r. reflexivity.
  - rewrite reflect_ok_0. cbn [andb]. rewrite !Z.add_0_r. destruct a; reflexivity.
Qed.

Lemma step1_padodd_idx i1 i2 a : step1 (OPadOdd i1) a = step1 (OPadOdd i2) a.
Proof. reflexivity. Qed.
Lemma step1_cat_idx i1 i2 a : step1 (OPopPadCat i1) a = step1 (OPopPadCat i2) a.
Proof. reflexivity. Qed.

Lemma cat_axis a r t (d : bool) : stk a = r :: t -> d = negb (cur a =? r) ->
  match (if reflect_ok (cur a) 0 && reflect_ok (cur a) (if d then 1 else 0) then Some (upd a (cur a + 0 + (if d then 1 else 0))) else None) with
  | Some a' => pop_eq a'
  | None => None
  end = step1 (OPopPadCat []) a.
Proof.
  intros Hs ->. unfold step1. rewrite Hs. destruct (Z.eqb_spec (cur a) r) as [E|E]; cbn [negb].
  - rewrite reflect_ok_0. cbn [andb]. unfold pop_eq, upd. cbn [cur stk inp]. rewrite Hs, !Z.add_0_r.
    rewrite (proj2 (Z.eqb_eq _ _) E). reflexivity.
  - rewrite reflect_ok_0, reflect_ok_1. cbn [andb]. destruct (1 <? cur a); cbn [andb]; [|reflexivity].
    unfold pop_eq, upd. cbn [cur stk inp]. rewrite Hs, Z.add_0_r. reflexivity.
Qed.

Lemma cat_empty i a : stk a = [] -> step1 (OPopPadCat i) a = None.
Proof. intros H. unfold step1. rewrite H. reflexivity. Qed.

Lemma step_decomp2 o a b : canonical 2 o -> step o [a; b] = both2 (step1 o a) (step1 o b).
Proof.
  intros Hc. destruct o; try (cbn [step mapM step1]; unfold both2; destruct (step_local _ a); [destruct (step_local _ b)|]; reflexivity).
  - (* concatenate *) cbn in Hc. subst idx. cbn [step mapM length Nat.mul Nat.add].
    rewrite (step1_cat_idx _ [] a), (step1_cat_idx _ [] b).
    unfold differs. destruct (stk a) as [|ra ta] eqn:Ea; [unfold step1; rewrite Ea; reflexivity|].
    destruct (stk b) as [|rb tb] eqn:Eb; [unfold step1 at 2; rewrite Eb; unfold both2; destruct (step1 _ a); reflexivity|].
    rewrite <- (cat_axis a ra ta _ Ea eq_refl), <- (cat_axis b rb tb _ Eb eq_refl).
    destruct (negb (cur a =? ra)), (negb (cur b =? rb)); cbn [padvec combine fold_left fst snd set_nth repeat apply_reflect];
      repeat (match goal with |- context [if ?c then _ else _] => destruct c end; cbn [mapM both2]; try reflexivity);
      unfold both2; repeat (match goal with |- context [pop_eq ?x] => destruct (pop_eq x) end; try reflexivity).
  - (* pad odd *) cbn in Hc. subst idx. cbn [step map length Nat.mul Nat.add].
    rewrite (step1_padodd_idx _ [] a), (step1_padodd_idx _ [] b).
    rewrite <- (padodd_axis a _ eq_refl), <- (padodd_axis b _ eq_refl).
    destruct (Z.odd (cur a)), (Z.odd (cur b)); cbn [padvec combine fold_left fst snd set_nth repeat apply_reflect];
      repeat (match goal with |- context [if ?c then _ else _] => destruct c end; cbn [both2]; try reflexivity).
Qed.

Lemma step_decomp3 o a b c : canonical 3 o -> step o [a; b; c] = all3 (step1 o a) (step1 o b) (step1 o c).
Proof.
  intros Hc. destruct o; try (cbn [step mapM step1]; unfold all3; destruct (step_local _ a); [destruct (step_local _ b); [destruct (step_local _ c)|]|]; reflexivity).
  - cbn in Hc. subst idx. cbn [step mapM length Nat.mul Nat.add].
    rewrite (step1_cat_idx _ [] a), (step1_cat_idx _ [] b), (step1_cat_idx _ [] c).
    unfold differs. destruct (stk a) as [|ra ta] eqn:Ea; [unfold step1; rewrite Ea; reflexivity|].
    destruct (stk b) as [|rb tb] eqn:Eb; [rewrite (cat_empty _ b Eb); unfold all3; destruct (step1 _ a); reflexivity|].
    destruct (stk c) as [|rc tc] eqn:Ec; [rewrite (cat_empty _ c Ec); unfold all3; destruct (step1 _ a); [destruct (step1 _ b)|]; reflexivity|].
    rewrite <- (cat_axis a ra ta _ Ea eq_refl), <- (cat_axis b rb tb _ Eb eq_refl), <- (cat_axis c rc tc _ Ec eq_refl).
    destruct (negb (cur a =? ra)), (negb (cur b =? rb)), (negb (cur c =? rc)); cbn [padvec combine fold_left fst snd set_nth repeat apply_reflect];
      repeat (match goal with |- context [if ?c then _ else _] => destruct c end; cbn [mapM all3]; try reflexivity);
      unfold all3; repeat (match goal with |- context [pop_eq ?x] => destruct (pop_eq x) end; try reflexivity).
  - cbn in Hc. subst idx. cbn [step map length Nat.mul Nat.add].
    rewrite (step1_padodd_idx _ [] a), (step1_padodd_idx _ [] b), (step1_padodd_idx _ [] c).
    rewrite <- (padodd_axis a _ eq_refl), <- (padodd_axis b _ eq_refl), <- (padodd_axis c _ eq_refl).
    destruct (Z.odd (cur a)), (Z.odd (cur b)), (Z.odd (cur c)); cbn [padvec combine fold_left fst snd set_nth repeat apply_reflect];
      repeat (match goal with |- context [if ?c then _ else _] => destruct c end; cbn [all3]; try reflexivity).
Qed.

Lemma run_decomp2 p : Forall (canonical 2) p -> forall a b, run p [a; b] = both2 (run1 p a) (run1 p b).
Proof.
  induction 1 as [|o p Ho Hp IH]; intros a b; [reflexivity|]. cbn [run run1]. rewrite step_decomp2 by exact Ho.
  destruct (step1 o a) as [a'|], (step1 o b) as [b'|]; cbn [both2]; try reflexivity; [apply IH|]. destruct (run1 p a'); reflexivity.
Qed.
Lemma run_decomp3 p : Forall (canonical 3) p -> forall a b c, run p [a; b; c] = all3 (run1 p a) (run1 p b) (run1 p c).
Proof.
  induction 1 as [|o p Ho Hp IH]; intros a b c; [reflexivity|]. cbn [run run1]. rewrite step_decomp3 by exact Ho.
  destruct (step1 o a) as [a'|], (step1 o b) as [b'|], (step1 o c) as [c'|]; cbn [all3]; try reflexivity; [apply IH| | |].
  - destruct (run1 p a'), (run1 p b'); reflexivity.
  - destruct (run1 p a'); reflexivity.
  - destruct (run1 p a'); reflexivity.
Qed.

Lemma Forall_rep {A} (P : A -> Prop) n l : Forall P l -> Forall P (rep n l).
Proof. intros H. induction n as [|n IH]; cbn [rep]; [constructor|]. apply Forall_app. split; assumption. Qed.

Ltac canon := repeat (apply Forall_app; split); try apply Forall_rep; repeat (apply Forall_app; split); repeat constructor.

Lemma canon_unet k L : Forall (canonical k) (unet_prog (map (fun j => (2 * j + 1)%nat) (seq 0 k)) L).
Proof. unfold unet_prog, unet_down, unet_up, convblock. canon. Qed.
Lemma canon_mwcnn sc : Forall (canonical 2) (mwcnn_prog [1; 3]%nat sc).
Proof. unfold mwcnn_prog. destruct sc as [|[|k]]; unfold mw_first, mw_mid, mw_last, mw_upstep, mw_block, mw_up; cbn [Nat.eqb]; canon. Qed.
Lemma canon_didn D R : Forall (canonical 2) (didn_prog [1; 3]%nat D R).
Proof. unfold didn_prog, dub_prog, subpixel. canon. Qed.

(* ------------------------------------------------------------------ the 2-D / 3-D statements *)
Theorem unet2d_shape L h w : 2 ^ Z.of_nat (Nat.max L 1) <= h -> 2 ^ Z.of_nat (Nat.max L 1) <= w ->
  out_dims (unet_prog [1; 3]%nat L) [w; h] = Some [w; h].
Proof.
  intros Hh Hw. unfold out_dims, start. cbn [map]. rewrite (run_decomp2 _ (canon_unet 2 L)).
  rewrite !unet1_shape by assumption. reflexivity.
Qed.

Theorem normunet2d_shape L h w : (L <= 4)%nat -> 1 <= h -> 1 <= w -> out_dims (normunet_prog [1; 3]%nat L) [w; h] = Some [w; h].
Proof.
  intros HL Hh Hw. unfold out_dims, start. cbn [map]. rewrite run_decomp2.
  - rewrite !normunet1_shape by assumption. reflexivity.
  - unfold normunet_prog. apply Forall_app. split; [repeat constructor|]. apply Forall_app. split; [apply (canon_unet 2)|repeat constructor].
Qed.

Theorem mwcnn2d_shape sc h w : (1 <= sc)%nat -> 2 ^ Z.of_nat sc <= h -> 2 ^ Z.of_nat sc <= w -> out_dims (mwcnn_prog [1; 3]%nat sc) [w; h] = Some [w; h].
Proof.
  intros Hs Hh Hw. unfold out_dims, start. cbn [map]. rewrite (run_decomp2 _ (canon_mwcnn sc)).
  destruct (mwcnn1_shape [1; 3]%nat sc w [] Hs Hw) as [s1 ->]. destruct (mwcnn1_shape [1; 3]%nat sc h [] Hs Hh) as [s2 ->]. reflexivity.
Qed.

Theorem didn2d_shape D R h w : 3 <= h -> 3 <= w -> out_dims (didn_prog [1; 3]%nat D R) [w; h] = Some [w; h].
Proof.
  intros Hh Hw. unfold out_dims, start. cbn [map]. rewrite (run_decomp2 _ (canon_didn D R)). rewrite !didn1_shape by assumption. reflexivity.
Qed.

Theorem unet3d_shape L z h w : (1 <= L)%nat -> 1 <= z -> 1 <= h -> 1 <= w -> out_dims (unet3d_prog L) [w; h; z] = Some [w; h; z].
Proof.
  intros HL Hz Hh Hw. unfold out_dims, start. cbn [map]. rewrite run_decomp3.
  - rewrite !unet3d1_shape by assumption. reflexivity.
  - unfold unet3d_prog. apply Forall_app. split; [repeat constructor|]. apply Forall_app. split; [apply (canon_unet 3)|repeat constructor].
Qed.

Theorem normunet3d_shape L z h w : (1 <= L <= 4)%nat -> 1 <= z -> 1 <= h -> 1 <= w -> out_dims (normunet3d_prog L) [w; h; z] = Some [w; h; z].
Proof.
  intros HL Hz Hh Hw. unfold out_dims, start. cbn [map]. rewrite run_decomp3.
  - rewrite !normunet3d1_shape by assumption. reflexivity.
  - unfold normunet3d_prog, unet3d_prog. apply Forall_app. split; [repeat constructor|]. apply Forall_app. split; [|repeat constructor].
    apply Forall_app. split; [repeat constructor|]. apply Forall_app. split; [apply (canon_unet 3)|repeat constructor].
Qed.

(* with swapped padding indices the U-Net breaks on a non-square odd input: the index map matters *)
Example swapped_indices_break : out_dims (unet_prog [3; 1]%nat 2) [8; 7] = None /\ out_dims (unet_prog [1; 3]%nat 2) [8; 7] = Some [8; 7].
Proof. vm_compute. split; reflexivity. Qed.

(* ------------------------------------------------------------------ pad / body / slice back, for any padding arithmetic
   that pads n to P and whose slice recovers n (what the tie proves of the regenerated expressions) *)
Definition padded_prog (lo hi : Z -> Z) (start stop : Z -> Z -> Z) (body : list sop) : list sop :=
  [OPadBy lo hi] ++ body ++ [OPopSlice start stop].

Lemma padded1 lo hi start stop body n s i P :
  n + lo n + hi n = P -> run1 body (mk P (n :: s) i) = Some (mk P (n :: s) i) -> slice_len P (start n P) (stop n P) = n ->
  run1 (padded_prog lo hi start stop body) (mk n s i) = Some (mk n s i).
Proof.
  intros HP Hb Hs. unfold padded_prog. cbn [app run1]. unfold step1 at 1, step_local. cbn [cur stk inp]. rewrite HP.
  rewrite run1_app, Hb. cbn [run1]. unfold step1, step_local. cbn [cur stk inp]. rewrite Hs. reflexivity.
Qed.

Lemma canon_padded k lo hi start stop body : Forall (canonical k) body -> Forall (canonical k) (padded_prog lo hi start stop body).
Proof. intros H. unfold padded_prog. apply Forall_app. split; [repeat constructor|]. apply Forall_app. split; [exact H|repeat constructor]. Qed.

Section Padded.
Variables (lo hi : Z -> Z) (st sp : Z -> Z -> Z) (P : Z -> Z).
Hypothesis total : forall n, 1 <= n -> n + lo n + hi n = P n.
Hypothesis back : forall n, 1 <= n -> slice_len (P n) (st n (P n)) (sp n (P n)) = n.

Theorem padded_unet2d L h w : (forall n, 1 <= n -> 2 ^ Z.of_nat (Nat.max L 1) <= P n) -> 1 <= h -> 1 <= w ->
  out_dims (padded_prog lo hi st sp (unet_prog [1; 3]%nat L)) [w; h] = Some [w; h].
Proof.
  intros HP Hh Hw. unfold out_dims, start. cbn [map]. rewrite (run_decomp2 _ (canon_padded 2 _ _ _ _ _ (canon_unet 2 L))).
  rewrite (padded1 _ _ _ _ _ w _ _ _ (total w Hw)) by (try apply unet1_shape; try apply HP; try apply back; assumption).
  rewrite (padded1 _ _ _ _ _ h _ _ _ (total h Hh)) by (try apply unet1_shape; try apply HP; try apply back; assumption).
  reflexivity.
Qed.

Theorem padded_unet3d L z h w : (1 <= L)%nat -> (forall n, 1 <= n -> 2 ^ Z.of_nat L <= P n) -> 1 <= z -> 1 <= h -> 1 <= w ->
  out_dims (padded_prog lo hi st sp (unet_prog [1; 3; 5]%nat L)) [w; h; z] = Some [w; h; z].
Proof.
  intros HL HP Hz Hh Hw. unfold out_dims, start. cbn [map]. rewrite (run_decomp3 _ (canon_padded 3 _ _ _ _ _ (canon_unet 3 L))).
  assert (E : Nat.max L 1 = L) by lia.
  rewrite (padded1 _ _ _ _ _ w _ _ _ (total w Hw)) by (try (apply unet1_shape; rewrite E); try apply HP; try apply back; assumption).
  rewrite (padded1 _ _ _ _ _ h _ _ _ (total h Hh)) by (try (apply unet1_shape; rewrite E); try apply HP; try apply back; assumption).
  rewrite (padded1 _ _ _ _ _ z _ _ _ (total z Hz)) by (try (apply unet1_shape; rewrite E); try apply HP; try apply back; assumption).
  reflexivity.
Qed.
End Padded.
