(* C04 — lemmas: shape contract, termination of the guarded bisection, soundness of the rejection loop. *)
From DV Require Import Base.Tactics Model.C04.
Local Open Scope Z_scope.

(* ---------- the documented geometry broadcasts against (coil :: shape) ---------- *)
Lemma spec_shape_length dyn shape : length (spec_shape dyn shape) = S (length shape).
Proof. unfold spec_shape. cbn [length]. rewrite map_length, seq_length. reflexivity. Qed.

Lemma broadcasts_map (f : nat -> Z) (shape : list Z) : forall off,
  (forall i, (i < length shape)%nat -> f (off + i)%nat = 1 \/ f (off + i)%nat = nth i shape 0) ->
  broadcasts (map f (seq off (length shape))) shape = true.
Proof.
  induction shape as [|b s IH]; intros off H; [reflexivity|].
  cbn [length seq map broadcasts]. apply andb_true_iff. split.
  - specialize (H 0%nat ltac:(cbn; lia)). rewrite Nat.add_0_r in H. cbn [nth] in H. destruct H as [-> | ->]; lia.
  - apply IH. intros i Hi. specialize (H (S i) ltac:(cbn; lia)). cbn [nth] in H.
    replace (S off + i)%nat with (off + S i)%nat by lia. exact H.
Qed.

Theorem spec_shape_broadcasts dyn shape coil : broadcasts (spec_shape dyn shape) (coil :: shape) = true.
Proof.
  unfold spec_shape. cbn [broadcasts]. apply andb_true_iff. split; [reflexivity|].
  apply (broadcasts_map _ shape 0). intros i Hi. cbn [Nat.add].
  destruct (Nat.eqb i (length shape - 2) || Nat.eqb i (length shape - 3) || (dyn && Nat.eqb i (length shape - 4)))%bool; [right|left]; reflexivity.
Qed.

(* ---------- bisection ---------- *)
Section Bisect.
Variable mid : Z -> Z -> Z.
Variable verdict : Z -> option bool.
Hypothesis mid_between : forall lo hi, lo < hi -> lo <= mid lo hi <= hi.

(* with the stall guard every trip strictly shrinks the interval, whatever the verdicts are *)
Lemma safe_body_shrinks lo hi lo' hi' : lo < hi ->
  body mid verdict safe_bisect lo hi lo = Some (lo', hi') -> lo <= lo' /\ hi' <= hi /\ hi' - lo' < hi - lo.
Proof.
  intros Hlt. unfold safe_bisect. cbn [body].
  pose proof (mid_between lo hi Hlt) as Hm.
  destruct ((mid lo hi =? lo) || (mid lo hi =? hi)) eqn:E; [discriminate|].
  apply orb_false_iff in E. destruct E as [E1 E2]. apply Z.eqb_neq in E1, E2.
  destruct (verdict (mid lo hi)) as [[|]|]; intros H; inversion H; subst; try lia.
Qed.

Theorem safe_bisect_terminates : forall fuel lo hi, Z.max 0 (hi - lo) < Z.of_nat fuel ->
  bisect mid verdict fuel safe_bisect lo hi <> OutOfFuel.
Proof.
  induction fuel as [|f IH]; intros lo hi Hf; [lia|].
  cbn [bisect]. destruct (lo <? hi) eqn:E; [|discriminate].
  apply Z.ltb_lt in E.
  destruct (body mid verdict safe_bisect lo hi lo) as [[lo' hi']|] eqn:B; [|discriminate].
  destruct (safe_body_shrinks lo hi lo' hi' E B) as (H1 & H2 & H3).
  apply IH. lia.
Qed.
End Bisect.

(* without the guard: when the midpoint rounds onto the lower bound and the verdict says "raise the lower bound", the
   state is a fixed point and the loop never ends *)
Theorem unguarded_bisect_can_stall : exists mid verdict lo hi,
  (forall a b, a < b -> a <= mid a b <= b) /\ forall fuel, bisect mid verdict fuel unguarded_bisect lo hi = OutOfFuel.
Proof.
  exists (fun a b => a), (fun _ => Some true), 0, 1. split; [intros; lia|].
  induction fuel as [|f IH]; [reflexivity|]. cbn [bisect unguarded_bisect body Z.ltb Z.compare]. exact IH.
Qed.

(* ---------- rejection loop: what it returns when it returns ---------- *)
Lemma reject_sound : forall stream n mask need mask',
  reject stream n mask need = Some mask' ->
  length mask' = (length mask + need)%nat /\ (forall x, In x mask -> In x mask') /\
  (forall x, In x mask' -> In x mask \/ (0 <= x < n)) /\ (NoDup mask -> NoDup mask').
Proof.
  induction stream as [|x rest IH]; intros n mask need mask' H.
  - destruct need; cbn in H; [|discriminate]. inversion H; subst. repeat split; auto; lia.
  - destruct need as [|k]; cbn [reject] in H.
    + inversion H; subst. repeat split; auto; lia.
    + destruct ((0 <=? x) && (x <? n) && negb (existsb (Z.eqb x) mask)) eqn:E.
      * apply andb_true_iff in E. destruct E as [E1 E3]. apply andb_true_iff in E1. destruct E1 as [E1 E2].
        destruct (IH n (x :: mask) k mask' H) as (L & Sub & Rng & ND).
        split; [cbn [length] in L; lia|]. split; [intros y Hy; apply Sub; right; exact Hy|]. split.
        { intros y Hy. destruct (Rng y Hy) as [[->|Hin]|Hr]; [right; lia|left; exact Hin|right; exact Hr]. }
        { intros Hnd. apply ND. constructor; [|exact Hnd]. intros Hin.
          apply negb_true_iff in E3. assert (existsb (Z.eqb x) mask = true) by (apply existsb_exists; exists x; split; [exact Hin|apply Z.eqb_refl]). congruence. }
      * apply (IH n mask (S k) mask' H).
Qed.

(* ---------- negative-index list updates ---------- *)
From DV Require Import Base.Rot Base.ListAux.
Lemma set_neg_length k v l : (1 <= k)%nat -> length (set_neg k v l) = length l.
Proof.
  intros Hk. unfold set_neg. destruct (k <=? length l)%nat eqn:E; [|reflexivity].
  apply Nat.leb_le in E. rewrite app_length, firstn_length. cbn [length]. rewrite skipn_length. lia.
Qed.

Lemma nth_set_neg k v l i : (1 <= k <= length l)%nat -> (i < length l)%nat ->
  nth i (set_neg k v l) 0 = if Nat.eqb i (length l - k) then v else nth i l 0.
Proof.
  intros Hk Hi. unfold set_neg. replace (k <=? length l)%nat with true by (symmetry; apply Nat.leb_le; lia).
  set (p := (length l - k)%nat).
  destruct (Nat.eqb i p) eqn:E.
  - apply Nat.eqb_eq in E. subst i. rewrite app_nth2 by (rewrite firstn_length; lia).
    rewrite firstn_length. replace (p - Nat.min p (length l))%nat with 0%nat by lia. reflexivity.
  - apply Nat.eqb_neq in E. destruct (Nat.lt_ge_cases i p) as [Hlt|Hge].
    + rewrite app_nth1 by (rewrite firstn_length; lia). apply nth_firstn. exact Hlt.
    + rewrite app_nth2 by (rewrite firstn_length; lia). rewrite firstn_length.
      replace (i - Nat.min p (length l))%nat with (S (i - S p)) by lia. cbn [nth].
      rewrite nth_skipn. f_equal. lia.
Qed.

Lemma nth_map_const (l : list Z) i : (i < length l)%nat -> nth i (map (fun _ => 1) l) 0 = 1.
Proof. revert i. induction l as [|x xs IH]; intros i H; [cbn in H; lia|]. destruct i; [reflexivity|]. cbn. apply IH. cbn in H. lia. Qed.

Lemma nth_spec_body dyn (shape : list Z) i : (i < length shape)%nat ->
  nth i (map (fun i => if (Nat.eqb i (length shape - 2) || Nat.eqb i (length shape - 3) || (dyn && Nat.eqb i (length shape - 4)))%bool then nth i shape 0 else 1) (seq 0 (length shape))) 0
  = if (Nat.eqb i (length shape - 2) || Nat.eqb i (length shape - 3) || (dyn && Nat.eqb i (length shape - 4)))%bool then nth i shape 0 else 1.
Proof.
  intros H. rewrite (nth_map' _ _ i 0 0%nat) by (rewrite seq_length; exact H). rewrite seq_nth by exact H. reflexivity.
Qed.
