(* C14 — the statement-level body (buffer of volume_size slots, slice assignment) refines the append-style state machine
   of Model/C14.v, for which the property theorems are proved. *)
From DV Require Import Base.Tactics Model.C14 Model.C14_skel.

Section Refine.
Variables (Name I Out : Type).
Variable name_eqb : Name -> Name -> bool.
Hypothesis name_eqb_spec : forall a b, name_eqb a b = true <-> a = b.
Variable f : I -> Out.
Variable vsize : Name -> nat.

Notation st := (C14.st Name Out).
Notation zst := (C14_skel.zst Name Out).

Lemma eqb_refl a : name_eqb a a = true.
Proof. apply name_eqb_spec. reflexivity. Qed.

(* the buffer holds the slices written so far, then empty slots *)
Definition filled (w : list Out) (v : nat) : list (option Out) := map Some w ++ repeat None (v - length w).

Definition R (z : zst) (s : st) : Prop :=
  zlast Name Out z = last s /\ zcounter Name Out z = counter s /\ zvsz Name Out z = vsz s /\
  match buf s with
  | None => zbuf Name Out z = None /\ counter s = 0
  | Some w => zbuf Name Out z = Some (filled w (vsz s)) /\ counter s = length w /\ length w <= vsz s
  end.

Lemma R0 : R (zst0 Name Out) (st0 Name Out).
Proof. unfold R. cbn. repeat split. Qed.

Lemma filled_length w v : length w <= v -> length (filled w v) = v.
Proof. intros H. unfold filled. rewrite app_length, map_length, repeat_length. lia. Qed.

Lemma write_filled w v outs : length w + length outs <= v ->
  firstn (length w) (filled w v) ++ map Some outs ++ skipn (length w + length outs) (filled w v) = filled (w ++ outs) v.
Proof.
  intros H. unfold filled.
  rewrite firstn_app. rewrite map_length. replace (length w - length w) with 0 by lia. cbn [firstn]. rewrite app_nil_r.
  rewrite firstn_all2 by (rewrite map_length; lia).
  rewrite skipn_app. rewrite map_length. rewrite skipn_all2 by (rewrite map_length; lia). cbn [app].
  replace (length w + length outs - length w) with (length outs) by lia.
  assert (E : skipn (length outs) (repeat (@None Out) (v - length w)) = repeat None (v - length (w ++ outs))).
  { rewrite app_length, Nat.sub_add_distr. generalize (v - length w) as k. generalize (length outs) as n.
    induction n as [|n IH]; intros k; [rewrite Nat.sub_0_r; reflexivity|]. destruct k as [|k]; [reflexivity|].
    cbn [repeat skipn]. rewrite IH. f_equal. }
  rewrite E, map_app, <- app_assoc. reflexivity.
Qed.

Definition lift (ys : list (Name * list Out)) : list (Name * list (option Out)) := map (fun y => (fst y, map Some (snd y))) ys.

Lemma filled_full w v : length w = v -> filled w v = map Some w.
Proof. intros <-. unfold filled. rewrite Nat.sub_diag. cbn [repeat]. apply app_nil_r. Qed.

(* write the batch, advance the counter, yield when the volume is complete *)
Definition tail : list sstmt := [SWriteSlice; SAddCounter; SIf CCounterEqVsz [SYield]].
Lemma tail_spec zl w v fname outs : length w <= v ->
  exec Name Out name_eqb vsize 2 tail fname outs {| zlast := zl; zbuf := Some (filled w v); zcounter := length w; zvsz := v |} []
  = if v <? length w + length outs then None
    else Some ({| zlast := zl; zbuf := Some (filled (w ++ outs) v); zcounter := length w + length outs; zvsz := v |},
               if length w + length outs =? v then [(fname, map Some (w ++ outs))] else []).
Proof.
  intros Hlen. unfold tail. cbn [exec exec1 zbuf zcounter zvsz zlast]. rewrite filled_length by exact Hlen.
  destruct (Nat.leb_spec (length w + length outs) v) as [Hfit|Hfit].
  - replace (v <? length w + length outs) with false by (symmetry; apply Nat.ltb_ge; exact Hfit).
    rewrite write_filled by exact Hfit. cbn [holds zcounter zvsz exec exec1 zbuf zlast].
    destruct (Nat.eqb_spec (length w + length outs) v) as [Eq|Ne]; [|reflexivity].
    cbn [app]. rewrite (filled_full (w ++ outs) v) by (rewrite app_length; exact Eq). reflexivity.
  - replace (v <? length w + length outs) with true by (symmetry; apply Nat.ltb_lt; exact Hfit). reflexivity.
Qed.

Lemma exec_app l1 l2 fname outs s ys :
  exec Name Out name_eqb vsize 2 (l1 ++ l2) fname outs s ys
  = match exec Name Out name_eqb vsize 2 l1 fname outs s ys with Some (s', ys') => exec Name Out name_eqb vsize 2 l2 fname outs s' ys' | None => None end.
Proof. revert s ys. induction l1 as [|x r IH]; intros s ys; cbn [app exec]; [reflexivity|]. destruct (exec1 _ _ _ _ _ _ _ _ _ _) as [[s' ys']|]; [apply IH|reflexivity]. Qed.

Definition head : list sstmt :=
  [SIf CLastIsNone [SSetLastFile]; SIf CLastNeqFile [SResetVolume; SResetCounter; SSetLastFile]; SIf CBufIsNone [SSetVsz; SAllocBuf]].
Lemma spec_body_split : spec_body = head ++ tail.
Proof. reflexivity. Qed.

(* after the three guards the buffer of the current volume is in place *)
Lemma head_spec z s fname outs : R z s ->
  let last1 := match last s with None => fname | Some l => l end in
  let changed := negb (name_eqb last1 fname) in
  let w := match (if changed then None else buf s) with Some w => w | None => [] end in
  let v := match (if changed then None else buf s) with Some _ => vsz s | None => vsize fname end in
  exec Name Out name_eqb vsize 2 head fname outs z []
  = Some ({| zlast := Some fname; zbuf := Some (filled w v); zcounter := length w; zvsz := v |}, [])
  /\ length w <= v /\ (if changed then 0 else counter s) = length w.
Proof.
  intros (Hl & Hc & Hv & Hb). destruct z as [zl zb zc zv]. destruct s as [sl sb scn sv].
  cbn [zlast zbuf zcounter zvsz last buf counter vsz] in *. subst zl zc zv. unfold head.
  destruct sl as [l|]; cbn [exec exec1 holds zlast zbuf zcounter zvsz].
  - destruct (name_eqb l fname) eqn:E; cbn [negb exec exec1 holds zlast zbuf zcounter zvsz].
    + apply name_eqb_spec in E. subst l.
      destruct sb as [w|]; [destruct Hb as (Hzb & Hcn & Hlen)|destruct Hb as (Hzb & Hcn)]; subst zb scn; cbn [holds zbuf exec exec1 zlast zcounter zvsz length].
      * repeat split; try reflexivity; exact Hlen.
      * unfold filled. cbn [map length app Nat.sub]. rewrite Nat.sub_0_r. repeat split; try reflexivity; lia.
    + unfold filled. cbn [map length app Nat.sub]. rewrite Nat.sub_0_r. repeat split; try reflexivity; lia.
  - rewrite eqb_refl. cbn [negb exec exec1 holds zlast zbuf zcounter zvsz].
    destruct sb as [w|]; [destruct Hb as (Hzb & Hcn & Hlen)|destruct Hb as (Hzb & Hcn)]; subst zb scn; cbn [holds zbuf exec exec1 zlast zcounter zvsz length].
    + repeat split; try reflexivity; exact Hlen.
    + unfold filled. cbn [map length app Nat.sub]. rewrite Nat.sub_0_r. repeat split; try reflexivity; lia.
Qed.

(* one loop iteration *)
Theorem step_refines z s fname items :
  R z s ->
  match C14.step Name I Out name_eqb f vsize s (fname, items) with
  | Some (s', ys) => exists z', exec Name Out name_eqb vsize 2 spec_body fname (map f items) z [] = Some (z', lift ys) /\ R z' s'
  | None => exec Name Out name_eqb vsize 2 spec_body fname (map f items) z [] = None
  end.
Proof.
  intros HR. destruct (head_spec z s fname (map f items) HR) as (Hh & Hlen & Hcnt).
  rewrite spec_body_split, exec_app, Hh. rewrite tail_spec by exact Hlen.
  unfold C14.step.
  set (last1 := match last s with None => fname | Some l => l end) in *.
  set (changed := negb (name_eqb last1 fname)) in *.
  set (b1 := if changed then None else buf s) in *.
  rewrite Hcnt.
  set (v := match b1 with Some _ => vsz s | None => vsize fname end) in *.
  set (w := match b1 with Some w => w | None => [] end) in *.
  set (outs := map f items) in *.
  destruct (v <? length w + length outs) eqn:Efit; [reflexivity|].
  apply Nat.ltb_ge in Efit.
  eexists. split.
  - f_equal. f_equal. destruct (length w + length outs =? v); reflexivity.
  - unfold R. cbn [zlast zbuf zcounter zvsz last buf counter vsz]. rewrite app_length. repeat split; lia.
Qed.

(* the whole loop *)
Theorem run_refines : forall batches z s, R z s ->
  match C14.run Name I Out name_eqb f vsize s batches with
  | Some (s', ys) => exists z', zrun Name Out name_eqb vsize spec_body z (map (fun b => (fst b, map f (snd b))) batches) = Some (z', lift ys) /\ R z' s'
  | None => zrun Name Out name_eqb vsize spec_body z (map (fun b => (fst b, map f (snd b))) batches) = None
  end.
Proof.
  induction batches as [|[fname items] t IH]; intros z s HR; cbn [C14.run zrun map fst snd].
  - exists z. split; [reflexivity|exact HR].
  - pose proof (step_refines z s fname items HR) as Hs.
    destruct (C14.step Name I Out name_eqb f vsize s (fname, items)) as [[s' ys]|].
    + destruct Hs as (z' & He & HR'). rewrite He. specialize (IH z' s' HR').
      destruct (C14.run Name I Out name_eqb f vsize s' t) as [[s'' ys']|].
      * destruct IH as (z'' & Hz & HR''). rewrite Hz. exists z''. split; [unfold lift; rewrite map_app; reflexivity|exact HR''].
      * rewrite IH. reflexivity.
    + rewrite Hs. reflexivity.
Qed.

(* what the statement-level loop yields is what the state machine yields: complete buffers *)
Corollary reconstruct_refines batches ys :
  C14.reconstruct Name I Out name_eqb f vsize batches = Some ys ->
  option_map snd (zrun Name Out name_eqb vsize spec_body (zst0 Name Out) (map (fun b => (fst b, map f (snd b))) batches)) = Some (lift ys).
Proof.
  unfold C14.reconstruct. intros H. pose proof (run_refines batches (zst0 Name Out) (st0 Name Out) R0) as Hr.
  destruct (C14.run Name I Out name_eqb f vsize (st0 Name Out) batches) as [[s' ys']|]; [|discriminate].
  cbn [option_map snd] in H. inversion H; subst. destruct Hr as (z' & Hz & _). rewrite Hz. reflexivity.
Qed.
(* a body whose single iteration is the same state transformer as that of the reference body runs the same loop *)
Lemma zrun_f_ext fuel body :
  (forall fname outs z, exec Name Out name_eqb vsize fuel body fname outs z [] = exec Name Out name_eqb vsize 2 spec_body fname outs z []) ->
  forall batches z, zrun_f Name Out name_eqb vsize fuel body z batches = zrun Name Out name_eqb vsize spec_body z batches.
Proof.
  intros Hb. induction batches as [|[fname outs] t IH]; intros z; cbn [zrun zrun_f]; [reflexivity|].
  rewrite Hb. destruct (exec Name Out name_eqb vsize 2 spec_body fname outs z []) as [[s' ys]|]; [|reflexivity].
  rewrite IH. reflexivity.
Qed.
End Refine.
