(* C12 — lemmas about the dataset index model. *)
From DV Require Import Base.Tactics Base.ListAux Model.C12.

(* ---------- parse_filenames_data ---------- *)
Definition total_adm flt (files : list nat) : nat := fold_right (fun n acc => length (admissible flt n) + acc) 0 files.

Lemma parse_from_data_length cur k files flt : length (fst (parse_from cur k files flt)) = total_adm flt files.
Proof.
  revert cur k. induction files as [|n t IH]; intros cur k; [reflexivity|].
  cbn [parse_from total_adm fold_right].
  specialize (IH (cur + length (admissible flt n)) (S k)).
  destruct (parse_from (cur + length (admissible flt n)) (S k) t flt) as [d r].
  cbn [fst] in *. rewrite app_length, map_length, IH. reflexivity.
Qed.

Lemma parse_from_ranges_length cur k files flt : length (snd (parse_from cur k files flt)) = length files.
Proof.
  revert cur k. induction files as [|n t IH]; intros cur k; [reflexivity|].
  cbn [parse_from]. specialize (IH (cur + length (admissible flt n)) (S k)).
  destruct (parse_from (cur + length (admissible flt n)) (S k) t flt) as [d r]. cbn [snd length] in *. lia.
Qed.

(* ranges are contiguous, ordered, start at [cur] and end at [cur + number of items] *)
Fixpoint chained (cur : nat) (ranges : list (nat * nat)) (stop : nat) : Prop :=
  match ranges with
  | [] => cur = stop
  | (a, b) :: t => a = cur /\ a <= b /\ chained b t stop
  end.

Lemma parse_ranges_chained cur k files flt :
  chained cur (snd (parse_from cur k files flt)) (cur + length (fst (parse_from cur k files flt))).
Proof.
  revert cur k. induction files as [|n t IH]; intros cur k.
  - cbn. lia.
  - cbn [parse_from]. specialize (IH (cur + length (admissible flt n)) (S k)).
    destruct (parse_from (cur + length (admissible flt n)) (S k) t flt) as [d r].
    cbn [fst snd chained] in *. split; [reflexivity|]. split; [lia|].
    rewrite app_length, map_length. replace (cur + (length (admissible flt n) + length d)) with (cur + length (admissible flt n) + length d) by lia.
    exact IH.
Qed.

(* the items of the i-th range are exactly the admissible slices of the i-th file, in order *)
Lemma parse_item cur k files flt i a b n :
  nth_error (snd (parse_from cur k files flt)) i = Some (a, b) -> nth_error files i = Some n ->
  cur <= a /\ slice (a - cur) (b - a) (fst (parse_from cur k files flt)) = map (fun s => (k + i, s)) (admissible flt n).
Proof.
  revert cur k i. induction files as [|m t IH]; intros cur k i Hr Hf; [destruct i; discriminate|].
  cbn [parse_from] in *.
  specialize (IH (cur + length (admissible flt m)) (S k)).
  destruct (parse_from (cur + length (admissible flt m)) (S k) t flt) as [d r].
  cbn [fst snd] in *. destruct i as [|i].
  - cbn in Hr, Hf. inversion Hr as [[Ha Hb]]; inversion Hf as [Hn]; subst a b m. split; [lia|].
    rewrite Nat.sub_diag. replace (cur + length (admissible flt n) - cur) with (length (admissible flt n)) by lia.
    unfold slice. cbn [skipn]. rewrite firstn_app. rewrite map_length, Nat.sub_diag. cbn [firstn].
    rewrite app_nil_r. rewrite <- (map_length (fun s => (k, s))) at 1. rewrite firstn_all. rewrite Nat.add_0_r. reflexivity.
  - cbn [nth_error] in Hr, Hf. destruct (IH i Hr Hf) as [Hle Hs]. split; [lia|].
    unfold slice in *. rewrite skipn_app. rewrite map_length.
    rewrite (skipn_all2 (map _ (admissible flt m))) by (rewrite map_length; lia). cbn [app].
    replace (a - cur - length (admissible flt m)) with (a - (cur + length (admissible flt m))) by lia.
    rewrite Hs. replace (S k + i) with (k + S i) by lia. reflexivity.
Qed.

(* ---------- context window ---------- *)
Lemma map_seq_const {A} (f : nat -> A) v a len : (forall j, a <= j < a + len -> f j = v) -> map f (seq a len) = repeat v len.
Proof.
  revert a. induction len as [|len IH]; intros a H; [reflexivity|].
  cbn [seq map repeat]. rewrite H by lia. f_equal. apply IH. intros j Hj. apply H. lia.
Qed.

Lemma map_seq_some (f : nat -> option nat) a a' len : (forall j, a <= j < a + len -> f j = Some (j - a + a')) ->
  map f (seq a len) = map Some (seq a' len).
Proof.
  revert a a'. induction len as [|len IH]; intros a a' H; [reflexivity|].
  cbn [seq map]. rewrite H by lia. replace (a - a + a') with a' by lia. f_equal.
  apply IH. intros j Hj. rewrite H by lia. f_equal. lia.
Qed.

Lemma window_decomp c s n : s < n ->
  window_spec c s n = repeat None (c - s) ++ map Some (seq (s - c) (Nat.min (s + c + 1) n - (s - c))) ++ repeat None (s + c + 1 - n).
Proof.
  intros Hs. unfold window_spec.
  set (f := fun j => if (c <=? s + j) && (s + j <? n + c) then Some (s + j - c) else None).
  set (pre := c - s). set (mid := Nat.min (s + c + 1) n - (s - c)). set (post := s + c + 1 - n).
  replace (2 * c + 1) with (pre + (mid + post)) by (unfold pre, mid, post; lia).
  rewrite seq_app, map_app. rewrite (seq_app mid post), map_app. cbn [Nat.add].
  f_equal; [|f_equal].
  - apply map_seq_const. intros j Hj. unfold f.
    replace (c <=? s + j) with false; [reflexivity|]. symmetry. apply Nat.leb_gt. unfold pre in *. lia.
  - apply map_seq_some. intros j Hj. unfold f.
    replace (c <=? s + j) with true by (symmetry; apply Nat.leb_le; unfold pre, mid in *; lia).
    replace (s + j <? n + c) with true by (symmetry; apply Nat.ltb_lt; unfold pre, mid in *; lia).
    cbn [andb]. f_equal. unfold pre in *. lia.
  - apply map_seq_const. intros j Hj. unfold f.
    replace (s + j <? n + c) with false; [rewrite andb_false_r; reflexivity|]. symmetry. apply Nat.ltb_ge. unfold pre, mid, post in *. lia.
Qed.

Lemma window_spec_length c s n : length (window_spec c s n) = 2 * c + 1.
Proof. unfold window_spec. rewrite map_length, seq_length. reflexivity. Qed.

Lemma nth_map_seq {A} (f : nat -> A) a len j d : j < len -> nth j (map f (seq a len)) d = f (a + j).
Proof.
  revert a j. induction len as [|len IH]; intros a j H; [lia|].
  destruct j as [|j]; cbn [seq map nth]; [rewrite Nat.add_0_r; reflexivity|].
  rewrite IH by lia. f_equal. lia.
Qed.

Lemma window_spec_nth c s n j : j < 2 * c + 1 ->
  nth j (window_spec c s n) None = if (c <=? s + j) && (s + j <? n + c) then Some (s + j - c) else None.
Proof. intros Hj. unfold window_spec. rewrite nth_map_seq by exact Hj. reflexivity. Qed.

(* ---------- ConcatDataset: bisect on the cumulative sizes ---------- *)
Lemma cumsum_from_length acc sizes : length (cumsum_from acc sizes) = length sizes.
Proof. revert acc. induction sizes as [|n t IH]; intros acc; [reflexivity|]. cbn. rewrite IH. reflexivity. Qed.

Definition prev_cum (acc : nat) (cum : list nat) (j : nat) : nat := match j with 0 => acc | S i => nth i cum 0 end.

Lemma concat_locate acc sizes x : acc <= x < acc + fold_right Nat.add 0 sizes ->
  let cum := cumsum_from acc sizes in
  let j := bisect_right cum x in
  j < length sizes /\ prev_cum acc cum j <= x < nth j cum 0 /\ x - prev_cum acc cum j < nth j sizes 0.
Proof.
  revert acc. induction sizes as [|n t IH]; intros acc Hx; [cbn in Hx; lia|].
  cbn [cumsum_from bisect_right fold_right] in *.
  destruct (acc + n <=? x) eqn:E.
  - apply Nat.leb_le in E. specialize (IH (acc + n) ltac:(lia)). cbn zeta in IH.
    destruct IH as (Hj & Hb & Hs). cbn [length nth prev_cum]. split; [lia|].
    destruct (bisect_right (cumsum_from (acc + n) t) x) as [|i] eqn:Eb; cbn [prev_cum nth] in *; (split; [lia|exact Hs]).
  - apply Nat.leb_gt in E. cbn [length nth prev_cum]. lia.
Qed.
