(* C18 — lemmas: a row-wise operation on the (b, groups, -1) view of a batch is the per-sample operation mapped over the
   batch; hence a sample's output does not depend on its companions. *)
From DV Require Import Base.Tactics Base.ListAux Model.C18.

Section Rows.
Context {A St : Type}.

Lemma chunk_fuel_app : forall g fuel fuel' fuel'' m (s r : list A), 0 < m -> length s = g * m ->
  length (s ++ r) <= fuel -> length s <= fuel' -> length r <= fuel'' ->
  chunk_fuel fuel m (s ++ r) = chunk_fuel fuel' m s ++ chunk_fuel fuel'' m r.
Proof.
  induction g as [|g IH]; intros fuel fuel' fuel'' m s r Hm Hs Hf Hf' Hf''.
  - destruct s; [|cbn in Hs; lia]. cbn [app]. destruct fuel'; cbn [chunk_fuel app]; apply chunk_fuel_more; cbn [app length] in *; lia.
  - assert (Hl : m <= length s) by lia.
    destruct fuel as [|f]; [rewrite app_length in Hf; lia|]. destruct fuel' as [|f']; [lia|].
    destruct s as [|x xs]; [cbn in Hs; lia|].
    cbn [app chunk_fuel]. change (x :: xs ++ r) with ((x :: xs) ++ r).
    rewrite firstn_app, skipn_app. replace (m - length (x :: xs)) with 0 by lia. cbn [firstn skipn]. rewrite app_nil_r.
    cbn [app]. f_equal. apply (IH f f' fuel'' m (skipn m (x :: xs)) r Hm).
    + rewrite skipn_length. lia.
    + rewrite app_length, skipn_length. rewrite app_length in Hf. lia.
    + rewrite skipn_length. lia.
    + exact Hf''.
Qed.

Lemma combine_app' {X Y} (a a' : list X) (b b' : list Y) : length a = length b -> combine (a ++ a') (b ++ b') = combine a b ++ combine a' b'.
Proof.
  revert b. induction a as [|x a IH]; intros b H; destruct b as [|y b]; cbn in H; try lia; [reflexivity|].
  cbn [app combine]. f_equal. apply IH. lia.
Qed.

Lemma chunk_list_app g m (s r : list A) : 0 < m -> length s = g * m -> chunk_list m (s ++ r) = chunk_list m s ++ chunk_list m r.
Proof. intros Hm Hs. unfold chunk_list. apply (chunk_fuel_app g); auto. Qed.

Theorem batched_is_map (gn : list A -> list A) g m (samples : list (list A)) : 0 < m -> Forall (fun s => length s = g * m) samples ->
  batched gn m samples = concat (map (rows_op gn m) samples).
Proof.
  intros Hm H. unfold batched. induction H as [|s rest Hs Hr IH]; [reflexivity|].
  cbn [concat map]. unfold rows_op at 1. rewrite (chunk_list_app g) by assumption. rewrite map_app, concat_app.
  fold (rows_op gn m s). fold (rows_op gn m (concat rest)). rewrite IH. reflexivity.
Qed.

Theorem stats_are_per_sample (stat : list A -> St) g m (samples : list (list A)) : 0 < m -> Forall (fun s => length s = g * m) samples ->
  row_stats stat m (concat samples) = concat (map (row_stats stat m) samples).
Proof.
  intros Hm H. unfold row_stats. induction H as [|s rest Hs Hr IH]; [reflexivity|].
  cbn [concat map]. rewrite (chunk_list_app g) by assumption. rewrite map_app, IH. reflexivity.
Qed.

Lemma chunk_fuel_length : forall g fuel m (s : list A), 0 < m -> length s = g * m -> length s <= fuel -> length (chunk_fuel fuel m s) = g.
Proof.
  induction g as [|g IH]; intros fuel m s Hm Hs Hf.
  - destruct s; [|cbn in Hs; lia]. destruct fuel; reflexivity.
  - destruct fuel as [|f]; [lia|]. destruct s as [|x xs] eqn:E; [cbn in Hs; lia|]. rewrite <- E in *. cbn [chunk_fuel].
    rewrite E at 1. cbn [length]. f_equal. apply IH; [exact Hm| |]; rewrite skipn_length; lia.
Qed.

Theorem unnorm_is_map (stat : list A -> St) (un : St -> list A -> list A) g m (samples : list (list A)) : 0 < m -> Forall (fun s => length s = g * m) samples ->
  rows_un un m (row_stats stat m (concat samples)) (concat samples)
  = concat (map (fun s => rows_un un m (row_stats stat m s) s) samples).
Proof.
  intros Hm H. unfold rows_un, row_stats. induction H as [|s rest Hs Hr IH]; [reflexivity|].
  cbn [concat map]. rewrite (chunk_list_app g) by assumption. rewrite map_app.
  rewrite combine_app' by (rewrite map_length; reflexivity). rewrite map_app, concat_app, IH. reflexivity.
Qed.

(* what one sample gets back does not depend on the other samples of the batch *)
Theorem sample_independent_of_companions (gn : list A -> list A) g m (before before' after after' : list (list A)) (s : list A) :
  0 < m -> length s = g * m -> Forall (fun t => length t = g * m) before -> Forall (fun t => length t = g * m) before' ->
  Forall (fun t => length t = g * m) after -> Forall (fun t => length t = g * m) after' ->
  exists pre pre' post post',
    batched gn m (before ++ s :: after) = pre ++ rows_op gn m s ++ post /\
    batched gn m (before' ++ s :: after') = pre' ++ rows_op gn m s ++ post'.
Proof.
  intros Hm Hs Hb Hb' Ha Ha'.
  exists (concat (map (rows_op gn m) before)), (concat (map (rows_op gn m) before')), (concat (map (rows_op gn m) after)), (concat (map (rows_op gn m) after')).
  split.
  - rewrite (batched_is_map gn g); [|exact Hm|apply Forall_app; split; [assumption|constructor; assumption]].
    rewrite map_app, concat_app. reflexivity.
  - rewrite (batched_is_map gn g); [|exact Hm|apply Forall_app; split; [assumption|constructor; assumption]].
    rewrite map_app, concat_app. reflexivity.
Qed.
End Rows.
