(* C16 — the training-loop body as a small IR with a fixed semantics (hand-written; no proofs here).
   Parameters W, gradients G, the per-batch gradient function, the optimiser and the clip are abstract:
   every statement holds for any model, data, optimiser and schedule. *)
From DV Require Import Base.Tactics.

Inductive op : Type :=
  | Backward                       (* _do_iteration: loss.backward() adds the batch gradient at the current parameters *)
  | DivGrad                        (* parameter.grad.div_(gradient_steps) *)
  | Unscale                        (* scaler.unscale_ (identity without mixed precision) *)
  | Clip                           (* clip_grad_norm_ *)
  | OptStep                        (* scaler.step(optimizer) *)
  | ScalerUpdate
  | SchedStep                      (* lr_scheduler.step() *)
  | ZeroGrad                       (* optimizer.zero_grad() *)
  | IfStepDue (body : list op)     (* if (iter_idx + 1) % gradient_steps == 0 *)
  | IfKgt1 (body : list op)        (* if gradient_steps > 1 *)
  | IfClip (body : list op).       (* if gradient_clipping > 0 *)

Section Loop.
Variables (W G : Type).
Variable g : nat -> W -> G.          (* gradient of batch t at parameters w *)
Variable gzero : G.
Variable gadd : G -> G -> G.
Variable gdiv : nat -> G -> G.
Variable clip : G -> G.
Variable opt : W -> G -> nat -> W.   (* optimiser step with the learning rate of schedule epoch e *)
Variable step_due : nat -> nat -> bool.   (* regenerated from the source: (it + 1) mod k =? 0 *)

Record st := { params : W; grad : G; epoch : nat }.

Fixpoint exec_op (fuel : nat) (k : nat) (clipping : bool) (it : nat) (o : op) (s : st) : st :=
  match fuel with
  | 0 => s
  | S f =>
    let run := fix run (l : list op) (s : st) : st := match l with [] => s | o' :: t => run t (exec_op f k clipping it o' s) end in
    match o with
    | Backward => {| params := params s; grad := gadd (grad s) (g it (params s)); epoch := epoch s |}
    | DivGrad => {| params := params s; grad := gdiv k (grad s); epoch := epoch s |}
    | Unscale => s
    | Clip => {| params := params s; grad := clip (grad s); epoch := epoch s |}
    | OptStep => {| params := opt (params s) (grad s) (epoch s); grad := grad s; epoch := epoch s |}
    | ScalerUpdate => s
    | SchedStep => {| params := params s; grad := grad s; epoch := S (epoch s) |}
    | ZeroGrad => {| params := params s; grad := gzero; epoch := epoch s |}
    | IfStepDue body => if step_due it k then run body s else s
    | IfKgt1 body => if 1 <? k then run body s else s
    | IfClip body => if clipping then run body s else s
    end
  end.

Fixpoint exec_list (fuel k : nat) (clipping : bool) (it : nat) (l : list op) (s : st) : st :=
  match l with [] => s | o :: t => exec_list fuel k clipping it t (exec_op fuel k clipping it o s) end.

(* one training iteration: the backward pass (inside _do_iteration) followed by the loop body *)
Definition iteration (body : list op) (k : nat) (clipping : bool) (it : nat) (s : st) : st :=
  exec_list 8 k clipping it (Backward :: body) s.

Fixpoint run_from (body : list op) (k : nat) (clipping : bool) (it n : nat) (s : st) : st :=
  match n with 0 => s | S m => run_from body k clipping (S it) m (iteration body k clipping it s) end.

(* ---- the reference: what gradient accumulation means ---- *)
Definition post (k : nat) (clipping : bool) (acc : G) : G :=
  let d := if 1 <? k then gdiv k acc else acc in if clipping then clip d else d.
Definition ref_step (k : nat) (clipping : bool) (it : nat) (s : st) : st :=
  let acc := gadd (grad s) (g it (params s)) in
  if (S it) mod k =? 0
  then {| params := opt (params s) (post k clipping acc) (epoch s); grad := gzero; epoch := S (epoch s) |}
  else {| params := params s; grad := acc; epoch := S (epoch s) |}.
Fixpoint ref_run (k : nat) (clipping : bool) (it n : nat) (s : st) : st :=
  match n with 0 => s | S m => ref_run k clipping (S it) m (ref_step k clipping it s) end.

(* sum of the gradients of batches [a, a+len) at fixed parameters, accumulated left to right *)
Fixpoint acc_from (w : W) (a len : nat) (acc : G) : G :=
  match len with 0 => acc | S m => acc_from w (S a) m (gadd acc (g a w)) end.

(* one whole accumulation window, as a single update *)
Definition window_step (k : nat) (clipping : bool) (j : nat) (s : st) : st :=
  {| params := opt (params s) (post k clipping (acc_from (params s) (j * k) k gzero)) (epoch s + (k - 1));
     grad := gzero; epoch := epoch s + k |}.
Fixpoint ref_windows (k : nat) (clipping : bool) (j m : nat) (s : st) : st :=
  match m with 0 => s | S m' => ref_windows k clipping (S j) m' (window_step k clipping j s) end.
End Loop.

Arguments params {W G} s.
Arguments grad {W G} s.
Arguments epoch {W G} s.
