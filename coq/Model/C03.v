(* C03 — selection semantics of masking on flat tensors with broadcasting (hand-written; no proofs here).
   No arithmetic on values is involved: V is any type with a distinguished zero (IEEE values, ids, ...). *)
From DV Require Import Base.Tactics.

Section Select.
Variables (V MV : Type).
Variable zero : V.
Variable hit : MV -> bool.        (* apply_mask: mask == 0;  apply_padding: padding == 1 *)
Variable mdflt : MV.

(* bidx i = position in the (smaller) mask tensor that broadcasts to position i of the data *)
Definition where_hit (bidx : nat -> nat) (m : list MV) (t : list V) : list V :=
  map (fun iv : nat * V => if hit (nth (bidx (fst iv)) m mdflt) then zero else snd iv) (combine (seq 0 (length t)) t).
End Select.
