(* C08 — the transform pipeline as a list of stages over a sample (key -> value), with a symbolic executor.

   Every value of the sample is described by a term saying how it was obtained from the raw k-space; the homogeneity
   degree of a term (0: unchanged when the raw k-space is multiplied by c > 0; 1: multiplied by c) is computed from
   the term. The semantics of the individual operations (crop, Fourier transforms, coil compression, mask generation,
   sensitivity estimation, reconstruction, order statistics) is abstract: they enter through their homogeneity contracts
   (Proofs/C08.v), which are what the correspondence run validates stage by stage on the implementation. *)
From DV Require Import Base.Tactics.

Inductive key := Kspace | MaskedKspace | Target | SensMap | SamplingMask | AcsMask | Padding | ScalingFactor | BodyCoil | IsSSL | KOther
  | InputMask | TargetMask | InputMaskedKspace | TargetMaskedKspace | InputKspace.   (* self-supervised split *)
Definition key_idx (k : key) : nat :=
  match k with Kspace => 0 | MaskedKspace => 1 | Target => 2 | SensMap => 3 | SamplingMask => 4 | AcsMask => 5 | Padding => 6
             | ScalingFactor => 7 | BodyCoil => 8 | IsSSL => 9 | KOther => 10
             | InputMask => 11 | TargetMask => 12 | InputMaskedKspace => 13 | TargetMaskedKspace => 14 | InputKspace => 15 end.
Definition key_eqb (a b : key) : bool := Nat.eqb (key_idx a) (key_idx b).
Lemma key_eqb_eq a b : key_eqb a b = true <-> a = b.
Proof. unfold key_eqb. rewrite Nat.eqb_eq. split; [|intros ->; reflexivity]. destruct a, b; cbn; intros H; try reflexivity; discriminate. Qed.

(* normalize_key of ComputeScalingFactor: falsy (factor 1), "scaling_factor" (given in the sample), or a data key *)
Inductive skey := SKNone | SKGiven | SKData (k : key).

Inductive stage :=
| SLinear (name : nat) (keys : list key)      (* acts on each listed key that is present; homogeneous of degree 1 *)
| SZeroPadCompute (src dst : key)
| SZeroPadApply (src pad : key)
| SCreateMask (with_acs : bool)
| SBodyCoil (dst : key)
| SSens (src dst : key)
| SDelete (keys : list key)
| SApplyMask (mask src dst : key)
| SScaling (sk : skey) (percentile : bool) (dst : key)
| SNormalize (sf : key) (keys : list key)
| SImage (src dst : key) (needs_sens : bool)   (* SENSE-type reconstructions read the sensitivity map *)
| SFlag (dst : key)                            (* AddBooleanKeys *)
| SSplit (mask src acs : key)                  (* mask splitter: input / target masks from the sampling mask, both k-spaces *)
| SRename (pairs : list (key * key)).

(* how a value was obtained *)
Inductive tm :=
| TRaw (k : key)
| TLin (name : nat) (t : tm)
| TPadOf (t : tm)
| TPadApply (t p : tm)
| TMaskGen (acs : bool) (shape_of : tm) (pad : tm)
| TNoPad
| TBody (t acs : tm)
| TSens (t acs : tm)
| TMasked (m t : tm)
| TScale (percentile : bool) (t : tm)
| TOne (like : tm)
| TDiv (t s : tm)
| TImage (t : tm)
| TImageS (t s : tm)
| TSplit (target : bool) (m acs : tm)          (* one of the two masks the splitter draws from the sampling mask *)
| TConst.

Definition env := list (key * tm).
Fixpoint lookup (k : key) (e : env) : option tm :=
  match e with [] => None | (k', t) :: r => if key_eqb k k' then Some t else lookup k r end.
Fixpoint remove (k : key) (e : env) : env :=
  match e with [] => [] | (k', t) :: r => if key_eqb k k' then remove k r else (k', t) :: remove k r end.
Definition set (k : key) (t : tm) (e : env) : env := (k, t) :: remove k e.
Definition mem (k : key) (ks : list key) : bool := existsb (key_eqb k) ks.

(* apply f to the value of every present key of ks, in the order in which the keys sit in the sample *)
Definition map_keys (f : tm -> tm) (ks : list key) (e : env) : env :=
  map (fun kt => if mem (fst kt) ks then (fst kt, f (snd kt)) else kt) e.

Definition sym_step (s : stage) (e : env) : option env :=
  match s with
  | SLinear n ks => Some (map_keys (TLin n) ks e)
  | SZeroPadCompute src dst => match lookup src e with Some t => Some (set dst (TPadOf t) e) | None => None end
  | SZeroPadApply src pad => match lookup src e, lookup pad e with
                             | Some t, Some p => Some (set src (TPadApply t p) e)
                             | _, _ => None
                             end
  | SCreateMask acs => match lookup Kspace e with
                       | Some t => let e1 := set SamplingMask (TMaskGen false t (match lookup Padding e with Some p => p | None => TNoPad end)) e in
                                   Some (if acs then set AcsMask (TMaskGen true t TNoPad) e1 else e1)
                       | None => None
                       end
  | SBodyCoil dst => match lookup Kspace e with
                     | Some t => Some (set dst (TBody t (TMaskGen true t TNoPad)) e)
                     | None => None
                     end
  | SSens src dst => match lookup src e, lookup AcsMask e with
                     | Some t, Some a => Some (set dst (TSens t a) e)
                     | _, _ => None
                     end
  | SDelete ks => Some (fold_left (fun e' k => remove k e') ks e)    (* pipeline's DeleteKeys ignores absent keys *)
  | SApplyMask m src dst => match lookup m e, lookup src e with
                            | Some mt, Some t => Some (set dst (TMasked mt t) e)
                            | _, _ => None
                            end
  | SScaling sk pct dst => match sk with
                           | SKGiven => match lookup dst e with Some _ => Some e | None => None end
                           | SKNone => match lookup MaskedKspace e with Some t => Some (set dst (TOne t) e) | None => None end
                           | SKData k => match lookup k e with Some t => Some (set dst (TScale pct t) e) | None => None end
                           end
  | SNormalize sf ks => match lookup sf e with
                        | Some s => Some (map_keys (fun t => TDiv t s) ks e)
                        | None => Some e
                        end
  | SImage src dst false => match lookup src e with Some t => Some (set dst (TImage t) e) | None => None end
  | SImage src dst true => match lookup src e, lookup SensMap e with
                           | Some t, Some s => Some (set dst (TImageS t s) e)
                           | _, _ => None
                           end
  | SFlag dst => Some (set dst TConst e)
  | SSplit m src acs => match lookup m e, lookup src e with
                        | Some mt, Some t =>
                            let a := match lookup acs e with Some a' => a' | None => TNoPad end in
                            let mi := TSplit false mt a in
                            let mg := TSplit true mt a in
                            Some (set TargetMask mg (set InputMask mi (set TargetMaskedKspace (TMasked mg t) (set InputMaskedKspace (TMasked mi t) e))))
                        | _, _ => None
                        end
  | SRename pairs => fold_left (fun oe p => match oe with
                                            | Some e' => match lookup (fst p) e' with
                                                         | Some t => Some (set (snd p) t (remove (fst p) e'))
                                                         | None => None
                                                         end
                                            | None => None
                                            end) pairs (Some e)
  end.

Fixpoint sym_run (p : list stage) (e : env) : option env :=
  match p with [] => Some e | s :: r => match sym_step s e with Some e' => sym_run r e' | None => None end end.

(* homogeneity degree of a term in the raw k-space (None: not homogeneous of degree 0 or 1 by these rules) *)
Definition raw_deg (k : key) : nat := match k with Kspace | BodyCoil | MaskedKspace | Target => 1 | _ => 0 end.
Fixpoint tdeg (t : tm) : option nat :=
  match t with
  | TRaw k => Some (raw_deg k)
  | TLin _ t => tdeg t
  | TPadOf t => match tdeg t with Some _ => Some 0 | None => None end
  | TPadApply t p => match tdeg t, tdeg p with Some d, Some 0 => Some d | _, _ => None end
  | TMaskGen _ s p => match tdeg s, tdeg p with Some _, Some 0 => Some 0 | _, _ => None end
  | TNoPad => Some 0
  | TBody t a => match tdeg t, tdeg a with Some d, Some 0 => Some d | _, _ => None end
  | TSens t a => match tdeg t, tdeg a with Some _, Some 0 => Some 0 | _, _ => None end
  | TMasked m t => match tdeg m, tdeg t with Some 0, Some d => Some d | _, _ => None end
  | TScale _ t => tdeg t
  | TOne t => match tdeg t with Some _ => Some 0 | None => None end
  | TDiv t s => match tdeg t, tdeg s with
                | Some d, Some 0 => Some d
                | Some 1, Some 1 => Some 0
                | _, _ => None
                end
  | TImage t => tdeg t
  | TImageS t s => match tdeg t, tdeg s with Some d, Some 0 => Some d | _, _ => None end
  | TSplit _ m a => match tdeg m, tdeg a with Some 0, Some 0 => Some 0 | _, _ => None end
  | TConst => Some 0
  end.

(* configuration of the builder (truthiness of its parameters) *)
Record cfg := { c_crop : bool; c_rescale : bool; c_pad : bool; c_rot : bool; c_flip : bool; c_reverse : bool; c_zero_pad : bool;
                c_mask : bool; c_compress : bool; c_pad_coils : bool; c_body : bool; c_sens : bool; c_del_acs : bool;
                c_del_kspace : bool; c_scaling : skey; c_percentile : bool; c_recon_sense : bool }.

Definition bools := [false; true].
Definition all_cfgs (scalings : list skey) : list cfg :=
  flat_map (fun a => flat_map (fun b => flat_map (fun c => flat_map (fun d => flat_map (fun e => flat_map (fun f =>
  flat_map (fun g => flat_map (fun h => flat_map (fun i => flat_map (fun j => flat_map (fun k => flat_map (fun l =>
  flat_map (fun m => flat_map (fun n => flat_map (fun s => flat_map (fun p => map (fun q =>
    Build_cfg a b c d e f g h i j k l m n s p q) bools) bools) scalings) bools) bools) bools) bools) bools) bools) bools) bools) bools) bools) bools) bools) bools) bools.

Lemma in_bools b : In b bools.
Proof. destruct b; cbn; auto. Qed.

Lemma all_cfgs_complete scalings x : In (c_scaling x) scalings -> In x (all_cfgs scalings).
Proof.
  intros H. destruct x as [a b c d e f g h i j k l m n s p q]. cbn [c_scaling] in H. unfold all_cfgs.
  repeat (apply in_flat_map; eexists; split; [first [exact H | apply in_bools] |]).
  apply in_map_iff. eexists. split; [reflexivity|apply in_bools].
Qed.
