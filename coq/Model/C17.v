(* C17 — shape arithmetic of the padding / pooling / wavelet / sub-pixel networks.

   A tensor is abstracted to its spatial sizes. Every axis carries (current size, stack of remembered sizes, size of the
   network input); the axes are kept innermost first (index j = axis -1-j of the tensor), which is the order in which
   torch.nn.functional.pad reads its padding list: entries 2j and 2j+1 pad axis j.

   The layer formulas (convolution, transposed convolution, pooling, pixel shuffle, reflect padding requires pad < size,
   Python slicing) are torch's documented ones and are an oracle contract, validated by the shape-trace correspondence. *)
From DV Require Import Base.Tactics.
Local Open Scope Z_scope.

Record ast := mk { cur : Z; stk : list Z; inp : Z }.
Definition upd (a : ast) (c : Z) : ast := mk c (stk a) (inp a).

Definition conv_out (k s p d n : Z) : option Z :=
  let num := n + 2 * p - d * (k - 1) - 1 in if num <? 0 then None else Some (num / s + 1).
Definition convT_out (k s n : Z) : Z := (n - 1) * s + k.
Definition pool_out (k s n : Z) : option Z := if n <? k then None else Some ((n - k) / s + 1).

(* Python x[a:b] on an axis of size c, for any integers a b *)
Definition norm_idx (c i : Z) : Z := if i <? 0 then Z.max 0 (i + c) else Z.min i c.
Definition slice_len (c a b : Z) : Z := Z.max 0 (norm_idx c b - norm_idx c a).

Inductive sop :=
| OConv (k s p d : Z) | OConvT (k s : Z) | OPool (k s : Z) | OShuffle (r : Z) | ODwt | OIwt
| OPush | OPopCrop | OCropInput
| OPadBy (lo hi : Z -> Z)                 (* remember n, constant-pad by lo n / hi n *)
| OPopSlice (start stop : Z -> Z -> Z)    (* recall n, keep [start n c : stop n c] of the current size c *)
| OPopPadCat (idx : list nat)             (* pop r; axes that differ from r get padding[idx j] = 1 (reflect); concatenate with r *)
| OPadOdd (idx : list nat).               (* odd axes get padding[idx j] = 1 (reflect) *)

Definition crop_to (c r : Z) : Z := if r <? c then r else c.

Definition step_local (o : sop) (a : ast) : option ast :=
  match o with
  | OConv k s p d => option_map (upd a) (conv_out k s p d (cur a))
  | OConvT k s => Some (upd a (convT_out k s (cur a)))
  | OPool k s => option_map (upd a) (pool_out k s (cur a))
  | OShuffle r => Some (upd a (r * cur a))
  | ODwt => if Z.even (cur a) then Some (upd a (cur a / 2)) else None
  | OIwt => Some (upd a (2 * cur a))
  | OPush => Some (mk (cur a) (cur a :: stk a) (inp a))
  | OPopCrop => match stk a with
                | r :: t => if crop_to (cur a) r =? r then Some (mk r t (inp a)) else None
                | [] => None
                end
  | OCropInput => if crop_to (cur a) (inp a) =? inp a then Some (upd a (inp a)) else None
  | OPadBy lo hi => Some (mk (cur a + lo (cur a) + hi (cur a)) (cur a :: stk a) (inp a))
  | OPopSlice start stop => match stk a with
                            | n :: t => Some (mk (slice_len (cur a) (start n (cur a)) (stop n (cur a))) t (inp a))
                            | [] => None
                            end
  | OPopPadCat _ | OPadOdd _ => None
  end.

Fixpoint mapM {A B} (f : A -> option B) (l : list A) : option (list B) :=
  match l with
  | [] => Some []
  | x :: t => match f x, mapM f t with Some y, Some t' => Some (y :: t') | _, _ => None end
  end.

Fixpoint set_nth (i : nat) (v : Z) (l : list Z) : list Z :=
  match l, i with
  | [], _ => []
  | _ :: t, O => v :: t
  | x :: t, S i' => x :: set_nth i' v t
  end.

Definition padvec (n2 : nat) (cs : list bool) (idx : list nat) : list Z :=
  fold_left (fun (p : list Z) (ci : bool * nat) => if fst ci then set_nth (snd ci) 1 p else p) (combine cs idx) (repeat 0 n2).

(* reflect padding of x before / y after on an axis needs x, y < size; the code does not call F.pad when nothing is set *)
Definition reflect_ok (c x : Z) : bool := (x =? 0) || (x <? c).
Fixpoint apply_reflect (l : list ast) (p : list Z) : option (list ast) :=
  match l with
  | [] => Some []
  | a :: t => match p with
              | x :: y :: p' => if reflect_ok (cur a) x && reflect_ok (cur a) y
                                then match apply_reflect t p' with Some t' => Some (upd a (cur a + x + y) :: t') | None => None end
                                else None
              | _ => None
              end
  end.

Definition differs (a : ast) : option bool := match stk a with r :: _ => Some (negb (cur a =? r)) | [] => None end.
Definition pop_eq (a : ast) : option ast :=
  match stk a with r :: t => if cur a =? r then Some (mk r t (inp a)) else None | [] => None end.

Definition step (o : sop) (l : list ast) : option (list ast) :=
  match o with
  | OPopPadCat idx => match mapM differs l with
                      | Some cs => match apply_reflect l (padvec (2 * length l) cs idx) with
                                   | Some l' => mapM pop_eq l'
                                   | None => None
                                   end
                      | None => None
                      end
  | OPadOdd idx => apply_reflect l (padvec (2 * length l) (map (fun a => Z.odd (cur a)) l) idx)
  | _ => mapM (step_local o) l
  end.

Fixpoint run (p : list sop) (l : list ast) : option (list ast) :=
  match p with
  | [] => Some l
  | o :: p' => match step o l with Some l' => run p' l' | None => None end
  end.

(* sizes after every layer that is a module of its own (what forward hooks observe) *)
Definition observed (o : sop) : bool :=
  match o with OConv _ _ _ _ | OConvT _ _ | OShuffle _ | ODwt | OIwt => true | _ => false end.
Fixpoint run_trace (p : list sop) (l : list ast) (acc : list (list Z)) : option (list Z) * list (list Z) :=
  match p with
  | [] => (Some (map cur l), rev acc)
  | o :: p' => match step o l with
               | Some l' => run_trace p' l' (if observed o then map cur l' :: acc else acc)
               | None => (None, rev acc)
               end
  end.

Definition start (dims : list Z) : list ast := map (fun n => mk n [] n) dims.
Definition out_dims (p : list sop) (dims : list Z) : option (list Z) := option_map (map cur) (run p (start dims)).
Definition trace_of (p : list sop) (dims : list Z) := run_trace p (start dims) [].

(* ------------------------------------------------------------------ one axis at a time *)
Definition step1 (o : sop) (a : ast) : option ast :=
  match o with
  | OPadOdd _ => if Z.odd (cur a) then (if 1 <? cur a then Some (upd a (cur a + 1)) else None) else Some a
  | OPopPadCat _ => match stk a with
                    | r :: t => if cur a =? r then Some (mk r t (inp a))
                                else if (1 <? cur a) && (cur a + 1 =? r) then Some (mk r t (inp a)) else None
                    | [] => None
                    end
  | _ => step_local o a
  end.
Fixpoint run1 (p : list sop) (a : ast) : option ast :=
  match p with [] => Some a | o :: p' => match step1 o a with Some a' => run1 p' a' | None => None end end.

(* the padding indices that make an op act on each axis separately: axis j is padded through entry 2j+1 (after) *)
Definition canonical (k : nat) (o : sop) : Prop :=
  match o with OPopPadCat idx | OPadOdd idx => idx = map (fun j => (2 * j + 1)%nat) (seq 0 k) | _ => True end.

(* ------------------------------------------------------------------ the programs (hand model; mirrors the forwards) *)
Fixpoint rep {A} (n : nat) (l : list A) : list A := match n with O => [] | S n' => l ++ rep n' l end.
Definition same3 := OConv 3 1 1 1.
Definition one1 := OConv 1 1 0 1.

Section Programs.
Variable idx : list nat.   (* [1;3] in 2-D, [1;3;5] in 3-D *)

(* unet_2d.py / unet_3d.py: ConvBlock = two 3x3 convolutions; pooling 2/2; TransposeConvBlock = 2/2 *)
Definition convblock := [same3; same3].
Definition unet_down := convblock ++ [OPush; OPool 2 2].
Definition unet_up := [OConvT 2 2; OPopPadCat idx] ++ convblock.
Definition unet_prog (L : nat) : list sop :=
  rep (1 + (L - 1)) unet_down ++ convblock ++ rep ((L - 1) + 1) unet_up ++ [one1].

(* mwcnn.py: ConvBlock (3x3, padding 1) then DilatedConvBlock (dilations d1 d2, padding d) *)
Definition mw_block (d1 d2 : Z) := [same3; OConv 3 1 d1 d1; OConv 3 1 d2 d2].
Definition mw_up (d1 d2 : Z) := [OConv 3 1 d1 d1; OConv 3 1 d2 d2; same3].
Definition mw_first (sc : nat) := (if Nat.eqb sc 1 then mw_block 2 3 else mw_block 2 1) ++ [OPadOdd idx; OPush].
Definition mw_mid := [ODwt] ++ mw_block 2 1 ++ [OPadOdd idx; OPush].
Definition mw_last := [ODwt] ++ mw_block 2 3.
Definition mw_upstep (first : bool) := (if first then mw_up 3 2 else mw_up 2 1) ++ [OIwt; OPopCrop].
Definition mwcnn_prog (sc : nat) : list sop :=
  [OPadOdd idx] ++
  match sc with
  | O => []
  | 1%nat => mw_first 1
  | S (S k) => mw_first sc ++ rep k mw_mid ++ mw_last
  end ++
  match sc with
  | O => []
  | 1%nat => mw_up 3 2 ++ [OCropInput]
  | S (S k) => mw_upstep true ++ rep k (mw_upstep false) ++ mw_up 2 1 ++ [OCropInput]
  end.

(* didn.py *)
Definition down3 := OConv 3 2 1 1.
Definition subpixel := [one1; OShuffle 2].
Definition dub_prog : list sop :=
  [OPush; OPadOdd idx; same3; same3; OPush; down3; same3; OPush; down3; same3] ++ subpixel ++ [OPopCrop; one1; same3] ++
  subpixel ++ [OPopCrop; one1; same3; same3; same3; OPopCrop].
Definition didn_prog (D R : nat) : list sop :=
  [same3; down3] ++ rep D dub_prog ++ rep (D * R) [same3] ++ [one1; same3] ++ subpixel ++ [same3; OCropInput].
End Programs.

(* NormUnetModel2d / NormUnetModel3d: pad to the next multiple of 16 (floor / ceil halves), U-Net, slice back *)
Definition nu_mult (n : Z) : Z := Z.lor (n - 1) 15 + 1.
Definition nu_lo (n : Z) : Z := (nu_mult n - n) / 2.
Definition nu_hi (n : Z) : Z := - ((- (nu_mult n - n)) / 2).
Definition nu_start (n c : Z) : Z := nu_lo n.
Definition nu_stop (n c : Z) : Z := nu_mult n - nu_hi n.
Definition normunet_prog idx (L : nat) : list sop := [OPadBy nu_lo nu_hi] ++ unet_prog idx L ++ [OPopSlice nu_start nu_stop].

(* UnetModel3d: pad_to_pow_of_2(input, L) first, crop back at the end *)
Definition p2_lo (k n : Z) : Z := if n - 2 ^ k <? 1 then Z.abs (n - 2 ^ k) / 2 else 0.
Definition p2_hi (k n : Z) : Z := if n - 2 ^ k <? 1 then Z.abs (n - 2 ^ k) - Z.abs (n - 2 ^ k) / 2 else 0.
Definition p2_start (k n c : Z) : Z := p2_lo k n.
Definition p2_stop (k n c : Z) : Z := c - p2_hi k n.
Definition unet3d_prog (L : nat) : list sop :=
  [OPadBy (p2_lo (Z.of_nat L)) (p2_hi (Z.of_nat L))] ++ unet_prog [1; 3; 5]%nat L ++ [OPopSlice (p2_start (Z.of_nat L)) (p2_stop (Z.of_nat L))].
Definition normunet3d_prog (L : nat) : list sop := [OPadBy nu_lo nu_hi] ++ unet3d_prog L ++ [OPopSlice nu_start nu_stop].
