(* C09 — normalisation of sensitivity maps at one spatial location, over the real numbers (hand-written). *)
From Coq Require Import Reals List.
Import ListNotations.
Local Open Scope R_scope.

(* safe_divide: zero where the divisor is zero *)
Definition sdiv (x y : R) : R := if Req_EM_T y 0 then 0 else x / y.
Definition sumsq (l : list (R * R)) : R := fold_right (fun a acc => fst a * fst a + snd a * snd a + acc) 0 l.
(* divide every coil value by the root-sum-of-squares over coils (and complex components) *)
Definition normalise (l : list (R * R)) : list (R * R) :=
  let n := sqrt (sumsq l) in map (fun a => (sdiv (fst a) n, sdiv (snd a) n)) l.
